"""C08 helper: ATen-schema binding model, OpRecorder tracing, oracle, per-family strategies.

Layout
  1. lazy imports (torch costs seconds: nothing here is imported at module import time)
  2. registry view: qualified name -> (onnxscript function, torch OpOverload, canonical alias)
  3. JSON codec for ATen argument tuples (replay files are self-contained)
  4. the exporter's binding model: type-promotion normalisation (torch.onnx InsertTypePromotion rules),
     fx-arg -> onnx-arg conversion, annotation (type constraint) check, OpRecorder trace into an ir.Model
  5. oracle: torch eager vs onnxruntime (onnx.reference as cross-check), structured comparison
  6. generators: helper `G` + one strategy per operator family + the OPS table (qualified name -> generator)
"""
from __future__ import annotations

import hashlib
import math
import types

import numpy as np

from vf import compare, execs

_NS = None


def T():
    """Namespace with torch + exporter internals, imported once per process."""
    global _NS
    if _NS is None:
        import onnx
        import onnxscript
        import torch
        from onnxscript import ir
        from onnxscript._framework_apis import torch_2_5
        from torch.onnx._internal.exporter import _building, _core, _registration, _schemas, _tensors
        from torch.onnx._internal.fx.passes import type_promotion

        torch.set_num_threads(1)
        ns = types.SimpleNamespace(
            torch=torch, onnx=onnx, onnxscript=onnxscript, ir=ir, api=torch_2_5, building=_building, core=_core,
            registration=_registration, schemas=_schemas, tensors=_tensors, tp=type_promotion,
            table=type_promotion.TypePromotionTable(), to_onnx_dtype=_core.torch_dtype_to_onnx_dtype)
        ns.DT = {"float16": torch.float16, "float32": torch.float32, "float64": torch.float64, "int32": torch.int32,
                 "int64": torch.int64, "uint8": torch.uint8, "bool": torch.bool, "int8": torch.int8, "int16": torch.int16,
                 "bfloat16": torch.bfloat16}
        ns.DTN = {v: k for k, v in ns.DT.items()}
        _NS = ns
    return _NS


# ----------------------------------------------------------------------------- registry
class Entry:
    __slots__ = ("qname", "fn", "overload", "canonical", "traced", "_sig")

    def __init__(self, qname, fn, overload, canonical, traced):
        self.qname, self.fn, self.overload, self.canonical, self.traced = qname, fn, overload, canonical, traced
        self._sig = None

    @property
    def signature(self):
        if self._sig is None:
            t = T()
            fn = self.fn
            if isinstance(fn, t.onnxscript.OnnxFunction):
                self._sig = t.schemas.op_signature_from_function(fn, fn.function_ir.domain, fn.name, since_version=fn.opset.version)
            else:
                self._sig = t.schemas.op_signature_from_function(fn, "__traced", fn.__name__)
        return self._sig


_REG = None


def registry():
    """{qualified name: Entry} for the real-valued functions of get_torchlib_ops() whose name resolves to a torch OpOverload."""
    global _REG
    if _REG is None:
        t = T()
        reg, first_alias = {}, {}
        for m in t.api.get_torchlib_ops():
            if m.is_complex:
                continue
            try:
                ov = t.registration._get_overload(m.qualified_name)
            except Exception:  # noqa: BLE001
                ov = None
            if not isinstance(ov, t.torch._ops.OpOverload):
                ov = None
            canon = first_alias.setdefault(id(m.function), m.qualified_name)
            reg[m.qualified_name] = Entry(m.qualified_name, m.function, ov, canon, not isinstance(m.function, t.onnxscript.OnnxFunction))
        _REG = reg
    return _REG


def qname_of(overload):
    n = overload.name()  # "aten::add.Tensor" / "aten::relu"
    return n[:-len(".default")] if n.endswith(".default") else n


# ----------------------------------------------------------------------------- JSON codec
def enc(x):
    t = T()
    torch = t.torch
    if isinstance(x, torch.Tensor):
        a = x.detach()
        if a.dtype in (torch.float16, torch.bfloat16):
            data = a.to(torch.float32).reshape(-1).tolist()
        else:
            data = a.reshape(-1).tolist()
        return {"T": t.DTN[x.dtype], "s": list(x.shape), "d": data}
    if isinstance(x, torch.dtype):
        return {"D": t.DTN[x]}
    if isinstance(x, torch.memory_format):
        return {"MF": str(x).split(".")[-1]}
    if isinstance(x, torch.device):
        return {"DEV": str(x)}
    if isinstance(x, torch.layout):
        return {"LAYOUT": str(x).split(".")[-1]}
    if isinstance(x, (list, tuple)):
        return [enc(v) for v in x]
    if isinstance(x, (bool, int, float, str)) or x is None:
        return x
    raise TypeError(f"cannot encode {type(x)}")


def dec(x):
    t = T()
    torch = t.torch
    if isinstance(x, dict):
        if "T" in x:
            dt = t.DT[x["T"]]
            if dt in (torch.float16, torch.bfloat16):
                return torch.tensor(x["d"], dtype=torch.float32).to(dt).reshape(x["s"])
            return torch.tensor(x["d"], dtype=dt).reshape(x["s"])
        if "D" in x:
            return t.DT[x["D"]]
        if "MF" in x:
            return getattr(torch, x["MF"])
        if "DEV" in x:
            return torch.device(x["DEV"])
        if "LAYOUT" in x:
            return getattr(torch, x["LAYOUT"])
        raise TypeError(f"cannot decode {x}")
    if isinstance(x, list):
        return [dec(v) for v in x]
    return x


def arg_signature(x):
    """Structure of an argument without tensor data (distinctness key)."""
    t = T()
    if isinstance(x, t.torch.Tensor):
        return ("T", t.DTN[x.dtype], tuple(x.shape))
    if isinstance(x, t.torch.dtype):
        return ("D", t.DTN[x])
    if isinstance(x, (list, tuple)):
        return tuple(arg_signature(v) for v in x)
    if isinstance(x, float) and math.isnan(x):
        return ("float", "nan")
    return (type(x).__name__, x)


def show(x):
    t = T()
    if isinstance(x, t.torch.Tensor):
        if x.numel() <= 12:
            return f"tensor({x.tolist()}, dtype={t.DTN[x.dtype]})" + ("" if x.numel() else f"<shape {list(x.shape)}>")
        return f"tensor<{t.DTN[x.dtype]}{list(x.shape)}>"
    if isinstance(x, (list, tuple)):
        return "[" + ", ".join(show(v) for v in x) + "]"
    return repr(x)


def show_call(qname, args, kwargs):
    parts = [show(a) for a in args] + [f"{k}={show(v)}" for k, v in kwargs.items()]
    return f"{qname}({', '.join(parts)})"


# ----------------------------------------------------------------------------- exporter binding model
def get_overload(qname):
    t = T()
    ns, rest = qname.split("::")
    name, *ov = rest.split(".", 1)
    return getattr(getattr(getattr(t.torch.ops, ns), name), ov[0] if ov else "default")


def normalise(overload, args, kwargs):
    """What torch.onnx's InsertTypePromotion pass does to one call_function node: promote tensor arguments to the
    rule's computation dtype (prims.convert_element_type), turn python scalars whose equivalent dtype differs into 0-d
    tensors (aten.scalar_tensor), re-select the compatible overload.  Returns (overload', args', kwargs', changed)."""
    t = T()
    torch = t.torch
    rule = t.table.get_rule(overload.overloadpacket)
    if rule is None:
        return overload, list(args), dict(kwargs), False
    snap = rule.preview_type_promotion(tuple(args), dict(kwargs))
    changed = [False]

    def promote(a, dtype):
        if dtype is None:
            return a
        if isinstance(a, torch.Tensor):
            if a.dtype != dtype:
                changed[0] = True
                return a.to(dtype)
            return a
        if isinstance(a, (bool, int, float)):
            eq = {bool: torch.bool, int: torch.int64, float: torch.float32}[type(a)]
            if eq != dtype:
                changed[0] = True
                return torch.scalar_tensor(a, dtype=dtype)
            return a
        if isinstance(a, (list, tuple)):
            return type(a)(promote(v, dtype) for v in a)
        return a

    new_args = [promote(a, snap.args_dtypes.get(i)) for i, a in enumerate(args)]
    new_kwargs = {k: promote(v, snap.kwargs_dtypes.get(k)) for k, v in kwargs.items()}
    if changed[0]:
        overload = t.tp.find_compatible_op_overload(overload.overloadpacket, tuple(new_args), new_kwargs)
    return overload, new_args, new_kwargs, changed[0]


class Bound:
    """ATen arguments converted the way _core._handle_call_function_node_with_lowering does."""

    def __init__(self, args, kwargs):
        t = T()
        torch, ir = t.torch, t.ir
        self.opset = t.onnxscript.values.Opset("", 18)
        self.inputs, self.feeds = [], {}

        def conv(a):
            if a is None:
                return None
            if isinstance(a, torch.Tensor):
                name = f"input_{len(self.inputs)}"
                v = t.tensors.SymbolicTensor(opset=self.opset, name=name, shape=ir.Shape(list(a.shape)),
                                             type=ir.TensorType(t.to_onnx_dtype(a.dtype)))
                self.inputs.append(v)
                self.feeds[name] = to_numpy(a)
                return v
            if isinstance(a, (list, tuple)):
                return [conv(x) for x in a]
            if isinstance(a, (torch.device, torch.memory_format, torch.layout)):
                return str(a)
            if isinstance(a, torch.dtype):
                return t.to_onnx_dtype(a)
            return a

        self.args = [conv(a) for a in args]
        self.kwargs = {}
        for k, v in kwargs.items():
            self.kwargs[k] = conv(v)
            if k == "dtype" and self.kwargs[k] is None:
                self.kwargs[k] = -1


def to_numpy(a):
    t = T()
    if a.dtype == t.torch.bfloat16:
        import ml_dtypes

        return a.to(t.torch.float32).numpy().astype(ml_dtypes.bfloat16)
    return a.detach().contiguous().numpy()


def annotation_problem(entry, bound):
    """None if every tensor argument has a dtype the function's own annotations admit (and arguments sharing a type
    variable share a dtype); else a short reason.  Such calls are outside the function's declared domain."""
    t = T()
    ir = t.ir
    try:
        sig = entry.signature
        named_inputs, _ = t.building._construct_named_inputs_and_attrs(sig, bound.args, bound.kwargs)
    except Exception as e:  # noqa: BLE001   binding failures are reported by the trace step
        return None
    seen = {}
    for name, arg in named_inputs.items():
        p = sig.params_map[name]
        allowed = p.type_constraint.allowed_types
        vals = []
        if isinstance(arg, ir.Value):
            vals = [(arg, False)]
        elif isinstance(arg, (list, tuple)):
            vals = [(v, True) for v in arg if isinstance(v, ir.Value)]
        for v, in_seq in vals:
            if v.type is None:
                continue
            cands = [v.type, ir.SequenceType(v.type), ir.OptionalType(v.type)] if in_seq else [v.type, ir.OptionalType(v.type)]
            if not any(c in allowed for c in cands):
                return f"{name}:{v.dtype.name}"
            key = p.type_constraint.name
            if key in seen and seen[key] != v.dtype:
                return f"{name}:{v.dtype.name}!={seen[key].name}"
            seen[key] = v.dtype
    return None


def root_cause(e):
    seen = 0
    while e.__cause__ is not None and seen < 20:
        e = e.__cause__
        seen += 1
    return e


def frame_in_torchlib(e):
    import traceback

    tb = traceback.extract_tb(e.__traceback__)
    for fr in reversed(tb):
        if "/torch_lib/" in fr.filename or "/onnxscript/" in fr.filename:
            return f"{fr.filename.split('/')[-1]}:{fr.name}"
    return f"{tb[-1].filename.split('/')[-1]}:{tb[-1].name}" if tb else "?"


def trace(entry, bound):
    """Trace the registered function with OpRecorder exactly like the exporter; returns (ModelProto, n_outputs, single)."""
    t = T()
    ir = t.ir
    graph = ir.Graph((), (), nodes=(), opset_imports={"": 18, "pkg.torch.onnx": 1, "pkg.onnxscript.torch_lib.common": 1,
                                                     "pkg.onnxscript.torch_lib": 1}, name="main_graph")
    for v in bound.inputs:
        graph.inputs.append(v)
    tracer = t.building.OpRecorder(bound.opset, {})
    with t.onnxscript.evaluator.default_as(tracer):
        outs = entry.fn(*bound.args, **bound.kwargs)
    single = not isinstance(outs, (list, tuple))
    if single:
        outs = [outs]
    outs = list(outs)
    graph.extend(tracer.nodes)
    final = []
    for i, o in enumerate(outs):
        if not isinstance(o, ir.Value):
            raise TypeError(f"function returned a non-Value output #{i}: {type(o).__name__} {o!r}")
        if o.is_graph_input() or o in final:  # a graph input / duplicate cannot be a graph output: route via Identity (harness only)
            node = ir.Node("", "Identity", [o], num_outputs=1, version=18)
            graph.append(node)
            o = node.outputs[0]
        o.name = f"out_{i}"
        final.append(o)
    graph.outputs.extend(final)
    model = ir.Model(graph, ir_version=10, producer_name="vf-c08")
    for ident, f in tracer.functions.items():
        if ident in model.functions:
            continue
        if not isinstance(f, ir.Function):
            f = ir.serde.deserialize_function(f.to_function_proto())
        model.functions[ident] = f
    return ir.to_proto(model), len(final), single


# ----------------------------------------------------------------------------- oracle
TOL = {"float16": (1e-2, 1e-2), "bfloat16": (5e-2, 5e-2), "float32": (1e-4, 1e-5), "float64": (1e-7, 1e-7)}
_PREC = ["float64", "float32", "float16", "bfloat16"]


def coarsest_float(args, kwargs):
    """Name of the lowest-precision floating dtype among tensor arguments (None if there is none)."""
    t = T()
    worst = [None]

    def visit(x):
        if isinstance(x, t.torch.Tensor) and x.dtype.is_floating_point:
            n = t.DTN.get(x.dtype)
            if n in _PREC and (worst[0] is None or _PREC.index(n) > _PREC.index(worst[0])):
                worst[0] = n
        elif isinstance(x, (list, tuple)):
            for v in x:
                visit(v)

    visit(list(args))
    visit(list(kwargs.values()))
    return worst[0]


def _flat_expected(exp):
    """torch result -> list of items; item = ndarray | list[ndarray] (Tensor[] result).  None if not tensor-valued."""
    t = T()
    torch = t.torch
    if isinstance(exp, torch.Tensor):
        return [to_numpy(exp)], "tensor"
    if isinstance(exp, (tuple, list)):
        if all(isinstance(x, torch.Tensor) for x in exp):
            return [to_numpy(x) for x in exp], ("list" if isinstance(exp, list) else "tuple")
        return None, "mixed"
    return None, type(exp).__name__


def _scale(args, kwargs, expected):
    s = 1.0
    t = T()

    def visit(x):
        nonlocal s
        if isinstance(x, t.torch.Tensor):
            if x.dtype.is_floating_point and x.numel():
                f = x.to(t.torch.float64)
                f = f[t.torch.isfinite(f)]
                if f.numel():
                    s = max(s, float(f.abs().max()))
        elif isinstance(x, np.ndarray):
            if x.dtype.kind == "f" and x.size:
                f = np.abs(x[np.isfinite(x)].astype(np.float64))
                if f.size:
                    s = max(s, float(f.max()))
        elif isinstance(x, float) and math.isfinite(x):
            s = max(s, abs(x))
        elif isinstance(x, (list, tuple)):
            for v in x:
                visit(v)

    visit(list(args))
    visit(list(kwargs.values()))
    visit(expected)
    return s


def compare_outputs(expected, kind, got, single, scale, check_values=True, in_prec=None):
    """expected: list of ndarrays (torch), got: list from the runtime.  Returns list[(kind, detail)] (first problem only)."""
    # structure: a Tensor[] result may come back as one ONNX sequence or as that many tensor outputs
    if kind == "list":
        if len(got) == 1 and isinstance(got[0], list):
            got = got[0]
        if any(isinstance(g, list) for g in got):
            return [("structure", f"torch returns Tensor[{len(expected)}], graph returns nested sequences")]
    else:
        if any(isinstance(g, list) for g in got):
            return [("structure", f"torch returns {kind} of {len(expected)} tensor(s), graph returns a sequence")]
    if len(got) != len(expected):
        return [("structure", f"torch returns {len(expected)} tensor(s), graph returns {len(got)}")]
    for i, (e, g) in enumerate(zip(expected, got)):
        g = np.asarray(g)
        if e.dtype != g.dtype:
            return [("dtype", f"output {i}: torch {e.dtype} vs onnx {g.dtype}")]
        if e.shape != g.shape:
            return [("shape", f"output {i}: torch {e.shape} vs onnx {g.shape}")]
    if not check_values:
        return []
    for i, (e, g) in enumerate(zip(expected, got)):
        g = np.asarray(g)
        name = e.dtype.name
        if in_prec and name in _PREC and _PREC.index(in_prec) > _PREC.index(name):
            name = in_prec  # a result cannot be demanded to be more precise than the coarsest floating input
        rel, abs_ = TOL.get(name, (0.0, 0.0))
        d = compare.same_array(e, g, rel=rel, abs_=abs_ * scale) if e.dtype.kind == "f" else compare.same_array(e, g)
        if d:
            return [("values", f"output {i}: torch vs onnx: {d}")]
    return []


# ----------------------------------------------------------------------------- crash isolation for the runtimes
# onnxruntime, onnx.reference and onnx's C++ shape inference run in ONE persistent child process per worker: a traced model that
# makes one of them die (seen: SIGFPE inside onnx shape inference for SplitToSequence with split size 0) then costs one case
# ("runtime_crashed", counted and sampled) instead of the whole shard.
def _runtime_server(conn):
    import warnings

    warnings.filterwarnings("ignore")
    np.seterr(all="ignore")
    import onnx

    while True:
        try:
            msg = conn.recv()
        except (EOFError, OSError):
            return
        kind = msg[0]
        try:
            if kind == "ort":
                out = execs.run_ort(msg[1], msg[2])
            elif kind == "ref":
                out = execs.run_ref(msg[1], msg[2])
            elif kind == "strict":
                try:
                    onnx.shape_inference.infer_shapes(onnx.load_from_string(msg[1]), check_type=True, strict_mode=True)
                    out = None
                except Exception as e:  # noqa: BLE001
                    out = f"{type(e).__name__}: {str(e)[:300]}"
            elif kind == "stop":
                return
            else:
                out = ("err", "unknown request")
        except BaseException as e:  # noqa: BLE001
            out = ("err", f"{type(e).__name__}: {str(e)[:300]}")
        try:
            conn.send(out)
        except Exception as e:  # noqa: BLE001   unpicklable result
            conn.send(("err", f"unserialisable runtime result: {type(e).__name__}"))


class RuntimeCrash(Exception):
    pass


class Runtime:
    TIMEOUT = 120

    def __init__(self):
        self.proc = None
        self.conn = None
        self.crashes = 0

    def _start(self):
        import multiprocessing as mp

        ctx = mp.get_context("spawn")
        parent, child = ctx.Pipe()
        self.proc = ctx.Process(target=_runtime_server, args=(child,), daemon=True)
        self.proc.start()
        child.close()
        self.conn = parent

    def _call(self, *msg):
        if self.proc is None or not self.proc.is_alive():
            self._start()
        try:
            self.conn.send(msg)
            if not self.conn.poll(self.TIMEOUT):
                raise EOFError("timeout")
            return self.conn.recv()
        except (EOFError, OSError, BrokenPipeError) as e:
            code = None
            try:
                self.proc.join(0.5)
                code = self.proc.exitcode
                if self.proc.is_alive():
                    self.proc.kill()
            except Exception:  # noqa: BLE001
                pass
            self.proc = None
            self.crashes += 1
            raise RuntimeCrash(f"runtime process died during '{msg[0]}' (exit code {code}; {e})") from None

    def run_ort(self, model_bytes, feeds):
        return self._call("ort", model_bytes, feeds)

    def run_ref(self, model_bytes, feeds):
        return self._call("ref", model_bytes, feeds)

    def strict(self, model_bytes):
        return self._call("strict", model_bytes)

    def close(self):
        try:
            if self.proc is not None and self.proc.is_alive():
                self.conn.send(("stop",))
                self.proc.join(1)
                if self.proc.is_alive():
                    self.proc.kill()
        except Exception:  # noqa: BLE001
            pass
        self.proc = None


_RT = None


def runtime():
    global _RT
    if _RT is None:
        import atexit

        _RT = Runtime()
        atexit.register(_RT.close)
    return _RT


ORT_MISSING = ("NOT_IMPLEMENTED", "Could not find an implementation", "not implemented", "is not supported by")


def run_call(qname, args, kwargs, check_values=True, tol_scale=1.0):
    """The oracle on one ATen call (already decoded).  Returns dict(status, verdicts=[(kind, detail)], info).
    status: ok | skip:<reason> | violation."""
    t = T()
    torch = t.torch
    reg = registry()
    info = {"op": qname}
    if qname not in reg or reg[qname].overload is None:
        return {"status": "skip:not_registered", "verdicts": [], "info": info}
    overload = reg[qname].overload
    # 1. the exporter's type-promotion pass
    try:
        ov2, args2, kwargs2, changed = normalise(overload, args, kwargs)
    except Exception as e:  # noqa: BLE001  the rule itself rejects the call (outside torch's domain)
        return {"status": "skip:promotion_rule_rejects", "verdicts": [], "info": info}
    q2 = qname_of(ov2)
    info["promoted"] = changed
    info["op_effective"] = q2
    if q2 not in reg or reg[q2].overload is None:
        return {"status": "skip:promoted_overload_unregistered", "verdicts": [], "info": info}
    entry = reg[q2]
    info["canonical"] = entry.canonical
    info["call"] = show_call(q2, args2, kwargs2)
    # 2. torch eager = the oracle
    try:
        with torch.no_grad():
            exp = ov2(*args2, **kwargs2)
    except Exception as e:  # noqa: BLE001
        info["torch_error"] = f"{type(e).__name__}: {str(e)[:200]}"
        return {"status": "skip:torch_rejects", "verdicts": [], "info": info}
    expected, kind = _flat_expected(exp)
    if expected is None:
        return {"status": "skip:non_tensor_result", "verdicts": [], "info": info}
    if any(e.dtype.kind == "c" for e in expected):
        return {"status": "skip:complex_result", "verdicts": [], "info": info}
    info["expected"] = [f"{e.dtype}{list(e.shape)}" for e in expected]
    # 3. bind like the exporter, check the function's own annotations
    bound = Bound(args2, kwargs2)
    why = annotation_problem(entry, bound)
    if why:
        info["annotation"] = why
        return {"status": "skip:dtype_outside_annotation", "verdicts": [], "info": info}
    # 4. trace
    try:
        model, n_out, single = trace(entry, bound)
    except Exception as e:  # noqa: BLE001
        rc = root_cause(e)
        msg = f"{type(rc).__name__}: {str(rc)[:300]}"
        if isinstance(rc, NotImplementedError):
            info["declared_unsupported"] = msg
            return {"status": "skip:declared_unsupported", "verdicts": [], "info": info}
        return {"status": "violation", "verdicts": [("raises_during_trace", f"{msg} @ {frame_in_torchlib(rc)}")], "info": info}
    info["nodes"] = len(model.graph.node)
    # 5. execute (in the crash-isolated runtime process)
    try:
        return _execute_and_compare(model, bound, expected, kind, single, args2, kwargs2, check_values, info, tol_scale)
    except RuntimeCrash as e:
        info["runtime_crashed"] = str(e)
        return {"status": "skip:runtime_crashed", "verdicts": [], "info": info}


def _execute_and_compare(model, bound, expected, kind, single, args2, kwargs2, check_values, info, tol_scale=1.0):
    rt = runtime()
    mb = model.SerializeToString()
    scale = _scale(args2, kwargs2, expected) * tol_scale
    prec = coarsest_float(args2, kwargs2)
    r = rt.run_ort(mb, bound.feeds)
    if r[0] != "ok":
        if any(m in r[1] for m in ORT_MISSING):
            info["ort_error"] = r[1]
            return {"status": "skip:ort_kernel_missing", "verdicts": [], "info": info}
        bad = rt.strict(mb)
        ref = rt.run_ref(mb, bound.feeds)
        if bad is None and ref[0] == "ok":
            # onnxruntime cannot execute a model that strict ONNX type/shape inference accepts and the reference
            # evaluator runs: the reference evaluator alone decides
            v = compare_outputs(expected, kind, ref[1], single, scale, check_values, prec)
            info["ort_error"] = r[1]
            if not v:
                return {"status": "skip:ort_fails_reference_agrees", "verdicts": [], "info": info}
            return {"status": "violation", "verdicts": [(v[0][0], v[0][1] + f" [reference evaluator only; onnxruntime: {r[1][:160]}]")],
                    "info": info, "ref_only": True}
        detail = r[1] + (f" | strict shape inference: {bad}" if bad else "") + (f" | reference: {ref[1][:160]}" if ref[0] != "ok" else "")
        return {"status": "violation", "verdicts": [("ort_cannot_run", detail)], "info": info}
    v = compare_outputs(expected, kind, r[1], single, scale, check_values, prec)
    if v and v[0][0] in ("values", "shape", "structure"):
        ref = rt.run_ref(mb, bound.feeds)
        if ref[0] == "ok" and not compare_outputs(expected, kind, ref[1], single, scale, check_values, prec):
            info["runtime_split"] = v[0][1]
            return {"status": "skip:runtime_split_ort_vs_reference", "verdicts": [], "info": info}
    return {"status": "violation" if v else "ok", "verdicts": v, "info": info}


# ============================================================================= generators
# Every generator takes (g, p) and returns (args, kwargs) of torch objects for the ATen overload named in the OPS table.
# All randomness comes from Hypothesis draws (tensor data: a drawn integer seeds numpy's Generator, so the array is a pure
# function of the drawn example).

DIMS = [0, 1, 1, 2, 2, 3, 3, 4, 5]
DIMS_NZ = [1, 1, 2, 2, 3, 3, 4, 5]
F, I, U, B = ["float32", "float32", "float32", "float64", "float16"], ["int64", "int32"], ["uint8"], ["bool"]
GROUPS = {"F": F, "I": I, "U": U, "B": B, "FI": F + I, "FIB": F + I + B, "FIU": F + I + U, "FIUB": F + I + U + B, "IUB": I + U + B,
          "IU": I + U, "IB": I + B, "F32": ["float32", "float32", "float64"], "F32I": ["float32", "float32", "float64", "int64", "int32"]}

POOLS = {
    # exact in float16 as well; half-way cases for rounding; signed zero; values beyond |1| for inverse trig -> NaN on both sides
    "edge": [0.0, -0.0, 1.0, -1.0, 0.5, -0.5, 2.0, -2.0, 1.5, -1.5, 2.5, -2.5, 3.0, -3.0, 0.25, 7.0, -7.0, 0.001, 100.0, -100.0, 3.5, -0.75],
    "smooth": [x / 4.0 for x in range(-16, 17)],
    "pos": [0.25, 0.5, 1.0, 1.5, 2.0, 3.0, 7.0, 100.0, 0.001],
    "unit": [0.0, 0.25, -0.25, 0.5, -0.5, 0.75, -0.75, 1.0, -1.0, 0.125],
    "special": [0.0, 1.0, -1.0, float("inf"), float("-inf"), float("nan"), 2.5, -0.0],
    "small": [0.0, 1.0, -1.0, 2.0, -2.0, 0.5, 3.0],
    "nz": [1.0, -1.0, 2.0, -2.0, 0.5, -0.5, 4.0, 0.25, 3.0, -3.0],
    # pow(-0.0, negative non-integer): IEEE pow gives +inf, torch rewrites x**-0.5 to rsqrt and gives -inf -> keep -0.0 out of pow bases
    "powbase": [0.0, 1.0, -1.0, 0.5, -0.5, 2.0, -2.0, 1.5, 2.5, 3.0, -3.0, 0.25, 7.0, 100.0, -100.0],
    "shift": [0.0, 1.0, 2.0, 3.0],
}
IPOOLS = {
    "edge": [0, 1, -1, 2, -2, 3, -3, 5, -5, 7, -7, 10, 100, -100],
    "smooth": list(range(-4, 5)),
    "pos": [1, 2, 3, 5, 7, 10, 100],
    "nz": [1, -1, 2, -2, 3, -3, 5, -7, 10],
    "unit": [0, 1, -1],
    "special": [0, 1, -1, 2, -2, 7],
    "small": [0, 1, -1, 2, -2, 3],
    "shift": [0, 1, 2, 3, 5, 7],
}
UPOOLS = {"edge": [0, 1, 2, 3, 5, 7, 10, 100, 200, 255], "nz": [1, 2, 3, 5, 7, 10, 200], "shift": [0, 1, 2, 3, 5, 7], "small": [0, 1, 2, 3]}


def make_tensor(shape, dtype, pool, seed):
    t = T()
    torch = t.torch
    rng = np.random.default_rng(seed)
    n = int(np.prod(shape)) if shape else 1
    if dtype == "bool":
        arr = rng.integers(0, 2, size=n).astype(bool)
    elif dtype == "uint8":
        p = UPOOLS.get(pool, UPOOLS["edge"])
        arr = np.asarray(p, dtype=np.uint8)[rng.integers(0, len(p), size=n)]
    elif dtype.startswith("int"):
        p = IPOOLS.get(pool, IPOOLS["edge"])
        arr = np.asarray(p, dtype=np.int64)[rng.integers(0, len(p), size=n)]
    else:
        p = POOLS.get(pool, POOLS["edge"])
        arr = np.asarray(p, dtype=np.float64)[rng.integers(0, len(p), size=n)]
    return torch.from_numpy(arr.reshape(shape)).to(t.DT[dtype])


class G:
    """Choice helper.  Hypothesis draws ONE integer per case; every choice below is taken from numpy's Generator seeded with it, so a
    case is a pure function of the drawn example and the choices are uniform (Hypothesis' own small-value bias made dtype / attribute
    strata starve at quick budgets)."""

    def __init__(self, seed, allowed=None, stratum=None):
        self.rng = np.random.default_rng(seed)
        self.stratum = stratum  # the first dtype choice of a case is stratified (k-th entry of the op's dtype list), not drawn
        self.tags = []
        self.tol_scale = 1.0  # multiplier of the absolute tolerance for ill-conditioned families (normalisations: rstd <= 1/sqrt(eps))
        self.allowed = allowed  # dtype names the function's annotation admits for its first tensor parameter (None: no filter)

    def pick(self, xs):
        xs = list(xs)
        return xs[int(self.rng.integers(len(xs)))]

    def i(self, lo, hi):
        return int(self.rng.integers(lo, hi + 1))

    def b(self):
        return bool(self.rng.integers(2))

    def chance(self, pct):
        return int(self.rng.integers(100)) < pct

    def perm(self, xs):
        xs = list(xs)
        return [xs[int(k)] for k in self.rng.permutation(len(xs))]

    def tag(self, *ts):
        self.tags.extend(ts)

    def dt(self, group):
        cands = GROUPS[group] if isinstance(group, str) else list(group)
        if self.allowed is not None:
            cands = [d for d in cands if d in self.allowed] or cands
        if self.stratum is not None:
            k, self.stratum = self.stratum, None
            return cands[k % len(cands)]
        return self.pick(cands)

    def shape(self, min_rank=0, max_rank=4, dims=DIMS, max_numel=300):
        r = self.i(min_rank, max_rank)
        s = [self.pick(dims) for _ in range(r)]
        while int(np.prod(s)) > max_numel:
            k = int(np.argmax(s))
            s[k] = max(1, s[k] // 2)
        return s

    def tensor(self, shape, dtype, pool="edge"):
        return make_tensor(list(shape), dtype, pool, self.i(0, 2**31 - 1))

    def dim(self, rank, extra=0):
        """A legal dim for a tensor of this rank: [-rank, rank-1] (rank 0: [-1, 0]); extra widens (unsqueeze/stack)."""
        n = max(rank, 1) + extra
        return self.i(-n, n - 1)

    def dims(self, rank, min_n=0, max_n=None):
        """A list of distinct dims in mixed positive/negative form."""
        n = max(rank, 1)
        k = self.i(min_n, min(n, max_n if max_n is not None else n))
        perm = self.perm(range(n))[:k]
        return [d - n if self.b() else d for d in perm]

    def bshape(self, shape):
        """A shape that broadcasts with `shape` (possibly lower rank, 1s injected)."""
        s = list(shape)
        k = self.i(0, len(s))
        s = s[len(s) - k:]
        s = [1 if self.chance(35) else d for d in s]
        return s

    def scalar(self, dtype, pool="small", force=None):
        """A python scalar operand fitting a tensor of `dtype`."""
        kind = force or ("float" if dtype.startswith("float") else "bool" if dtype == "bool" else "int")
        if kind == "bool":
            return self.b()
        if kind == "int":
            return int(self.pick(UPOOLS.get(pool, UPOOLS["small"]) if dtype == "uint8" else IPOOLS.get(pool, IPOOLS["small"])))
        v = self.pick(POOLS.get(pool, POOLS["small"]))
        return float(v)


def g_unary(g, p):
    dt = g.dt(p.get("dt", "F"))
    x = g.tensor(g.shape(), dt, p.get("pool", "edge"))
    return [x], {}


def g_unary_attrs(g, p):
    """Activation-like ops with trailing Scalar / keyword attributes (see `attrs`: list of (name, choices, kwarg_only))."""
    dt = g.dt(p.get("dt", "F32"))
    x = g.tensor(g.shape(), dt, p.get("pool", "edge"))
    args, kwargs = [x], {}
    for name, choices, kwonly in p["attrs"]:
        v = g.pick(choices)
        if kwonly:
            kwargs[name] = v
        else:
            args.append(v)
    return args, kwargs


def _binary_operands(g, p, dt, pool_a, pool_b):
    sa = g.shape()
    mode = "same" if p.get("same_shape") else g.pick(["same", "same", "bcast", "bcast", "rank0_b", "rank0_a"])
    if mode == "same":
        sb = list(sa)
    elif mode == "bcast":
        sb = g.bshape(sa)
        if g.b():
            sa = [1 if (g.chance(30) and i >= len(sa) - len(sb) and sb[i - (len(sa) - len(sb))] != 1) else d for i, d in enumerate(sa)]
        if sb != sa:
            g.tag("broadcast")
    elif mode == "rank0_b":
        sb = []
    else:
        sb, sa = sa, []
    dtb = dt
    if g.chance(p.get("mixed", 15)):
        dtb = g.dt(p.get("dt", "FI"))
        if dtb != dt:
            g.tag("mixed_dtype")
    return g.tensor(sa, dt, pool_a), g.tensor(sb, dtb, pool_b)


def g_binary(g, p):
    """form: TT (Tensor, Tensor) | TS (Tensor, Scalar) | ST (Scalar, Tensor)."""
    form = p.get("form", "TT")
    dt = g.dt(p.get("dt", "FI"))
    pool_a = p.get("pool", "edge")
    pool_b = p.get("pool_b", pool_a)
    if p.get("nz_int") and not dt.startswith("float"):
        pool_b = "nz"
    kwargs = {}
    if form == "TT":
        a, b = _binary_operands(g, p, dt, pool_a, pool_b)
        if p.get("py_other", True) and g.chance(12):
            b = g.scalar(dt, "nz" if (p.get("nz_int") and not dt.startswith("float")) else "small", g.pick([None, None, "int", "float"]))
            g.tag("scalar_for_tensor")
        args = [a, b]
    elif form == "TS":
        a = g.tensor(g.shape(), dt, pool_a)
        force = None
        if g.chance(20):
            force = g.pick(["int", "float", "bool"])
        s = g.scalar(dt, "nz" if (p.get("nz_int") and not dt.startswith("float")) else p.get("spool", "small"), force)
        args = [a, s]
    else:
        b = g.tensor(g.shape(), dt, pool_b)
        s = g.scalar(dt, p.get("spool", "small"), g.pick(["int", "float"]) if g.chance(20) else None)
        args = [s, b]
    if p.get("alpha"):
        if g.chance(45):
            al = g.scalar(dt, "small")
            if p["alpha"] == "kw":
                kwargs["alpha"] = al
            else:
                args.append(al)
    if "rounding" in p:
        kwargs["rounding_mode"] = g.pick([None, "trunc", "floor", "floor", "trunc"])
        if not dt.startswith("float"):
            g.tag("int_div")
    if p.get("int_tag") and not dt.startswith("float"):
        g.tag(p["int_tag"])
    return args, kwargs


def g_pow(g, p):
    form = p["form"]
    dt = g.dt("FI")
    isf = dt.startswith("float")
    if form == "TT":
        sa = g.shape()
        sb = g.pick([sa, g.bshape(sa), []])
        base = g.tensor(sa, dt, "powbase" if isf else "small")
        ex = g.tensor(sb, dt, "small") if isf else g.tensor(sb, dt, "shift")
        if list(sb) != list(sa):
            g.tag("broadcast")
        return [base, ex], {}
    if form == "TS":
        base = g.tensor(g.shape(), dt, "powbase" if isf else "small")
        ex = g.pick([0, 1, 2, 3, 0.5, -1, 2.0, -0.5, 1.5, -2]) if isf else g.pick([0, 1, 2, 3, 2.0, 0.5])
        return [base, ex], {}
    ex = g.tensor(g.shape(), dt, "small" if isf else "shift")
    base = g.pick([2, 2.0, 0.5, 3, 10, 1, 0, -2, -1.5]) if isf else g.pick([2, 3, 1, 0, -2, 2.0])
    return [base, ex], {}


def g_shift(g, p):
    form = p.get("form", "TT")
    dt = g.dt(["int64", "int32", "int64", "int32", "uint8"])
    if form == "TT":
        sa = g.shape()
        sb = g.pick([sa, g.bshape(sa), []])
        return [g.tensor(sa, dt, "edge"), g.tensor(sb, dt, "shift")], {}
    if form == "TS":
        return [g.tensor(g.shape(), dt, "edge"), g.pick([0, 1, 2, 3, 7])], {}
    return [g.pick([1, 2, 3, 100]), g.tensor(g.shape(), dt, "shift")], {}


def g_isclose(g, p):
    dt = g.dt("F32I")
    a, b = _binary_operands(g, {"mixed": 0}, dt, "small", "small")
    args = [a, b]
    if g.chance(60):
        args += [g.pick([1e-05, 0.0, 0.5]), g.pick([1e-08, 0.0, 1.0]), g.b()]
    return args, {}


def _reduce_dtype_kw(g, dt, kwargs, p):
    if p.get("dtype_kw") and g.chance(40):
        if dt.startswith("float"):
            kwargs["dtype"] = g.pick([None, T().DT["float32"], T().DT["float64"]])
        elif dt == "bool":
            kwargs["dtype"] = g.pick([None, T().DT["int64"], T().DT["float32"], T().DT["int32"]])
        else:
            kwargs["dtype"] = g.pick([None, T().DT["int64"], T().DT["float32"], T().DT["float64"], T().DT["int32"]])


def g_reduce_full(g, p):
    dt = g.dt(p.get("dt", "FI"))
    x = g.tensor(g.shape(dims=p.get("dims", DIMS)), dt, p.get("pool", "smooth"))
    kwargs = {}
    _reduce_dtype_kw(g, dt, kwargs, p)
    return [x], kwargs


def g_reduce_dimlist(g, p):
    """(self, dim: int[]?, keepdim=False, *, dtype=None); `none_ok`: dim may be None; `empty_ok`: dim may be []."""
    dt = g.dt(p.get("dt", "FI"))
    s = g.shape(dims=p.get("dims", DIMS))
    x = g.tensor(s, dt, p.get("pool", "smooth"))
    r = g.i(0, 9)
    if r == 0 and p.get("none_ok"):
        dim = None
        g.tag("dim_none")
    elif r == 1 and p.get("empty_ok", True):
        dim = []
        g.tag("dim_empty")
    else:
        dim = g.dims(len(s), min_n=1)
    args = [x, dim, g.b()]
    kwargs = {}
    _reduce_dtype_kw(g, dt, kwargs, p)
    return args, kwargs


def g_reduce_dim(g, p):
    """(self, dim: int, keepdim=False, *, dtype=None)"""
    dt = g.dt(p.get("dt", "FI"))
    s = g.shape(dims=p.get("dims", DIMS))
    x = g.tensor(s, dt, p.get("pool", "smooth"))
    args = [x, g.dim(len(s))]
    if not p.get("no_keepdim"):
        args.append(g.b())
    kwargs = {}
    _reduce_dtype_kw(g, dt, kwargs, p)
    return args, kwargs


def g_argreduce(g, p):
    dt = g.dt(p.get("dt", "FI"))
    s = g.shape(dims=p.get("dims", DIMS))
    x = g.tensor(s, dt, "edge")
    dim = None if g.chance(30) else g.dim(len(s))
    if dim is None:
        g.tag("dim_none")
    return [x, dim, g.b()], {}


def g_vector_norm(g, p):
    dt = g.dt("F32")
    s = g.shape()
    x = g.tensor(s, dt, "smooth")
    ord_ = g.pick([2, 2.0, 1, 1.0, 0, float("inf"), float("-inf"), 3, 0.5, -1])
    dim = g.pick([None, [], "dims"])
    if dim == "dims":
        dim = g.dims(len(s), min_n=1)
    return [x, ord_, dim, g.b()], {}


def g_softmax(g, p):
    dt = g.dt("F")
    s = g.shape()
    x = g.tensor(s, dt, "smooth")
    dim = g.dim(len(s))
    form = p["form"]
    if form == "half_to_float":
        return [x, dim, False], {}
    dty = g.pick([None, None, T().DT["float32"], T().DT["float64"]])
    if form == "pos":
        return [x, dim, dty], {}
    return [x, dim], {"dtype": dty}


def _affine(g, shape, dt, pool="smooth"):
    return g.tensor(shape, dt, pool) if g.chance(70) else None


def g_layer_norm(g, p):
    dt = g.dt("F32")
    s = g.shape(min_rank=1, dims=DIMS_NZ if g.chance(80) else DIMS)
    k = g.i(1, len(s))
    ns = s[len(s) - k:]
    x = g.tensor(s, dt, "smooth")
    w, b = _affine(g, ns, dt), _affine(g, ns, dt)
    eps = g.pick([1e-05, 1e-05, 0.001, 0.1])
    g.tol_scale = 1.0 / math.sqrt(eps)
    if p.get("native"):
        return [x, ns, w, b, eps], {}
    args = [x, ns, w, b, eps]
    if g.b():
        args.append(g.b())
    return args, {}


def g_group_norm(g, p):
    dt = g.dt("F32")
    groups = g.pick([1, 2, 3])
    c = groups * g.pick([1, 2])
    n = g.pick([1, 2, 0] if g.chance(15) else [1, 2])
    spatial = [g.pick(DIMS_NZ) for _ in range(g.i(0, 2))]
    x = g.tensor([n, c] + spatial, dt, "smooth")
    w, b = _affine(g, [c], dt), _affine(g, [c], dt)
    eps = g.pick([1e-05, 0.001, 0.1])
    g.tol_scale = 1.0 / math.sqrt(eps)
    if p.get("native"):
        hxw = int(np.prod(spatial)) if spatial else 1
        return [x, w, b, n, c, hxw, groups, eps], {}
    args = [x, groups, w, b, eps]
    if g.b():
        args.append(g.b())
    return args, {}


def g_batch_norm(g, p):
    dt = g.dt("F32")
    c = g.pick([1, 2, 3])
    n = g.pick([1, 2, 3])
    spatial = [g.pick(DIMS_NZ) for _ in range(g.i(0, 2))]
    x = g.tensor([n, c] + spatial, dt, "smooth")
    w, b = _affine(g, [c], dt), _affine(g, [c], dt)
    rm = g.tensor([c], dt, "smooth")
    rv = g.tensor([c], dt, "pos")
    mom = g.pick([0.1, 0.0, 0.5])
    eps = g.pick([1e-05, 0.001, 0.1])
    g.tol_scale = 1.0 / math.sqrt(eps)
    form = p["form"]
    if form == "no_training":
        return [x, w, b, rm, rv, mom, eps], {}
    if form == "native":
        return [x, w, b, rm, rv, False, mom, eps], {}
    raise AssertionError(form)


def _mm_dt(g):
    return g.dt(["float32", "float32", "float64", "int64", "int32"])


def g_matmul(g, p):
    form = p["form"]
    dt = _mm_dt(g)
    d = lambda: g.pick(DIMS)  # noqa: E731
    pool = "smooth"
    if form == "mm":
        m, k, n = d(), d(), d()
        return [g.tensor([m, k], dt, pool), g.tensor([k, n], dt, pool)], {}
    if form == "bmm":
        b, m, k, n = d(), d(), d(), d()
        return [g.tensor([b, m, k], dt, pool), g.tensor([b, k, n], dt, pool)], {}
    if form == "mv":
        m, k = d(), d()
        return [g.tensor([m, k], dt, pool), g.tensor([k], dt, pool)], {}
    if form == "dot":
        k = d()
        return [g.tensor([k], dt, pool), g.tensor([k], dt, pool)], {}
    if form == "matmul":
        k = d()
        ra, rb = g.i(1, 4), g.i(1, 4)
        batch = [g.pick(DIMS_NZ) for _ in range(2)]
        sa = ([] if ra == 1 else batch[4 - ra:] + [d()]) + [k]
        sb = ([k] if rb == 1 else batch[4 - rb:] + [k, d()])
        if ra > 2 and rb > 2 and g.chance(40):
            sa[0] = 1
            g.tag("broadcast")
        if ra != rb:
            g.tag("broadcast")
        return [g.tensor(sa, dt, pool), g.tensor(sb, dt, pool)], {}
    if form == "linear":
        k, n = d(), d()
        lead = [g.pick(DIMS) for _ in range(g.i(0, 3))]
        x = g.tensor(lead + [k], dt, pool)
        w = g.tensor([n, k], dt, pool)
        bias = g.pick([None, "full", "full"])
        if bias == "full":
            bias = g.tensor([n], dt, pool)
        return [x, w, bias], {}
    # addmm / baddbmm / addmv / addbmm / addr: self broadcastable to the product + beta/alpha keywords
    kwargs = {}
    isf = dt.startswith("float")
    for name in ("beta", "alpha"):
        if g.chance(50):
            kwargs[name] = g.pick([0, 1, 2, -1, 0.5, 2.5]) if isf else g.pick([0, 1, 2, -1])
    if form == "addmm":
        m, k, n = d(), d(), d()
        out, a, b = [m, n], [m, k], [k, n]
    elif form == "baddbmm":
        bb, m, k, n = d(), d(), d(), d()
        out, a, b = [bb, m, n], [bb, m, k], [bb, k, n]
    elif form == "addbmm":
        bb, m, k, n = d(), d(), d(), d()
        out, a, b = [m, n], [bb, m, k], [bb, k, n]
    elif form == "addmv":
        m, k = d(), d()
        out, a, b = [m], [m, k], [k]
    else:  # addr
        m, n = d(), d()
        out, a, b = [m, n], [m], [n]
    so = g.pick([out, out, g.bshape(out)])
    if 0 in out or 0 in a or 0 in b:
        so = out  # torch's own result shape for a broadcast `self` with an empty product is inconsistent (addmv returns self's shape)
    if list(so) != list(out):
        g.tag("broadcast")
    return [g.tensor(so, dt, pool), g.tensor(a, dt, pool), g.tensor(b, dt, pool)], kwargs


def _factor_shape(g, n, allow_minus1=True):
    """A shape with `n` elements (n>=0), optionally with one -1."""
    if n == 0:
        s = g.pick([[0], [0, 2], [3, 0], [1, 0, 2], [0, 0]])
        return list(s)
    fs = []
    m = n
    for q in (2, 3, 5, 2, 2):
        if m % q == 0 and g.b():
            fs.append(q)
            m //= q
    fs.append(m)
    if g.b():
        fs.insert(g.i(0, len(fs)), 1)
    fs = g.perm(fs)
    if m == n and n == 1 and g.chance(30):
        fs = []
    if allow_minus1 and fs and g.chance(35):
        fs[g.i(0, len(fs) - 1)] = -1
        g.tag("minus1")
    return fs


def g_view(g, p):
    form = p["form"]
    dt = g.dt(p.get("dt", "FIUB"))
    if form in ("view", "reshape"):
        s = g.shape()
        x = g.tensor(s, dt)
        n = int(np.prod(s)) if s else 1
        tgt = _factor_shape(g, n, allow_minus1=not p.get("no_minus1"))
        if n == 0 and -1 in tgt:
            tgt = [0 if v == -1 else v for v in tgt]
        return [x, tgt], {}
    if form == "expand":
        s = g.shape(max_rank=3)
        x = g.tensor([1 if g.chance(40) else d for d in s], dt)
        extra = [g.pick(DIMS) for _ in range(g.i(0, 2))]
        tgt = extra + [(-1 if (g.chance(30) and not p.get("no_minus1")) else d) for d in s]
        xs = list(x.shape)
        tgt = [(xs[i - len(extra)] if (v == -1 and False) else v) for i, v in enumerate(tgt)]
        if -1 in tgt:
            g.tag("minus1")
        g.tag("broadcast")
        args = [x, tgt]
        kwargs = {}
        if p.get("implicit") and g.chance(30):
            kwargs["implicit"] = g.b()
        return args, kwargs
    if form == "permute":
        s = g.shape()
        x = g.tensor(s, dt)
        return [x, g.dims(len(s), min_n=len(s)) if s else []], {}
    if form == "transpose":
        s = g.shape()
        x = g.tensor(s, dt)
        return [x, g.dim(len(s)), g.dim(len(s))], {}
    if form == "t":
        s = g.shape(max_rank=2)
        return [g.tensor(s, dt)], {}
    if form == "mT":
        s = g.shape(min_rank=2)
        return [g.tensor(s, dt)], {}
    if form == "squeeze":
        s = g.shape()
        s = [1 if g.chance(40) else d for d in s]
        return [g.tensor(s, dt)], {}
    if form == "squeeze_dim":
        s = g.shape()
        s = [1 if g.chance(40) else d for d in s]
        return [g.tensor(s, dt), g.dim(len(s))], {}
    if form == "squeeze_dims":  # prims::squeeze(a, dimensions)
        s = g.shape(min_rank=1)
        s = [1 if g.chance(60) else d for d in s]
        ones = [i for i, d in enumerate(s) if d == 1]
        k = g.i(0, len(ones))
        return [g.tensor(s, dt), ones[:k]], {}
    if form == "unsqueeze":
        s = g.shape(max_rank=3)
        return [g.tensor(s, dt), g.i(-(len(s) + 1), len(s))], {}
    if form == "flatten":
        s = g.shape()
        n = max(len(s), 1)
        a, b = sorted([g.i(0, n - 1), g.i(0, n - 1)])
        a = a - n if g.b() else a
        b = b - n if g.b() else b
        args = [g.tensor(s, dt), a, b]
        return args, {}
    if form == "unflatten":
        s = g.shape(min_rank=1)
        d = g.i(0, len(s) - 1)
        sizes = _factor_shape(g, s[d]) if s[d] > 0 else [0, g.pick([1, 2])]
        if not sizes:
            sizes = [1]
        return [g.tensor(s, dt), d - len(s) if g.b() else d, sizes], {}
    if form == "as":  # expand_as / view_as
        if p["as"] == "expand":
            s = g.shape(max_rank=3)
            x = g.tensor([1 if g.chance(40) else d for d in s], dt)
            other = g.tensor([g.pick(DIMS) for _ in range(g.i(0, 1))] + s, g.dt("FI"))
            g.tag("broadcast")
            return [x, other], {}
        s = g.shape()
        n = int(np.prod(s)) if s else 1
        tgt = _factor_shape(g, n, allow_minus1=False)
        return [g.tensor(s, dt), g.tensor(tgt, g.dt("FI"))], {}
    if form == "identity":
        x = g.tensor(g.shape(), dt)
        kwargs = {}
        if p.get("memory_format") and g.chance(40):
            kwargs["memory_format"] = g.pick([None, T().torch.contiguous_format, T().torch.preserve_format])
            if kwargs["memory_format"] is None and p["memory_format"] == "required":
                kwargs["memory_format"] = T().torch.contiguous_format
        return [x], kwargs
    if form == "atleast":
        return [g.tensor(g.shape(max_rank=4), dt)], {}
    if form == "prims_transpose":
        s = g.shape()
        return [g.tensor(s, dt), g.perm(range(len(s)))], {}
    if form == "broadcast_in_dim":
        s = g.shape(max_rank=3)
        extra_pos = sorted(g.i(0, len(s) + 1) for _ in range(g.i(0, 2)))
        tgt = list(s)
        for pos in extra_pos:
            tgt.insert(min(pos, len(tgt)), g.pick(DIMS))
        # choose broadcast_dimensions = increasing positions of the original dims inside tgt
        bd, j = [], 0
        rem = list(s)
        for idx, v in enumerate(tgt):
            if j < len(rem) and v == rem[j] and (len(tgt) - idx) >= (len(rem) - j) and (g.b() or (len(tgt) - idx) == (len(rem) - j)):
                bd.append(idx)
                j += 1
        if j != len(rem):
            tgt, bd = list(s), list(range(len(s)))
        x = g.tensor([1 if g.chance(30) else d for d in s], dt)
        g.tag("broadcast")
        return [x, tgt, bd], {}
    if form == "diagonal":
        s = g.shape(min_rank=2)
        d1, d2 = g.dims(len(s), min_n=2, max_n=2)
        args = [g.tensor(s, dt), g.pick([0, 0, 1, -1, 2, -2, 5])]
        if g.chance(70):
            args += [d1, d2]
        return args, {}
    if form == "unfold":
        s = g.shape(min_rank=0)
        d = g.dim(len(s))
        n = s[d] if s else 1
        size = g.i(0, max(n, 1)) if n else 0
        return [g.tensor(s, dt), d, size, g.pick([1, 2, 3])], {}
    raise AssertionError(form)


def g_cat(g, p):
    dt = g.dt("FIUB")
    s = g.shape(min_rank=0 if p["form"] == "stack" else 1)
    n = g.i(1, 3)
    if p["form"] == "stack":
        ts = [g.tensor(s, dt) for _ in range(n)]
        dim = g.i(-(len(s) + 1), len(s))
    else:
        d = g.i(0, len(s) - 1)
        ts = []
        for _ in range(n):
            si = list(s)
            si[d] = g.pick(DIMS)
            ts.append(g.tensor(si, dt))
        dim = d - len(s) if g.b() else d
    if g.chance(12) and n > 1:
        ts[1] = ts[1].to(T().DT[g.dt("FI")])
        if ts[1].dtype != ts[0].dtype:
            g.tag("mixed_dtype")
    args = [ts, dim]
    return args, {}


def g_split(g, p):
    form = p["form"]
    dt = g.dt("FIB")
    s = g.shape(min_rank=1, dims=DIMS if form in ("sizes", "unbind") else DIMS)
    d = g.i(0, len(s) - 1)
    dim = d - len(s) if g.b() else d
    x = g.tensor(s, dt)
    n = s[d]
    if form == "size":  # split.Tensor / unsafe_split.Tensor (self, split_size, dim)
        return [x, g.pick([1, 2, 3, 5, 7] + ([0] if n == 0 else [])), dim], {}
    if form == "sizes":  # split / split_with_sizes (self, sizes, dim)
        sizes, left = [], n
        while left > 0 and len(sizes) < 3:
            k = g.i(0, left)
            sizes.append(k)
            left -= k
        if left or not sizes:
            sizes.append(left)
        return [x, sizes, dim], {}
    if form == "chunk":
        return [x, g.pick([1, 2, 3, 4, 7]), dim], {}
    if form == "unbind":
        return [x, dim], {}
    raise AssertionError(form)


def g_slice(g, p):
    form = p["form"]
    dt = g.dt("FIB")
    s = g.shape(min_rank=1)
    d = g.i(0, len(s) - 1)
    if form in ("select", "select_scatter") and s[d] == 0:
        s[d] = g.pick(DIMS_NZ)
    dim = d - len(s) if g.b() else d
    n = s[d]
    x = g.tensor(s, dt)
    BIG = 9223372036854775807
    if form == "slice":
        start = g.pick([None, 0, 1, 2, -1, -2, n, n + 2, -n - 1, -n, 100])
        end = g.pick([None, 0, 1, 3, -1, -2, n, n + 2, BIG, -n - 1, 100])
        step = g.pick([1, 1, 2, 3, 7])
        return [x, dim, start, end, step], {}
    if form == "select":
        if n == 0:
            idx = 0
        else:
            idx = g.i(-n, n - 1)
        return [x, dim, idx], {}
    if form == "narrow":
        start = g.i(-n, n) if n else 0
        st0 = start + n if start < 0 else start
        length = g.i(0, max(0, n - st0))
        return [x, dim, start, length], {}
    if form == "slice_scatter":
        start = g.pick([None, 0, 1, -1, -2, n])
        end = g.pick([None, 1, 3, -1, n, BIG])
        step = g.pick([1, 1, 2, 3])
        ref = T().torch.ops.aten.slice.Tensor(x, d, start, end, step)
        src = g.tensor(list(ref.shape), dt, "small")
        return [x, src, dim, start, end, step], {}
    if form == "select_scatter":
        if n == 0:
            idx = 0
        else:
            idx = g.i(-n, n - 1)
        ss = list(s)
        del ss[d]
        return [x, g.tensor(ss, dt, "small"), dim, idx], {}
    raise AssertionError(form)


def _index_tensor(g, shape, n, allow_neg=False):
    t = T()
    rng = np.random.default_rng(g.i(0, 2**31 - 1))
    cnt = int(np.prod(shape)) if shape else 1
    if n <= 0:
        arr = np.zeros(cnt, dtype=np.int64)
    else:
        arr = rng.integers(-n if allow_neg else 0, n, size=cnt)
    return t.torch.from_numpy(arr.reshape(shape).astype(np.int64))


def g_index(g, p):
    form = p["form"]
    dt = g.dt(p.get("dt", "FI"))
    if form == "index_select":
        s = g.shape()
        d = g.dim(len(s))
        n = s[d] if s else 1
        k = g.pick([0, 1, 2, 4]) if n else 0
        idx = _index_tensor(g, g.pick([[k], [k], []]) if n else [0], n)
        if g.chance(25):
            idx = idx.to(T().torch.int32)
        return [g.tensor(s, dt), d, idx], {}
    if form in ("gather", "scatter_src", "scatter_value", "scatter_add", "scatter_reduce"):
        s = g.shape()
        d = g.dim(len(s))
        dd = d % max(len(s), 1)
        x = g.tensor(s, dt, "smooth")
        n = s[dd] if s else 1
        si = [g.i(0, v) if (i != dd or form == "gather") else g.i(0, min(v, 3)) for i, v in enumerate(s)] if g.chance(60) else list(s)
        if s and form == "gather":
            si[dd] = g.pick(DIMS)
        if n == 0 and s:
            si[dd] = 0 if form != "gather" else si[dd]
            if form == "gather":
                si = [0 if i == dd else v for i, v in enumerate(si)]
        if form == "gather":
            idx = _index_tensor(g, si, n)
            kwargs = {"sparse_grad": False} if g.chance(20) else {}
            return [x, d, idx], kwargs
        # scatter: unique indices along dim so the result does not depend on write order
        rng = np.random.default_rng(g.i(0, 2**31 - 1))
        if s:
            si[dd] = min(si[dd], n)
            idx = np.zeros(si, dtype=np.int64)
            other = [v for i, v in enumerate(si) if i != dd]
            for pos in np.ndindex(*other):
                perm = rng.permutation(n)[: si[dd]] if form != "scatter_add" and form != "scatter_reduce" else rng.integers(0, max(n, 1), size=si[dd])
                sl = list(pos)
                sl.insert(dd, slice(None))
                idx[tuple(sl)] = perm
            idx = T().torch.from_numpy(idx)
        else:
            idx = T().torch.zeros([], dtype=T().torch.int64)
        if form == "scatter_value":
            return [x, d, idx, g.scalar(dt)], {}
        src_shape = [v + g.pick([0, 0, 1]) for v in idx.shape] if s else []
        src = g.tensor(src_shape, dt, "smooth")
        if form == "scatter_reduce":
            return [x, d, idx, src, g.pick(["sum", "prod", "amax", "amin", "mean"])], {"include_self": g.b()} if g.b() else {}
        return [x, d, idx, src], {}
    if form == "where":
        wf = p["wform"]
        dtb = dt
        s = g.shape()
        cond = g.tensor(g.pick([s, g.bshape(s)]), "bool")
        if wf == "TT":
            sa, sb = g.pick([s, g.bshape(s)]), g.pick([s, g.bshape(s)])
            if p.get("same_shape"):
                sa = sb = s
                cond = g.tensor(s, "bool")
            dtb2 = dt if (p.get("same_shape") or g.chance(90)) else g.dt("FI")
            if not (list(sa) == list(sb) == list(cond.shape)):
                g.tag("broadcast")
            return [cond, g.tensor(sa, dt), g.tensor(sb, dtb2)], {}
        if wf == "ST":
            return [cond, g.scalar(dt), g.tensor(s, dtb)], {}
        if wf == "TS":
            return [cond, g.tensor(s, dtb), g.scalar(dt)], {}
        return [cond, g.scalar(dt), g.scalar(dt)], {}
    if form == "masked_fill":
        s = g.shape()
        mask = g.tensor(g.pick([s, g.bshape(s)]), "bool")
        x = g.tensor(s, dt)
        if p["vform"] == "S":
            return [x, mask, g.scalar(dt, force=g.pick([None, None, "int", "float"]))], {}
        return [x, mask, g.tensor([], dt if g.chance(80) else g.dt("FI"))], {}
    if form == "tri":
        s = g.shape(min_rank=2)
        args = [g.tensor(s, g.dt("FIB"))]
        if g.chance(75):
            args.append(g.pick([0, 1, -1, 2, -2, 5, -5]))
        return args, {}
    if form == "flip":
        s = g.shape()
        return [g.tensor(s, dt), g.dims(len(s), min_n=0) if s else g.pick([[], [0], [-1]])], {}
    if form == "roll":
        s = g.shape()
        mode = g.pick(["flat", "dims", "dims"])
        if mode == "flat" or not s:
            return [g.tensor(s, dt), [g.pick([0, 1, -1, 2, 7, -7])]] + ([[]] if g.b() else []), {}
        dims = g.dims(len(s), min_n=1)
        shifts = [g.pick([0, 1, -1, 2, 7, -7]) for _ in dims]
        return [g.tensor(s, dt), shifts, dims], {}
    if form == "repeat":
        s = g.shape(max_rank=3)
        extra = g.i(0, 2)
        reps = [g.pick([0, 1, 1, 2, 3]) for _ in range(len(s) + extra)]
        return [g.tensor(s, dt), reps], {}
    if form == "tile":
        s = g.shape(max_rank=3)
        reps = [g.pick([0, 1, 1, 2, 3]) for _ in range(g.i(0, len(s) + 1))]
        return [g.tensor(s, dt), reps], {}
    if form == "repeat_interleave":
        s = g.shape(max_rank=3)
        dim = g.pick([None, "d"])
        if dim == "d":
            dim = g.dim(len(s))
        args = [g.tensor(s, dt), g.pick([0, 1, 2, 3])]
        if dim is not None or g.b():
            args.append(dim)
        return args, {}
    if form == "cumsum":
        s = g.shape()
        x = g.tensor(s, g.dt("FIB"), "smooth")
        kwargs = {}
        _reduce_dtype_kw(g, T().DTN[x.dtype], kwargs, {"dtype_kw": True})
        return [x, g.dim(len(s))], kwargs
    if form == "sort":
        s = g.shape()
        # distinct values so that indices are unique
        x = _distinct(g, s, dt)
        args = [x]
        if g.chance(80):
            args.append(g.dim(len(s)))
            if g.b():
                args.append(g.b())
        return args, {}
    if form == "topk":
        s = g.shape(dims=DIMS_NZ)
        x = _distinct(g, s, dt)
        d = g.dim(len(s))
        n = s[d] if s else 1
        args = [x, g.i(0, n), d]
        if g.b():
            args += [g.b(), True]
        return args, {}
    if form == "embedding":
        v, e = g.pick(DIMS_NZ), g.pick(DIMS)
        w = g.tensor([v, e], g.dt("F32"), "smooth")
        idx = _index_tensor(g, g.shape(max_rank=3), v)
        if g.chance(25):
            idx = idx.to(T().torch.int32)
        args = [w, idx]
        if g.chance(40):
            args.append(g.pick([-1, 0, 1]))
            if g.b():
                args += [g.b(), False]
        return args, {}
    if form == "index":
        s = g.shape(min_rank=1, dims=DIMS_NZ)
        x = g.tensor(s, dt)
        k = g.i(1, len(s))
        ishape = g.shape(max_rank=2)
        idxs = []
        for j in range(k):
            if g.chance(25) and k > 1:
                idxs.append(None)
            else:
                idxs.append(_index_tensor(g, g.pick([ishape, g.bshape(ishape)]), s[j], allow_neg=g.chance(30)))
        if all(v is None for v in idxs):
            idxs[0] = _index_tensor(g, ishape, s[0])
        if g.chance(15):  # boolean mask index on the first dim
            idxs = [g.tensor([s[0]], "bool")]
            g.tag("bool_index")
        return [x, idxs], {}
    if form == "nonzero":
        return [g.tensor(g.shape(), g.dt("FIB"), "small")], {}
    raise AssertionError(form)


def _distinct(g, s, dt):
    t = T()
    n = int(np.prod(s)) if s else 1
    rng = np.random.default_rng(g.i(0, 2**31 - 1))
    vals = rng.permutation(n).astype(np.float64) - n // 2
    if dt.startswith("float") and dt != "float16":
        vals = vals * 0.5
    return t.torch.from_numpy(vals.reshape(s)).to(t.DT[dt])


def _factory_kwargs(g, dts, required_dtype=False):
    t = T()
    kwargs = {}
    if required_dtype or g.chance(60):
        kwargs["dtype"] = g.pick([None] + [t.DT[d] for d in dts]) if not required_dtype else t.DT[g.pick(dts)]
    if g.chance(25):
        kwargs["device"] = t.torch.device("cpu")
    if g.chance(15):
        kwargs["layout"] = t.torch.strided
    if g.chance(15):
        kwargs["pin_memory"] = False
    return kwargs


ALL_DT = ["float32", "float64", "float16", "int64", "int32", "uint8", "bool"]


def g_creation(g, p):
    form = p["form"]
    t = T()
    if form == "like":  # zeros_like / ones_like / empty_like (self, *, dtype, layout, device, pin_memory, memory_format)
        x = g.tensor(g.shape(), g.dt("FIUB"))
        kwargs = _factory_kwargs(g, ALL_DT)
        if g.chance(15):
            kwargs["memory_format"] = t.torch.preserve_format
        return [x], kwargs
    if form == "full_like":
        dt = g.dt("FIUB")
        x = g.tensor(g.shape(), dt)
        kwargs = _factory_kwargs(g, ALL_DT)
        fill = g.scalar(T().DTN[kwargs["dtype"]] if kwargs.get("dtype") is not None else dt, "small")
        return [x, fill], kwargs
    if form == "size":  # zeros / ones / empty.memory_format (size, *, dtype, ...)
        return [g.shape()], _factory_kwargs(g, ALL_DT)
    if form == "full":
        kwargs = _factory_kwargs(g, ALL_DT)
        fill = g.scalar(T().DTN[kwargs["dtype"]] if kwargs.get("dtype") is not None else g.pick(["float32", "int64", "bool"]), "small")
        return [g.shape(), fill], kwargs
    if form == "new":  # new_zeros / new_ones / new_empty (self, size, *, dtype...)
        x = g.tensor(g.shape(max_rank=2), g.dt("FIUB"))
        return [x, g.shape()], _factory_kwargs(g, ALL_DT)
    if form == "new_full":
        dt = g.dt("FIUB")
        x = g.tensor(g.shape(max_rank=2), dt)
        kwargs = _factory_kwargs(g, ALL_DT)
        fill = g.scalar(T().DTN[kwargs["dtype"]] if kwargs.get("dtype") is not None else dt, "small")
        return [x, g.shape(), fill], kwargs
    if form == "arange":
        n = p["n"]
        kind = g.pick(["int", "int", "float"])
        num = (lambda: g.pick([0, 1, 2, 3, 5, 7, -2, -5, 10])) if kind == "int" else (lambda: g.pick([0.0, 1.0, 2.5, 5.0, -2.0, 0.5, 7.0, 4.75]))
        if n == 1:
            args = [num()]
        elif n == 2:
            args = [num(), num()]
        else:
            step = g.pick([1, 2, 3, -1, -2]) if kind == "int" else g.pick([1.0, 0.5, 2.0, -1.0, -0.5, 0.25])
            args = [num(), num()] + ([step] if g.chance(85) else [])
        kwargs = _factory_kwargs(g, ["float32", "float64", "int64", "int32", "float16"] if kind == "int" else ["float32", "float64"])
        return args, kwargs
    if form == "scalar_tensor":
        kwargs = _factory_kwargs(g, ALL_DT)
        kind = g.pick(["int", "float", "bool"])
        s = g.b() if kind == "bool" else (g.pick([0, 1, -1, 2, 7]) if kind == "int" else g.pick([0.0, 1.0, -1.5, 2.5]))
        return [s], kwargs
    if form == "fill":
        dt = g.dt("FIB")
        x = g.tensor(g.shape(), dt)
        if p["vform"] == "S":
            return [x, g.scalar(dt)], {}
        return [x, g.tensor([], dt, "small")], {}
    if form == "linspace":
        kwargs = _factory_kwargs(g, ["float32", "float64", "int64", "int32"])
        a, b = g.pick([0, 1, -1, 0.0, 2.5, -3.0, 10]), g.pick([0, 1, 5, 10, -4.0, 2.5])
        return [a, b, g.pick([0, 1, 2, 3, 5, 8])], kwargs
    raise AssertionError(form)


def g_clamp(g, p):
    form = p["form"]
    dt = g.dt(p.get("dt", "FI"))
    s = g.shape()
    x = g.tensor(s, dt)
    if form == "scalar":  # clamp(self, min?, max?)
        lo = g.pick([None, "v", "v"])
        hi = g.pick([None, "v", "v"]) if lo else "v"
        lo = g.scalar(dt, force=g.pick([None, None, "int", "float"])) if lo else None
        hi = g.scalar(dt, force=g.pick([None, None, "int", "float"])) if hi else None
        args = [x, lo]
        if hi is not None or g.b():
            args.append(hi)
        return args, {}
    if form == "tensor":
        mk = lambda: g.tensor(g.pick([s, g.bshape(s), []]), dt if g.chance(85) else g.dt("FI"), "small")  # noqa: E731
        lo = mk() if g.chance(70) else None
        hi = mk() if (lo is None or g.chance(70)) else None
        args = [x, lo]
        if hi is not None or g.b():
            args.append(hi)
        return args, {}
    if form == "one_scalar":
        return [x, g.scalar(dt, force=g.pick([None, None, "int", "float"]))], {}
    if form == "one_tensor":
        return [x, g.tensor(g.pick([s, g.bshape(s), []]), dt if g.chance(85) else g.dt("FI"), "small")], {}
    raise AssertionError(form)


def g_cast(g, p):
    form = p["form"]
    t = T()
    src = g.dt("FIUB")
    tgt = g.pick(ALL_DT)
    pool = "edge"
    if src.startswith("float") and not tgt.startswith("float"):
        # float -> integer conversions are only defined for values inside the target range (C UB otherwise)
        pool = "pos" if tgt in ("uint8", "bool") else "small"
        g.tag("float_to_int")
    x = g.tensor(g.shape(), src, pool)
    if form == "to_copy":
        kwargs = {"dtype": g.pick([None, t.DT[tgt], t.DT[tgt]])}
        if kwargs["dtype"] is None and g.b():
            kwargs = {}
        if g.chance(20):
            kwargs["non_blocking"] = g.b()
        if g.chance(15):
            kwargs["memory_format"] = t.torch.preserve_format
        if g.chance(15):
            kwargs["device"] = t.torch.device("cpu")
        return [x], kwargs
    if form == "type_as":
        return [x, g.tensor(g.shape(max_rank=1), tgt)], {}
    if form == "convert":
        return [x, t.DT[tgt]], {}
    raise AssertionError(form)


def g_pad(g, p):
    form = p["form"]
    dt = g.dt("F32I" if form == "constant" else "F32")
    if form in ("constant", "pad"):
        s = g.shape(min_rank=1, dims=DIMS_NZ if g.chance(80) else DIMS)
        k = g.i(1, len(s))
        pads = [g.pick([0, 0, 1, 2, 3, -1]) for _ in range(2 * k)]
        for j in range(k):  # keep every padded dim >= 0
            d = s[len(s) - 1 - j]
            if d + pads[2 * j] + pads[2 * j + 1] < 0:
                pads[2 * j] = pads[2 * j + 1] = 0
        if any(v < 0 for v in pads):
            g.tag("negative_pad")
        x = g.tensor(s, dt)
        if form == "constant":
            args = [x, pads]
            if g.chance(60):
                args.append(g.scalar(dt))
            return args, {}
        mode = g.pick(["constant", "constant", "reflect", "replicate", "circular"])
        if mode != "constant":
            nd = g.pick([1, 2])
            s = [g.pick([1, 2]) for _ in range(g.pick([1, 2]))] + [g.pick([2, 3, 4, 5]) for _ in range(nd)]
            x = g.tensor(s, dt)
            pads = [g.pick([0, 1, 1]) for _ in range(2 * nd)]
            return [x, pads, mode], {}
        args = [x, pads, mode]
        if g.chance(60):
            args.append(g.pick([None, 0.0, 1.5, -2.0]))
        return args, {}
    nd = p["nd"]
    lead = [g.pick([1, 2, 3]) for _ in range(g.pick([1, 2]))]
    sp = [g.pick([2, 3, 4, 5]) for _ in range(nd)]
    x = g.tensor(lead + sp, dt)
    pads = []
    for j in range(nd):
        d = sp[nd - 1 - j]
        lim = d - 1 if form == "reflect" else 3
        pads += [g.i(0, min(lim, 3)), g.i(0, min(lim, 3))]
    return [x, pads], {}


def g_pool(g, p):
    form = p["form"]
    nd = p["nd"]
    dt = g.dt("F32")
    lead = [g.pick([1, 2, 3]) for _ in range(g.pick([1, 2]))]
    sp = [g.pick([3, 4, 5, 6, 7]) for _ in range(nd)]
    x = g.tensor(lead + sp, dt, "smooth")
    one_or_n = lambda vals: ([g.pick(vals)] * nd if g.b() else [g.pick(vals) for _ in range(nd)])  # noqa: E731
    k = one_or_n([1, 2, 3])
    if g.chance(25):
        k = k[:1] if len(set(k)) == 1 else k
    stride = g.pick([[], None, "v", "v"])
    if stride == "v":
        stride = one_or_n([1, 2, 3])
    elif stride is None:
        stride = list(k)
    pad = [min(v // 2, g.pick([0, 0, 1])) for v in (k if len(k) == nd else k * nd)]
    if form == "max":
        args = [x, k]
        if g.chance(85):
            args.append(stride)
            if g.chance(80):
                args.append(pad)
                if g.chance(60):
                    args.append(one_or_n([1, 1, 2]))
                    if g.chance(60):
                        args.append(g.b())
        return args, {}
    args = [x, k]
    if g.chance(85):
        args.append(stride)
        if g.chance(80):
            args.append(pad)
            if g.chance(70):
                args.append(g.b())
                if g.chance(70):
                    args.append(g.b())
                    if nd > 1 and g.chance(40):
                        args.append(g.pick([None, 1, 2, 3]))
    return args, {}


def g_conv(g, p):
    nd = p["nd"]
    dt = g.dt("F32")
    groups = g.pick([1, 1, 2])
    cin = groups * g.pick([1, 2])
    cout = groups * g.pick([1, 2, 3])
    n = g.pick([1, 2])
    sp = [g.pick([3, 4, 5, 6]) for _ in range(nd)]
    ks = [g.pick([1, 2, 3]) for _ in range(nd)]
    batched = g.chance(85)
    x = g.tensor(([n] if batched else []) + [cin] + sp, dt, "smooth")
    w = g.tensor([cout, cin // groups] + ks, dt, "smooth")
    bias = g.tensor([cout], dt, "smooth") if g.chance(60) else None
    stride = [g.pick([1, 1, 2]) for _ in range(nd)]
    pad = [g.pick([0, 0, 1, 2]) for _ in range(nd)]
    dil = [g.pick([1, 1, 2]) for _ in range(nd)]
    if p["form"] == "convnd":
        args = [x, w, bias]
        if g.chance(85):
            args += [stride if g.b() or nd > 1 else stride[:1], pad, dil, groups]
        elif groups != 1:
            args += [stride, pad, dil, groups]
        return args, {}
    return [x, w, bias, stride, pad, dil, False, [0] * nd, groups], {}


def g_misc(g, p):
    """Overloads outside the original families (added in the coverage-extension round): ternary elementwise, activations with a weight,
    losses, pixel shuffles, einsum, determinants, up-sampling, index_put / masked_scatter, prims reductions, predicates, 3-d pools."""
    form = p["form"]
    t = T().torch
    if form in ("addcmul", "addcdiv"):
        dt = g.dt("F" if form == "addcdiv" else "FI")
        s = g.shape()
        mk = lambda pool: g.tensor(g.pick([s, s, g.bshape(s), []]), dt, pool)  # noqa: E731
        kwargs = {}
        if g.chance(70):
            kwargs["value"] = g.scalar(dt, force=g.pick([None, None, "int"]))
        return [g.tensor(s, dt, "small"), mk("small"), mk("nz" if form == "addcdiv" else "small")], kwargs
    if form in ("lerp_s", "lerp_t"):
        dt = g.dt("F")
        s = g.shape()
        end = g.tensor(g.pick([s, s, g.bshape(s)]), dt, "small")
        w = g.pick([0.0, 0.25, 0.5, 1.0, 1.5, -0.5, 1, 0]) if form == "lerp_s" else g.tensor(g.pick([s, g.bshape(s), []]), dt, "unit")
        return [g.tensor(s, dt, "small"), end, w], {}
    if form == "glu":
        dt = g.dt("F")
        s = g.shape(min_rank=1, dims=DIMS_NZ if g.chance(85) else DIMS)
        d = g.dim(len(s))
        s[d] = 2 * g.pick([0, 1, 1, 2, 3])
        args = [g.tensor(s, dt, "smooth")]
        if d not in (-1, len(s) - 1) or g.b():
            args.append(d)
        return args, {}
    if form == "prelu":
        dt = g.dt("F")
        s = g.shape(min_rank=0, dims=DIMS_NZ if g.chance(85) else DIMS)
        c = s[1] if len(s) >= 2 else 1
        if p.get("kernel"):  # _prelu_kernel: the weight as aten::prelu hands it over - reshaped to [1, C, 1, ...] (rank 0 / 1: one element)
            ws = [] if not s else [1] if len(s) == 1 else [1, g.pick([1, c])] + [1] * (len(s) - 2)
            return [g.tensor(s, dt, "small"), g.tensor(ws, dt, "small")], {}
        return [g.tensor(s, dt, "small"), g.tensor(g.pick([[1], [c]]) if len(s) >= 2 else g.pick([[1], []]), dt, "small")], {}
    if form == "cross":
        dt = g.dt("FI")
        s = g.shape(min_rank=1, dims=DIMS_NZ)
        d = g.dim(len(s))
        s[d] = 3
        other_shape = list(s)
        if g.chance(30):  # broadcast off the cross dim
            for k in range(len(s)):
                if k != d % len(s) and g.chance(50):
                    other_shape[k] = 1
        a, b = g.tensor(s, dt, "small"), g.tensor(other_shape, dt, "small")
        if p.get("linalg"):
            return [a, b], ({"dim": d} if (d not in (-1, len(s) - 1) or g.b()) else {})
        return [a, b] + ([d] if g.chance(75) else []), {}
    if form == "mse_loss":
        dt = g.dt("F")
        s = g.shape()
        args = [g.tensor(s, dt, "small"), g.tensor(s, dt, "small")]
        if g.chance(75):
            args.append(g.pick([0, 1, 2]))
        return args, {}
    if form in ("pixel_shuffle", "pixel_unshuffle"):
        dt = g.dt("FI")
        r = g.pick([1, 2, 2, 3])
        lead = [g.pick([1, 2, 3])] * g.pick([0, 1, 1, 2])  # no empty batch: ATen returns a clone of an empty input, shape unchanged
        c, h, w = g.pick([1, 2]), g.pick([1, 2, 3]), g.pick([1, 2, 3])
        s = lead + ([c * r * r, h, w] if form == "pixel_shuffle" else [c, h * r, w * r])
        return [g.tensor(s, dt, "small"), r], {}
    if form == "einsum":
        dt = g.dt("F")
        n = {"i": g.pick([1, 2, 3]), "j": g.pick([1, 2, 4]), "k": g.pick([1, 3, 0]), "b": g.pick([1, 2])}
        eq = g.pick(["ij,jk->ik", "ij,jk", "bij,bjk->bik", "ij->ji", "ii->i", "ii", "ij->", "ij,ij->", "i,i->", "i,j->ij", "bij->bi", "ij,kj->ik",
                     "...ij,...jk->...ik", "ij, jk -> ik", "i,i,i->i", "ij,ij->ij", "bij,bkj->bik", "ijk->kji"])
        lhs = eq.replace(" ", "").split("->")[0].split(",")
        ops = []
        for term in lhs:
            shp = ([n["b"]] if term.startswith("...") else []) + [n["i"] if (ch == "i" or term in ("ii",)) else n[ch] for ch in term.replace("...", "")]
            ops.append(g.tensor(shp, dt, "small"))
        return [eq, ops], {}
    if form == "instance_norm":
        dt = g.dt("F32")
        n, c = g.pick([1, 2]), g.pick([1, 2, 3])
        sp = [g.pick([2, 3, 4]) for _ in range(g.pick([1, 2, 2, 3]))]
        x = g.tensor([n, c] + sp, dt, "smooth")
        w = g.tensor([c], dt, "smooth") if g.chance(70) else None
        b = g.tensor([c], dt, "smooth") if g.chance(70) else None
        use_stats = g.chance(70)
        rm = g.tensor([c], dt, "smooth") if (not use_stats or g.chance(30)) else None
        rv = g.tensor([c], dt, "pos") if rm is not None else None
        g.tol_scale = 400.0
        return [x, w, b, rm, rv, use_stats, g.pick([0.1, 0.0, 0.5]), g.pick([1e-5, 1e-3, 0.5]), False], {}
    if form in ("nll_loss", "nll_loss_forward", "cross_entropy"):
        dt = g.dt("F32")
        c = g.pick([1, 2, 3, 5])
        n = g.pick([1, 2, 3, 0] if form != "cross_entropy" else [1, 2, 3])
        extra = [g.pick([1, 2, 3]) for _ in range(g.pick([0, 0, 0, 1, 2]))]
        batched = g.chance(80) or bool(extra)
        xs = ([n] if batched else []) + [c] + extra
        ts = ([n] if batched else []) + extra
        x = g.tensor(xs, dt, "small")
        tgt = make_tensor(ts, "int64", "small", g.i(0, 2**31 - 1))
        ignore = g.pick([-100, -100, 0, 1, c - 1])
        tgt = t.as_tensor(np.asarray(np.abs(to_numpy(tgt)) % c, dtype=np.int64)).reshape(ts)
        if g.chance(25) and tgt.numel():
            tgt = tgt.clone()
            tgt.view(-1)[0] = ignore if ignore >= 0 else -100
        w = g.tensor([c], dt, "pos") if g.chance(40) else None
        red = g.pick([0, 1, 2])
        if form == "nll_loss_forward":
            return [x, tgt, w, red, ignore], {}
        args = [x, tgt]
        if g.chance(80):
            args += [w, red, ignore]
            if form == "cross_entropy" and g.chance(50):
                args.append(g.pick([0.0, 0.1, 0.5]))
        return args, {}
    if form == "hardtanh_backward":
        dt = g.dt("F")
        s = g.shape()
        return [g.tensor(s, dt, "small"), g.tensor(s, dt, "small"), g.pick([-1.0, -1, 0.0, -2.5]), g.pick([1.0, 1, 0.5, 2.5])], {}
    if form == "index_put":
        dt = g.dt("FI")
        s = g.shape(min_rank=1, max_rank=3, dims=DIMS_NZ)
        k = g.i(1, len(s))
        bs = g.pick([[], [1], [2], [3], [2, 2]])
        idx = []
        for j in range(k):
            if g.chance(20) and k > 1 and j < k - 1:
                idx.append(None)
            else:
                idx.append(_index_tensor(g, bs if g.chance(80) else [], s[j], allow_neg=not p.get("unsafe")))
        while idx and idx[-1] is None:
            idx.pop()
        if not idx:
            idx = [_index_tensor(g, bs, s[0])]
        acc = g.chance(40)
        if not acc:  # without accumulate, duplicate targets are undefined: use distinct first-axis indices
            j0 = next(j for j, v in enumerate(idx) if v is not None)
            m = int(np.prod(bs)) if bs else 1
            if m <= s[j0]:
                perm = np.asarray(g.perm(range(s[j0]))[:m], dtype=np.int64).reshape(bs)
                idx = [None if v is None else (t.as_tensor(perm) if j == j0 else v) for j, v in enumerate(idx)]
            else:
                acc = True
        x = g.tensor(s, dt, "small")
        full = list(x[tuple(slice(None) if v is None else v for v in idx)].shape)
        vshape = g.pick([full, full, [], g.bshape(full)])
        values = g.tensor(vshape, dt, "small")
        args = [x, idx, values]
        if acc or g.b():
            args.append(acc)
        return args, {}
    if form == "masked_scatter":
        dt = g.dt("FI")
        s = g.shape(dims=DIMS_NZ if g.chance(80) else DIMS)
        ms = g.pick([s, s, g.bshape(s)])
        mask = g.tensor(ms, "bool")
        n = int(np.prod(s)) if s else 1
        src = g.tensor([n + g.pick([0, 0, 2])], dt, "small") if g.b() else g.tensor(s if n else [0], dt, "small")
        return [g.tensor(s, dt, "small"), mask, src], {}
    if form in ("prims_sum", "prims_var"):
        dt = g.dt("F" if form == "prims_var" else "FI")
        s = g.shape(min_rank=1, dims=DIMS_NZ if form == "prims_var" else DIMS)
        dims = sorted(d % len(s) for d in g.dims(len(s), min_n=1))
        if form == "prims_sum":
            return [g.tensor(s, dt, "small"), dims], {}
        return [g.tensor(s, dt, "small"), dims] + ([g.pick([1.0, 0.0, 1, 0, 0.5, 1.5, 0.25])] if g.chance(80) else []), {}
    if form == "det":
        dt = g.dt(["float32", "float64"])
        n = g.pick([1, 2, 3, 4])
        lead = [g.pick([1, 2, 3])] * g.pick([0, 0, 1])
        g.tol_scale = 50.0
        return [g.tensor(lead + [n, n], dt, "smooth")], {}
    if form == "upsample":
        nd, mode, vec = p["nd"], p["mode"], p.get("vec", False)
        dt = g.dt("F32")
        n, c = g.pick([1, 2]), g.pick([1, 2])
        sp = [g.pick([1, 2, 3, 4]) for _ in range(nd)]
        x = g.tensor([n, c] + sp, dt, "smooth")
        out = [g.pick([1, 2, 3, 5, 6, 8]) for _ in range(nd)]
        if g.chance(50):
            out = [d * g.pick([1, 2, 3]) for d in sp]
        ac = [] if mode == "nearest" else [g.b()]
        if vec:
            if g.b():
                return [x, out] + ac + [None], {}
            return [x, None] + ac + [[float(g.pick([1.0, 2.0, 1.5, 0.5, 3.0])) for _ in range(nd)]], {}
        args = [x, out] + ac
        if g.chance(30):
            args += [None] * nd if g.b() else [float(o) / float(d) for o, d in zip(out, sp)]
        return args, {}
    if form == "is_nonzero":
        dt = g.dt("FIUB")
        return [g.tensor(g.pick([[], [1], [1, 1]]), dt, "small")], {}
    if form in ("equal", "allclose"):
        dt = g.dt("FI" if form == "equal" else "F")
        s = g.shape()
        a = g.tensor(s, dt, "small")
        b = a.clone() if g.chance(50) else g.tensor(s if g.chance(80) else g.shape(), dt, "small")
        if form == "equal":
            return [a, b], {}
        if g.chance(40) and b.numel():
            b = b + 1e-7
        args = [a, b if tuple(b.shape) == tuple(a.shape) else a.clone()]
        if g.chance(60):
            args += [g.pick([1e-5, 1e-3, 0.0]), g.pick([1e-8, 1e-2, 0.0])]
            if g.b():
                args.append(g.b())
        return args, {}
    if form == "pool3d":
        return g_pool(g, {"form": p["kind"], "nd": 3})
    if form == "repeat_interleave":
        rep = t.as_tensor(np.asarray([g.pick([0, 1, 1, 2, 3]) for _ in range(g.pick([0, 1, 2, 3, 4]))], dtype=np.int64 if g.b() else np.int32))
        kwargs = {}
        if g.chance(50):
            kwargs["output_size"] = int(rep.sum())
        return [rep], kwargs
    if form == "dropout_eval":
        dt = g.dt("F")
        x = g.tensor(g.shape(dims=DIMS_NZ if p.get("native") else DIMS), dt, "small")  # native_dropout of an empty tensor: ATen's mask is empty_like(input)
        if p.get("native"):
            return [x, g.pick([0.0, 0.5, 1.0]), False], {}
        if g.b():
            return [x, g.pick([0.0, 0.3, 0.9]), False], {}
        return [x, 0.0, True], {}
    if form == "copy":
        dt = g.dt("FI")
        s = g.shape()
        src = g.tensor(g.pick([s, s, g.bshape(s)]), dt if g.chance(70) else g.dt("FI"), "small")
        return [g.tensor(s, dt, "small"), src] + ([g.b()] if g.chance(30) else []), {}
    if form == "bilinear":
        dt = g.dt("F32")
        n, a, b, o = g.pick([1, 2, 3]), g.pick([1, 2, 3]), g.pick([1, 2, 4]), g.pick([1, 2, 3])
        lead = [n] + ([g.pick([1, 2])] if g.chance(30) else [])
        args = [g.tensor(lead + [a], dt, "small"), g.tensor(lead + [b], dt, "small"), g.tensor([o, a, b], dt, "small")]
        if g.chance(60):
            args.append(g.tensor([o], dt, "small") if g.chance(80) else None)
        return args, {}
    if form == "grid_sampler":
        dt = g.dt("F32")
        n, c = g.pick([1, 2]), g.pick([1, 2])
        x = g.tensor([n, c, g.pick([2, 3, 4]), g.pick([2, 3, 4])], dt, "smooth")
        grid = g.tensor([n, g.pick([1, 2, 3]), g.pick([1, 2, 3]), 2], dt, "unit")
        return [x, grid, g.pick([0, 1, 2]), g.pick([0, 1, 2]), g.b()], {}
    if form == "atleast":
        dt = g.dt("FI")
        return [[g.tensor(g.shape(max_rank=4), dt, "small") for _ in range(g.pick([1, 2, 3]))]], {}
    if form == "sdpa":
        dt = g.dt("F32")
        b, h, lq, lk, e, ev = g.pick([1, 2]), g.pick([1, 2]), g.pick([1, 2, 3]), g.pick([1, 2, 4]), g.pick([2, 4]), g.pick([2, 3])
        lead = [b, h]  # the function asserts 4-D query/key/value (its declared domain)
        q, k, v = g.tensor(lead + [lq, e], dt, "smooth"), g.tensor(lead + [lk, e], dt, "smooth"), g.tensor(lead + [lk, ev], dt, "smooth")
        args, kwargs = [q, k, v], {}
        causal = g.chance(30)
        if not causal and g.chance(50):
            mk = g.pick(["bool", "float"])
            ms = g.pick([[lq, lk], lead + [lq, lk], [1, lk]])
            m = g.tensor(ms, "bool") if mk == "bool" else g.tensor(ms, dt, "small")
            if mk == "bool":
                m = m.clone()
                m[..., 0] = True  # a fully masked row is NaN in torch by definition of softmax over -inf: keep one key per row
            args.append(m)
        elif causal or g.b():
            args.append(None)
        if len(args) == 4 and (causal or g.b()):
            args += [0.0, causal]
        if g.chance(40):
            kwargs["scale"] = g.pick([None, 1.0, 0.5, 0.125])
        g.tol_scale = 10.0
        return args, kwargs
    if form == "histc":
        dt = g.dt(["float32", "float64"])
        x = g.tensor(g.shape(dims=DIMS_NZ), dt, "small")
        args = [x]
        if g.chance(85):
            args.append(g.pick([1, 2, 4, 10]))
            if g.chance(70):
                lo = g.pick([0, -2, -5.5, 0.5])
                args += [lo, g.pick([0 if lo == 0 else lo + 4, lo + 1, lo + 10.5])]
        return args, {}
    if form == "bincount":
        n = g.pick([0, 1, 3, 6])
        x = t.as_tensor(np.asarray([g.pick([0, 1, 2, 2, 5]) for _ in range(n)], dtype=np.int64 if g.b() else np.int32))
        args = [x]
        if g.chance(60):
            args.append(g.tensor([n], g.dt("F"), "small") if g.chance(50) else None)
            if g.chance(60):
                args.append(g.pick([0, 3, 8]))
        return args, {}
    if form in ("im2col", "col2im"):
        dt = g.dt("F32")
        n, c = g.pick([1, 2]), g.pick([1, 2])
        k = [g.pick([1, 2, 3]), g.pick([1, 2, 3])]
        dil, pad, stride = [g.pick([1, 1, 2])] * 2, [g.pick([0, 0, 1])] * 2, [g.pick([1, 1, 2])] * 2
        hw = [g.pick([3, 4, 5, 6]), g.pick([3, 4, 5, 6])]
        batched = g.chance(80)
        if form == "im2col":
            return [g.tensor(([n] if batched else []) + [c] + hw, dt, "small"), k, dil, pad, stride], {}
        L = 1
        for d in range(2):
            L *= (hw[d] + 2 * pad[d] - dil[d] * (k[d] - 1) - 1) // stride[d] + 1
        if L <= 0:
            hw, dil, pad, stride, L = [4, 4], [1, 1], [0, 0], [1, 1], (4 - k[0] + 1) * (4 - k[1] + 1)
        return [g.tensor(([n] if batched else []) + [c * k[0] * k[1], L], dt, "small"), hw, k, dil, pad, stride], {}
    raise AssertionError(form)



# ----------------------------------------------------------------------------- the OPS table
OPS = {}


def _reg(names, gen, **p):
    for n in names.split():
        OPS[n] = (gen, p)


def _aten(names):
    return " ".join("aten::" + n for n in names.split())


# --- elementwise unary
_reg(_aten("acos asin atanh"), g_unary, dt="F", pool="unit")
_reg(_aten("acosh atan asinh cos cosh sin sinh tan tanh exp exp2 log log10 log2 log1p sqrt rsqrt sigmoid reciprocal erf erfc expm1 sinc "
           "deg2rad rad2deg"), g_unary, dt="FI")
_reg(_aten("special_erf special_erfc special_erfcx special_expm1 special_sinc frac silu mish selu hardsigmoid hardswish log_sigmoid relu6"), g_unary, dt="F")
_reg(_aten("abs neg sign relu"), g_unary, dt="FIU")
_reg(_aten("floor ceil round trunc"), g_unary, dt="F")
_reg("prims::abs prims::neg prims::floor prims::ceil prims::round prims::acos prims::acosh prims::asin prims::asinh prims::atan prims::atanh prims::cos "
     "prims::cosh prims::erf prims::exp prims::log prims::sin prims::sinh prims::sqrt prims::tan prims::tanh", g_unary, dt="F")
_reg(_aten("isfinite isinf isnan isneginf isposinf"), g_unary, dt="F", pool="special")
_reg(_aten("signbit"), g_unary, dt="FI")
_reg(_aten("logical_not"), g_unary, dt="FIUB")
_reg(_aten("bitwise_not"), g_unary, dt="IUB")
_reg(_aten("leaky_relu"), g_unary_attrs, attrs=[("negative_slope", [0.01, 0.2, 0.0, 1, -0.5, 2.0], False)])
_reg(_aten("elu"), g_unary_attrs, attrs=[("alpha", [1, 1.0, 0.5, 2.0], False), ("scale", [1, 1.0, 2.0], False), ("input_scale", [1, 1.0, 0.5], False)])
_reg(_aten("celu"), g_unary_attrs, attrs=[("alpha", [1.0, 0.5, 2.0, 1], False)])
_reg(_aten("softplus"), g_unary_attrs, attrs=[("beta", [1, 1.0, 2.0, 0.5], False), ("threshold", [20, 20.0, 1.0, 0.0, 5], False)])
_reg(_aten("hardtanh"), g_unary_attrs, dt="F32I", attrs=[("min_val", [-1, -1.0, -2.5, 0, 0.5], False), ("max_val", [1, 1.0, 2.5, 3, 0.75], False)])
_reg(_aten("logit"), g_unary_attrs, pool="unit", attrs=[("eps", [None, 1e-06, 0.25, 0.0], False)])
_reg(_aten("gelu"), g_unary_attrs, attrs=[("approximate", ["none", "tanh"], True)])
_reg(_aten("round.decimals"), g_unary_attrs, attrs=[("decimals", [0, 1, 2, -1, 3], True)])
# --- elementwise binary
_reg(_aten("add.Tensor sub.Tensor subtract.Tensor"), g_binary, dt="FIUB", alpha="kw")
_reg(_aten("add.Scalar sub.Scalar subtract.Scalar"), g_binary, dt="FIUB", form="TS", alpha="pos")
_reg(_aten("mul.Tensor multiply.Tensor maximum minimum"), g_binary, dt="FIUB")
_reg(_aten("div.Tensor divide.Tensor true_divide.Tensor"), g_binary, dt="FI", nz_int=True, int_tag="int_div")
_reg(_aten("div.Scalar divide.Scalar true_divide.Scalar"), g_binary, dt="FI", form="TS", nz_int=True, int_tag="int_div")
_reg(_aten("div.Tensor_mode"), g_binary, dt="FI", nz_int=True, rounding=True, pool="smooth", spool="smooth")
_reg(_aten("div.Scalar_mode"), g_binary, dt="FI", form="TS", nz_int=True, rounding=True, pool="smooth")
_reg(_aten("floor_divide"), g_binary, dt="FI", nz_int=True, int_tag="int_div", pool="smooth")
_reg(_aten("remainder.Tensor fmod.Tensor"), g_binary, dt="FI", nz_int=True, int_tag="int_mod", pool="smooth")
_reg(_aten("remainder.Scalar fmod.Scalar"), g_binary, dt="FI", form="TS", nz_int=True, int_tag="int_mod", pool="smooth")
_reg(_aten("remainder.Scalar_Tensor"), g_binary, dt="FI", form="ST", nz_int=True, int_tag="int_mod", pool="smooth")
_reg("prims::remainder prims::div", g_binary, dt="FI", nz_int=True, mixed=0, int_tag="int_div", same_shape=True, py_other=False, pool="smooth")
_reg("prims::add prims::sub prims::mul", g_binary, dt="FI", mixed=0, same_shape=True, py_other=False)
_reg("prims::pow", g_pow, form="TT")
_reg(_aten("pow.Tensor_Tensor"), g_pow, form="TT")
_reg(_aten("pow.Tensor_Scalar"), g_pow, form="TS")
_reg(_aten("pow.Scalar"), g_pow, form="ST")
_reg(_aten("atan2 logaddexp logaddexp2 xlogy.Tensor"), g_binary, dt="F", pool="small")
_reg(_aten("xlogy.Scalar_Other"), g_binary, dt="F", form="TS")
_reg(_aten("xlogy.Scalar_Self"), g_binary, dt="F", form="ST")
_reg(_aten("heaviside"), g_binary, dt="FI", pool="small", mixed=0)
_reg(_aten("isclose"), g_isclose)
# --- comparison / logical / bitwise
_reg(_aten("eq.Tensor ne.Tensor lt.Tensor le.Tensor gt.Tensor ge.Tensor greater.Tensor greater_equal.Tensor less.Tensor less_equal.Tensor"),
     g_binary, dt="FIUB", pool="small")
_reg(_aten("eq.Scalar ne.Scalar lt.Scalar le.Scalar gt.Scalar ge.Scalar"), g_binary, dt="FIUB", pool="small", form="TS")
_reg("prims::eq prims::ne prims::lt prims::le prims::gt prims::ge", g_binary, dt="FI", pool="small", mixed=0, same_shape=True, py_other=False)
_reg(_aten("logical_and logical_or logical_xor"), g_binary, dt="FIUB", pool="small")
_reg(_aten("bitwise_and.Tensor bitwise_or.Tensor bitwise_xor.Tensor"), g_binary, dt="IUB")
_reg(_aten("bitwise_and.Scalar bitwise_or.Scalar bitwise_xor.Scalar"), g_binary, dt="IUB", form="TS")
_reg(_aten("bitwise_and.Scalar_Tensor bitwise_or.Scalar_Tensor bitwise_xor.Scalar_Tensor"), g_binary, dt="IUB", form="ST")
_reg(_aten("bitwise_left_shift.Tensor bitwise_right_shift.Tensor"), g_shift, form="TT")
_reg(_aten("bitwise_left_shift.Tensor_Scalar bitwise_right_shift.Tensor_Scalar __lshift__.Scalar __rshift__.Scalar"), g_shift, form="TS")
_reg(_aten("bitwise_left_shift.Scalar_Tensor bitwise_right_shift.Scalar_Tensor"), g_shift, form="ST")
# --- reductions
_reg(_aten("sum mean prod"), g_reduce_full, dt="FIB", dtype_kw=True)
_reg(_aten("max min"), g_reduce_full, dt="FIB", dims=DIMS_NZ, pool="edge")
_reg(_aten("any all"), g_reduce_full, dt="FIUB", pool="small")
_reg(_aten("sum.dim_IntList"), g_reduce_dimlist, dt="FIB", none_ok=True, dtype_kw=True)
_reg(_aten("mean.dim"), g_reduce_dimlist, dt="F", none_ok=True, dtype_kw=True)
_reg(_aten("amax amin"), g_reduce_dimlist, dt="FI", dims=DIMS_NZ, pool="edge")
_reg(_aten("any.dims all.dims"), g_reduce_dimlist, dt="FIUB", none_ok=True, pool="small")
_reg(_aten("logsumexp"), g_reduce_dimlist, dt="F", empty_ok=False)
_reg(_aten("prod.dim_int"), g_reduce_dim, dt="FIB", dtype_kw=True)
_reg(_aten("any.dim all.dim"), g_reduce_dim, dt="FIUB", pool="small")
_reg(_aten("max.dim min.dim"), g_reduce_dim, dt="FI", dims=DIMS_NZ, pool="edge")
_reg(_aten("logcumsumexp"), g_reduce_dim, dt="F", no_keepdim=True)
_reg(_aten("argmax argmin"), g_argreduce, dims=DIMS_NZ)
_reg(_aten("linalg_vector_norm"), g_vector_norm)
_reg(_aten("cumsum"), g_index, form="cumsum")
# --- softmax family
_reg(_aten("softmax.int log_softmax.int special_softmax"), g_softmax, form="pos")
_reg(_aten("special_log_softmax"), g_softmax, form="kw")
_reg(_aten("_softmax _log_softmax"), g_softmax, form="half_to_float")
# --- normalisations
_reg(_aten("layer_norm"), g_layer_norm)
_reg(_aten("native_layer_norm"), g_layer_norm, native=True)
_reg(_aten("group_norm"), g_group_norm)
_reg(_aten("native_group_norm"), g_group_norm, native=True)
_reg(_aten("_native_batch_norm_legit_no_training"), g_batch_norm, form="no_training")
_reg(_aten("native_batch_norm"), g_batch_norm, form="native")
# --- matmul family
for _f in ("mm", "bmm", "matmul", "addmm", "baddbmm", "linear", "mv", "dot", "addmv", "addbmm", "addr"):
    _reg("aten::" + _f, g_matmul, form=_f)
# --- view family
_reg(_aten("view reshape _unsafe_view view_copy"), g_view, form="view")
_reg("prims::reshape", g_view, form="view", no_minus1=True)
_reg(_aten("expand"), g_view, form="expand", implicit=True)
_reg(_aten("broadcast_to"), g_view, form="expand")
_reg(_aten("permute"), g_view, form="permute")
_reg(_aten("transpose.int"), g_view, form="transpose")
_reg(_aten("t"), g_view, form="t")
_reg(_aten("mT mH"), g_view, form="mT")
_reg(_aten("squeeze"), g_view, form="squeeze")
_reg(_aten("squeeze.dim"), g_view, form="squeeze_dim")
_reg("prims::squeeze", g_view, form="squeeze_dims")
_reg(_aten("unsqueeze"), g_view, form="unsqueeze")
_reg(_aten("flatten.using_ints"), g_view, form="flatten")
_reg(_aten("unflatten.int"), g_view, form="unflatten")
_reg(_aten("expand_as"), g_view, form="as", **{"as": "expand"})
_reg(_aten("view_as"), g_view, form="as", **{"as": "view"})
_reg(_aten("alias detach lift_fresh_copy resolve_conj resolve_neg conj"), g_view, form="identity")
_reg(_aten("clone"), g_view, form="identity", memory_format="optional")
_reg(_aten("contiguous"), g_view, form="identity", memory_format="required")
_reg(_aten("atleast_1d atleast_2d atleast_3d"), g_view, form="atleast")
_reg("prims::transpose", g_view, form="prims_transpose")
_reg("prims::broadcast_in_dim", g_view, form="broadcast_in_dim")
_reg(_aten("diagonal diagonal_copy"), g_view, form="diagonal")
_reg(_aten("unfold"), g_view, form="unfold")
# --- cat / split / slice / index family
_reg(_aten("cat concat concatenate"), g_cat, form="cat")
_reg(_aten("stack"), g_cat, form="stack")
_reg(_aten("split.Tensor unsafe_split.Tensor"), g_split, form="size")
_reg(_aten("split split_with_sizes"), g_split, form="sizes")
_reg(_aten("chunk"), g_split, form="chunk")
_reg(_aten("unbind.int"), g_split, form="unbind")
_reg(_aten("slice.Tensor"), g_slice, form="slice")
_reg(_aten("select.int"), g_slice, form="select")
_reg(_aten("narrow"), g_slice, form="narrow")
_reg(_aten("slice_scatter"), g_slice, form="slice_scatter")
_reg(_aten("select_scatter"), g_slice, form="select_scatter")
_reg(_aten("index_select"), g_index, form="index_select", dt="FIB")
_reg(_aten("gather"), g_index, form="gather")
_reg(_aten("scatter.src"), g_index, form="scatter_src")
_reg(_aten("scatter.value"), g_index, form="scatter_value")
_reg(_aten("scatter_add"), g_index, form="scatter_add")
_reg(_aten("scatter_reduce.two"), g_index, form="scatter_reduce")
_reg(_aten("where.self"), g_index, form="where", wform="TT", dt="FIB")
_reg(_aten("where.ScalarSelf"), g_index, form="where", wform="ST")
_reg(_aten("where.ScalarOther"), g_index, form="where", wform="TS")
_reg(_aten("where.Scalar"), g_index, form="where", wform="SS")
_reg("prims::where", g_index, form="where", wform="TT", same_shape=True)
_reg(_aten("masked_fill.Scalar"), g_index, form="masked_fill", vform="S", dt="FIB")
_reg(_aten("masked_fill.Tensor"), g_index, form="masked_fill", vform="T", dt="FIB")
_reg(_aten("tril triu"), g_index, form="tri")
_reg(_aten("flip"), g_index, form="flip", dt="FIB")
_reg(_aten("roll"), g_index, form="roll", dt="FIB")
_reg(_aten("repeat"), g_index, form="repeat", dt="FIB")
_reg(_aten("tile"), g_index, form="tile", dt="FIB")
_reg(_aten("repeat_interleave.self_int"), g_index, form="repeat_interleave")
_reg(_aten("sort"), g_index, form="sort")
_reg(_aten("topk"), g_index, form="topk")
_reg(_aten("embedding"), g_index, form="embedding")
_reg(_aten("index.Tensor _unsafe_index.Tensor"), g_index, form="index")
_reg(_aten("nonzero"), g_index, form="nonzero")
# --- creation
_reg(_aten("zeros_like ones_like"), g_creation, form="like")
_reg(_aten("empty_like"), g_creation, form="like", no_values=True)
_reg(_aten("full_like"), g_creation, form="full_like")
_reg(_aten("zeros ones"), g_creation, form="size")
_reg(_aten("empty.memory_format"), g_creation, form="size", no_values=True)
_reg(_aten("full"), g_creation, form="full")
_reg(_aten("new_zeros new_ones"), g_creation, form="new")
_reg(_aten("new_empty"), g_creation, form="new", no_values=True)
_reg(_aten("new_full"), g_creation, form="new_full")
_reg(_aten("arange"), g_creation, form="arange", n=1)
_reg(_aten("arange.start"), g_creation, form="arange", n=2)
_reg(_aten("arange.start_step"), g_creation, form="arange", n=3)
_reg(_aten("scalar_tensor"), g_creation, form="scalar_tensor")
_reg(_aten("fill.Scalar"), g_creation, form="fill", vform="S")
_reg(_aten("fill.Tensor"), g_creation, form="fill", vform="T")
_reg(_aten("linspace"), g_creation, form="linspace")
# --- clamp family
_reg(_aten("clamp"), g_clamp, form="scalar")
_reg(_aten("clamp.Tensor"), g_clamp, form="tensor")
_reg(_aten("clamp_min clamp_max"), g_clamp, form="one_scalar")
_reg(_aten("clamp_min.Tensor clamp_max.Tensor"), g_clamp, form="one_tensor")
# --- casts
_reg(_aten("_to_copy"), g_cast, form="to_copy")
_reg(_aten("type_as"), g_cast, form="type_as")
_reg("prims::convert_element_type", g_cast, form="convert")
# --- pad / pool / conv subset
_reg(_aten("constant_pad_nd"), g_pad, form="constant")
_reg(_aten("pad"), g_pad, form="pad")
_reg(_aten("reflection_pad1d"), g_pad, form="reflect", nd=1)
_reg(_aten("reflection_pad2d"), g_pad, form="reflect", nd=2)
_reg(_aten("replication_pad1d"), g_pad, form="replicate", nd=1)
_reg(_aten("replication_pad2d"), g_pad, form="replicate", nd=2)
_reg(_aten("max_pool1d"), g_pool, form="max", nd=1)
_reg(_aten("max_pool2d max_pool2d_with_indices"), g_pool, form="max", nd=2)
_reg(_aten("avg_pool1d"), g_pool, form="avg", nd=1)
_reg(_aten("avg_pool2d"), g_pool, form="avg", nd=2)
_reg(_aten("conv1d"), g_conv, form="convnd", nd=1)
_reg(_aten("conv2d"), g_conv, form="convnd", nd=2)
_reg(_aten("convolution"), g_conv, form="conv", nd=2)

# --- coverage extension: overloads outside the original families
_reg(_aten("addcmul"), g_misc, form="addcmul")
_reg(_aten("addcdiv"), g_misc, form="addcdiv")
_reg(_aten("lerp.Scalar"), g_misc, form="lerp_s")
_reg(_aten("lerp.Tensor"), g_misc, form="lerp_t")
_reg(_aten("glu"), g_misc, form="glu")
_reg(_aten("prelu"), g_misc, form="prelu")
_reg(_aten("_prelu_kernel"), g_misc, form="prelu", kernel=True)
_reg(_aten("cross"), g_misc, form="cross")
_reg(_aten("linalg_cross"), g_misc, form="cross", linalg=True)
_reg(_aten("mse_loss"), g_misc, form="mse_loss")
_reg(_aten("pixel_shuffle"), g_misc, form="pixel_shuffle")
_reg(_aten("pixel_unshuffle"), g_misc, form="pixel_unshuffle")
_reg(_aten("einsum"), g_misc, form="einsum")
_reg(_aten("instance_norm"), g_misc, form="instance_norm")
_reg(_aten("nll_loss"), g_misc, form="nll_loss")
_reg(_aten("nll_loss_forward"), g_misc, form="nll_loss_forward")
_reg(_aten("cross_entropy_loss"), g_misc, form="cross_entropy")
_reg(_aten("hardtanh_backward"), g_misc, form="hardtanh_backward")
_reg(_aten("index_put"), g_misc, form="index_put")
_reg(_aten("_unsafe_index_put"), g_misc, form="index_put", unsafe=True)
_reg(_aten("masked_scatter"), g_misc, form="masked_scatter")
_reg("prims::sum", g_misc, form="prims_sum")
_reg("prims::var", g_misc, form="prims_var")
_reg(_aten("det linalg_det logdet _linalg_det"), g_misc, form="det")
_reg(_aten("upsample_nearest1d"), g_misc, form="upsample", nd=1, mode="nearest")
_reg(_aten("upsample_nearest2d"), g_misc, form="upsample", nd=2, mode="nearest")
_reg(_aten("upsample_nearest3d"), g_misc, form="upsample", nd=3, mode="nearest")
_reg(_aten("upsample_nearest1d.vec"), g_misc, form="upsample", nd=1, mode="nearest", vec=True)
_reg(_aten("upsample_nearest2d.vec"), g_misc, form="upsample", nd=2, mode="nearest", vec=True)
_reg(_aten("upsample_nearest3d.vec"), g_misc, form="upsample", nd=3, mode="nearest", vec=True)
_reg(_aten("upsample_linear1d"), g_misc, form="upsample", nd=1, mode="linear")
_reg(_aten("upsample_bilinear2d upsample_bicubic2d"), g_misc, form="upsample", nd=2, mode="linear")
_reg(_aten("upsample_bilinear2d.vec upsample_bicubic2d.vec"), g_misc, form="upsample", nd=2, mode="linear", vec=True)
_reg(_aten("upsample_trilinear3d"), g_misc, form="upsample", nd=3, mode="linear")
_reg(_aten("upsample_trilinear3d.vec"), g_misc, form="upsample", nd=3, mode="linear", vec=True)
_reg(_aten("is_nonzero"), g_misc, form="is_nonzero")
_reg(_aten("equal"), g_misc, form="equal")
_reg(_aten("allclose"), g_misc, form="allclose")
_reg(_aten("avg_pool3d"), g_misc, form="pool3d", kind="avg")
_reg(_aten("max_pool3d max_pool3d_with_indices"), g_misc, form="pool3d", kind="max")
_reg(_aten("max_pool1d_with_indices"), g_pool, form="max", nd=1)
_reg(_aten("conv3d"), g_conv, form="convnd", nd=3)
_reg(_aten("reflection_pad3d"), g_pad, form="reflect", nd=3)
_reg(_aten("replication_pad3d"), g_pad, form="replicate", nd=3)
_reg(_aten("repeat_interleave.Tensor"), g_misc, form="repeat_interleave")
_reg(_aten("dropout"), g_misc, form="dropout_eval")
_reg(_aten("native_dropout"), g_misc, form="dropout_eval", native=True)
_reg(_aten("copy"), g_misc, form="copy")
_reg(_aten("bilinear"), g_misc, form="bilinear")
_reg(_aten("grid_sampler grid_sampler_2d"), g_misc, form="grid_sampler")
_reg(_aten("atleast_1d.Sequence atleast_2d.Sequence atleast_3d.Sequence"), g_misc, form="atleast")
_reg(_aten("scaled_dot_product_attention"), g_misc, form="sdpa")
_reg(_aten("histc"), g_misc, form="histc")
_reg(_aten("bincount"), g_misc, form="bincount")
_reg(_aten("im2col"), g_misc, form="im2col")
_reg(_aten("col2im"), g_misc, form="col2im")

FAMILY = {g_unary: "unary", g_unary_attrs: "unary", g_binary: "binary", g_pow: "binary", g_shift: "bitwise", g_isclose: "binary",
          g_reduce_full: "reduce", g_reduce_dimlist: "reduce", g_reduce_dim: "reduce", g_argreduce: "reduce", g_vector_norm: "reduce",
          g_softmax: "softmax", g_layer_norm: "norm", g_group_norm: "norm", g_batch_norm: "norm", g_matmul: "matmul", g_view: "view",
          g_cat: "index", g_split: "index", g_slice: "index", g_index: "index", g_creation: "creation", g_clamp: "clamp", g_cast: "cast",
          g_pad: "padpoolconv", g_pool: "padpoolconv", g_conv: "padpoolconv", g_misc: "misc"}


def family_of(qname):
    return FAMILY[OPS[qname][0]]


# ----------------------------------------------------------------------------- case generation, classification
DIM_NAMES = {"dim", "dims", "dim0", "dim1", "dim2", "start_dim", "end_dim", "dimension", "dimensions", "permutation", "axis"}


def _omit_defaults(g, overload, args, kwargs):
    """The exporter sees FX nodes with trailing default-valued positionals / keyword-only arguments left out."""
    sch = overload._schema
    pos = [a for a in sch.arguments if not a.kwarg_only]
    if len(args) <= len(pos) and g.chance(30):
        k = len(args)
        while k > 0 and pos[k - 1].has_default_value() and g.chance(60):
            k -= 1
        if k < len(args):
            args = args[:k]
    for a in sch.arguments:
        if a.kwarg_only and a.name in kwargs and a.has_default_value() and g.chance(15):
            kwargs = {k: v for k, v in kwargs.items() if k != a.name}
    return args, kwargs


def classify(overload, args, kwargs, tags=()):
    """Edge classes of one ATen call (feeds the class histogram, the non-triviality rule and the bucket's argument class)."""
    t = T()
    torch = t.torch
    cls = set(tags)
    tensors = []

    def visit(x):
        if isinstance(x, torch.Tensor):
            tensors.append(x)
        elif isinstance(x, (list, tuple)):
            for v in x:
                visit(v)

    visit(list(args))
    visit(list(kwargs.values()))
    for x in tensors:
        if 0 in x.shape:
            cls.add("size0")
        if x.dim() == 0:
            cls.add("rank0")
        if 1 in x.shape:
            cls.add("size1")
        cls.add(f"rank{x.dim()}" if x.dim() else "rank0")
    if tensors:
        cls.add("dt:" + t.DTN[tensors[0].dtype])
    sch = overload._schema
    pos = [a for a in sch.arguments if not a.kwarg_only]
    named = {}
    for a, v in zip(pos, args):
        named[a.name] = (a, v)
    for a in sch.arguments:
        if a.kwarg_only and a.name in kwargs:
            named[a.name] = (a, kwargs[a.name])
    self_rank = tensors[0].dim() if tensors else None
    for name, (a, v) in named.items():
        if name in DIM_NAMES:
            vals = v if isinstance(v, (list, tuple)) else [v]
            ints = [d for d in vals if isinstance(d, int) and not isinstance(d, bool)]
            if any(d < 0 for d in ints):
                cls.add("negdim")
                if self_rank and any(d == -self_rank for d in ints):
                    cls.add("negdim_full")
        ty = str(a.type)
        if ty in ("number", "Optional[number]") and isinstance(v, (bool, int, float)):
            cls.add("scalar")
            cls.add("scalar_" + type(v).__name__)
        if a.has_default_value():
            dv = a.default_value
            same = (v == dv) if not isinstance(v, torch.Tensor) else False
            if isinstance(v, (list, tuple)) and isinstance(dv, (list, tuple)):
                same = list(v) == list(dv)
            if isinstance(v, torch.Tensor) or not same:
                cls.add("nondefault_attr")
                cls.add("attr:" + name)
    given = set(named)
    if any(a.has_default_value() and a.name not in given for a in sch.arguments):
        cls.add("omitted_optional")
    if any(v is None for _, v in named.values()):
        cls.add("none_arg")
    return sorted(cls)


EDGE = ("size0", "rank0", "broadcast", "negdim", "scalar", "nondefault_attr")
ARGCLASS_PRIORITY = ("int_div", "int_mod", "float_to_int", "bool_index", "negative_pad", "dim_none", "dim_empty", "minus1", "mixed_dtype",
                     "size0", "rank0", "negdim", "scalar", "broadcast", "nondefault_attr")


def arg_class(classes):
    edge = next((c for c in ARGCLASS_PRIORITY if c in classes), "plain")
    dt = next((c[3:] for c in classes if c.startswith("dt:")), "")
    kind = "float" if dt.startswith("float") else "bool" if dt == "bool" else "uint" if dt.startswith("uint") else "int" if dt else "notensor"
    return f"{edge}+{kind}"


STRATA = 7


def cases(qname, stratum=None):
    """Hypothesis strategy of JSON-able cases for one registered overload (stratum: index into the op's dtype list)."""
    from hypothesis import strategies as st

    gen, p = OPS[qname]
    allowed = first_tensor_allowed(qname)

    def build(seed):
        g = G([seed, stratum or 0], allowed, stratum)
        args, kwargs = gen(g, p)
        overload = get_overload(qname)
        args, kwargs = _omit_defaults(g, overload, list(args), dict(kwargs))
        return {"op": qname, "args": [enc(a) for a in args], "kwargs": {k: enc(v) for k, v in kwargs.items()}, "tags": list(g.tags),
                "no_values": bool(p.get("no_values")), "tol_scale": g.tol_scale}

    return st.integers(0, 2**62).map(build)


def first_tensor_allowed(qname):
    """dtype names admitted by the annotation of the function's first tensor-typed input; None when the exporter's
    promotion pass rewrites this op's operands first (then the annotation constrains the promoted dtype, not the drawn one)."""
    t = T()
    entry = registry().get(qname)
    if entry is None or entry.overload is None:
        return None
    try:
        if t.table.get_rule(entry.overload.overloadpacket) is not None:
            return None
        for prm in entry.signature.params:
            if isinstance(prm, t.ir.schemas.Parameter):
                if prm.name not in ("self", "input", "a", "x"):
                    return None
                names = set()
                for ty in prm.type_constraint.allowed_types:
                    if isinstance(ty, t.ir.TensorType):
                        names.add(ty.dtype.name.lower())
                conv = {"float": "float32", "double": "float64"}
                return {conv.get(n, n) for n in names} or None
    except Exception:  # noqa: BLE001
        return None
    return None


def decode_case(case):
    return [dec(a) for a in case["args"]], {k: dec(v) for k, v in case["kwargs"].items()}


def case_key(case):
    args, kwargs = decode_case(case)
    return (case["op"], arg_signature(args), tuple(sorted((k, arg_signature(v)) for k, v in kwargs.items())))


def case_size(case):
    n = 0

    def visit(x):
        nonlocal n
        if isinstance(x, dict) and "d" in x:
            n += len(x["d"]) + 2 * len(x["s"])
        elif isinstance(x, list):
            for v in x:
                visit(v)
        n += 1

    visit(case["args"])
    visit(list(case["kwargs"].values()))
    return n


def sha(x):
    return hashlib.sha1(repr(x).encode()).hexdigest()[:12]


# ============================================================================= end-to-end tier: small modules through torch.onnx.export
# A program is a list of JSON-able steps applied to a running tensor h (inputs x, y: float32, same shape).  `exact` steps keep
# dyadic values exact, so discontinuous steps (floor, round, sign, comparisons, argmax, remainder) are only drawn while the running
# value is still exact: a one-ulp kernel difference can then not be amplified into a different integer.

def _mstep(step, h, x, y, W):
    t = T()
    torch = t.torch
    Fn = torch.nn.functional
    op = step["op"]
    a = step.get("a")
    b = step.get("b")
    if op == "relu":
        return torch.relu(h)
    if op == "abs":
        return torch.abs(h)
    if op == "neg":
        return torch.neg(h)
    if op == "tanh":
        return torch.tanh(h)
    if op == "sigmoid":
        return torch.sigmoid(h)
    if op == "exp":
        return torch.exp(torch.clamp(h, max=8.0))
    if op == "erf":
        return torch.erf(h)
    if op == "gelu":
        return Fn.gelu(h, approximate=a)
    if op == "silu":
        return Fn.silu(h)
    if op == "sqrt":
        return torch.sqrt(torch.abs(h) + 1.0)
    if op == "log":
        return torch.log(torch.abs(h) + 1.0)
    if op == "rsqrt":
        return torch.rsqrt(torch.abs(h) + 0.5)
    if op == "reciprocal":
        return torch.reciprocal(torch.abs(h) + 1.0)
    if op == "leaky_relu":
        return Fn.leaky_relu(h, a)
    if op == "elu":
        return Fn.elu(h, a)
    if op == "softplus":
        return Fn.softplus(h, beta=a)
    if op == "hardtanh":
        return Fn.hardtanh(h, a, b)
    if op == "floor":
        return torch.floor(h)
    if op == "ceil":
        return torch.ceil(h)
    if op == "round":
        return torch.round(h)
    if op == "trunc":
        return torch.trunc(h)
    if op == "sign":
        return torch.sign(h)
    if op == "add_s":
        return h + a
    if op == "rsub_s":
        return a - h
    if op == "mul_s":
        return h * a
    if op == "div_s":
        return h / a
    if op == "pow2":
        return h ** 2
    if op == "div_mode_s":
        return torch.div(h, a, rounding_mode=b)
    if op == "remainder_s":
        return torch.remainder(h, a)
    if op == "fmod_s":
        return torch.fmod(h, a)
    if op == "clamp":
        return torch.clamp(h, a, b)
    if op == "clamp_min":
        return torch.clamp_min(h, a)
    if op == "add_t":
        return torch.add(h, x, alpha=a)
    if op == "sub_t":
        return torch.sub(h, y, alpha=a)
    if op == "mul_t":
        return h * y
    if op == "max_t":
        return torch.maximum(h, x)
    if op == "min_t":
        return torch.minimum(h, y)
    if op == "where_t":
        return torch.where(h > a, h, y)
    if op == "gt_float":
        return (h > x).to(torch.float32)
    if op == "le_s_float":
        return (h <= a).to(torch.float32) + h
    if op == "masked_fill":
        return h.masked_fill(h > a, b)
    if op == "atan2_t":
        return torch.atan2(h, torch.abs(x) + 1.0)
    if op == "div_mode_t":
        return torch.div(h, torch.abs(y) + 1.0, rounding_mode=b)
    if op == "sum":
        return h.sum(a, keepdim=b)
    if op == "mean":
        return h.mean(a, keepdim=b)
    if op == "amax":
        return h.amax(a, keepdim=b)
    if op == "amin":
        return h.amin(a, keepdim=b)
    if op == "prod":
        return h.prod(a, keepdim=b)
    if op == "max_dim":
        return h.max(a, keepdim=b).values
    if op == "argmax":
        return h.argmax(a, keepdim=b).to(torch.float32)
    if op == "cumsum":
        return h.cumsum(a)
    if op == "softmax":
        return torch.softmax(h, a)
    if op == "log_softmax":
        return torch.log_softmax(h, a)
    if op == "logsumexp":
        return torch.logsumexp(h, a, keepdim=b)
    if op == "layer_norm":
        return Fn.layer_norm(h, h.shape[-1:])
    if op == "var":
        return h.var(a, keepdim=b, correction=step["c"])
    if op == "flatten":
        return h.flatten(a, b)
    if op == "reshape_flat":
        return h.reshape(-1)
    if op == "view_2d":
        return h.reshape(h.shape[0], -1)
    if op == "unsqueeze":
        return h.unsqueeze(a)
    if op == "squeeze":
        return h.squeeze()
    if op == "squeeze_dim":
        return h.squeeze(a)
    if op == "transpose":
        return h.transpose(a, b)
    if op == "permute_rev":
        return h.permute(*reversed(range(h.dim())))
    if op == "slice":
        return h.narrow(a, 0, b) if step.get("narrow") else h[(slice(None),) * (a % h.dim()) + (slice(step["s"], b, step["st"]),)]
    if op == "select":
        return h.select(a, b)
    if op == "flip":
        return h.flip(a)
    if op == "roll":
        return h.roll(b, a)
    if op == "repeat":
        return h.repeat(*a)
    if op == "expand":
        return h.unsqueeze(0).expand(a, *h.shape)
    if op == "cat":
        return torch.cat([h, h * 2], a)
    if op == "stack":
        return torch.stack([h, -h], a)
    if op == "chunk":
        return h.chunk(2, a)[b]
    if op == "split":
        return h.split(1, a)[b]
    if op == "unbind":
        return h.unbind(a)[b]
    if op == "tril":
        return torch.tril(h, a)
    if op == "triu":
        return torch.triu(h, a)
    if op == "index_select":
        return h.index_select(a, torch.tensor(b, dtype=torch.int64))
    if op == "gather0":
        return torch.gather(h, a, torch.zeros_like(h, dtype=torch.int64))
    if op == "zeros_like":
        return torch.zeros_like(h) + h
    if op == "full_like":
        return torch.full_like(h, a) * h
    if op == "ones_like":
        return torch.ones_like(h, dtype=torch.float64).to(torch.float32) - h
    if op == "arange_add":
        return h + torch.arange(h.shape[-1])
    if op == "arange_f":
        return h * torch.arange(0, h.shape[-1], 1, dtype=torch.float32)
    if op == "matmul_t":
        return h @ h.transpose(-1, -2)
    if op == "linear":
        return Fn.linear(h, W[: step["n"], : h.shape[-1]], W[: step["n"], 0] if a else None)
    if op == "to_f64":
        return h.to(torch.float64).to(torch.float32) * a
    if op == "to_int":
        return h.to(torch.int64).to(torch.float32)
    raise AssertionError(op)


_M_EXACT = {"relu", "abs", "neg", "add_s", "rsub_s", "mul_s", "pow2", "clamp", "clamp_min", "add_t", "sub_t", "mul_t", "max_t", "min_t", "where_t",
            "gt_float", "le_s_float", "masked_fill", "sum", "amax", "amin", "max_dim", "argmax", "cumsum", "flatten", "reshape_flat", "view_2d",
            "unsqueeze", "squeeze", "squeeze_dim", "transpose", "permute_rev", "slice", "select", "flip", "roll", "repeat", "expand", "cat", "stack",
            "chunk", "split", "unbind", "tril", "triu", "index_select", "gather0", "zeros_like", "full_like", "ones_like", "arange_add", "arange_f",
            "floor", "ceil", "round", "trunc", "sign", "div_mode_s", "remainder_s", "fmod_s", "hardtanh", "to_f64", "to_int", "leaky_relu_exact"}
_M_DISCONT = {"floor", "ceil", "round", "trunc", "sign", "div_mode_s", "remainder_s", "fmod_s", "gt_float", "le_s_float", "where_t", "masked_fill",
              "argmax", "to_int", "div_mode_t", "max_dim"}
_DY = [0.5, 2.0, -1.0, 1.5, -0.5, 0.25, 3.0, 1.0]


def _draw_step(g, h, exact, same_as_x):
    r = h.dim()
    names = ["relu", "abs", "neg", "tanh", "sigmoid", "exp", "erf", "gelu", "silu", "sqrt", "log", "rsqrt", "reciprocal", "leaky_relu", "elu",
             "softplus", "hardtanh", "add_s", "rsub_s", "mul_s", "div_s", "pow2", "clamp", "clamp_min", "zeros_like", "full_like", "ones_like",
             "to_f64", "reshape_flat", "unsqueeze", "expand"]
    if exact:
        names += ["floor", "ceil", "round", "trunc", "sign", "div_mode_s", "remainder_s", "fmod_s", "le_s_float", "masked_fill", "to_int"]
    if same_as_x:
        names += ["add_t", "sub_t", "mul_t", "max_t", "min_t", "atan2_t"]
        if exact:
            names += ["where_t", "gt_float", "div_mode_t"]
    if r >= 1:
        names += ["sum", "mean", "amax", "amin", "prod", "cumsum", "softmax", "log_softmax", "logsumexp", "layer_norm", "var", "flatten", "squeeze",
                  "squeeze_dim", "slice", "select", "flip", "roll", "repeat", "cat", "stack", "chunk", "split", "unbind", "index_select", "gather0",
                  "arange_add", "arange_f", "linear", "max_dim"]
        if exact:
            names += ["argmax"]
    if r >= 2:
        names += ["transpose", "permute_rev", "tril", "triu", "matmul_t", "view_2d"]
    op = g.pick(names)
    s = {"op": op}
    d = g.dim(r) if r else 0
    if op == "gelu":
        s["a"] = g.pick(["none", "tanh"])
    elif op in ("leaky_relu",):
        s["a"] = g.pick([0.01, 0.2, 0.5])
    elif op == "elu":
        s["a"] = g.pick([1.0, 0.5, 2.0])
    elif op == "softplus":
        s["a"] = g.pick([1.0, 2.0, 0.5])
    elif op == "hardtanh":
        s["a"], s["b"] = g.pick([-1.0, -0.5, 0.0]), g.pick([1.0, 2.0, 0.5])
    elif op in ("add_s", "rsub_s", "mul_s", "full_like", "to_f64"):
        s["a"] = g.pick(_DY + [2, 3, -1])
    elif op == "div_s":
        s["a"] = g.pick([2.0, 4.0, 3.0, -0.5, 2])
    elif op in ("div_mode_s", "div_mode_t"):
        s["a"], s["b"] = g.pick([2.0, 0.5, -2.0, 4, -1.5]), g.pick(["floor", "trunc"])
    elif op in ("remainder_s", "fmod_s"):
        s["a"] = g.pick([2.0, 0.5, -2.0, 1.5, 3, -1.5])
    elif op == "clamp":
        s["a"], s["b"] = g.pick([-1.0, 0.0, -0.5, None]), g.pick([1.0, 0.5, 2.0])
    elif op == "clamp_min":
        s["a"] = g.pick([0.0, -1.0, 0.5])
    elif op in ("add_t", "sub_t"):
        s["a"] = g.pick([1, 2, 0.5, -1, 1.0])
    elif op in ("where_t", "le_s_float"):
        s["a"] = g.pick([0.0, 0.5, -1.0, 1])
    elif op == "masked_fill":
        s["a"], s["b"] = g.pick([0.0, 0.5, -1.0]), g.pick([1.5, 0.0, -2.0, 3])
    elif op in ("sum", "mean", "amax", "amin", "logsumexp"):
        s["a"], s["b"] = (g.dims(r, min_n=1) if g.b() else d), g.b()
    elif op in ("prod", "max_dim", "argmax"):
        s["a"], s["b"] = d, g.b()
    elif op == "var":
        s["a"], s["b"], s["c"] = (g.dims(r, min_n=1) if g.b() else d), g.b(), g.pick([0, 1])
        dd = s["a"] if isinstance(s["a"], list) else [s["a"]]
        if int(np.prod([h.shape[i] for i in dd])) - s["c"] <= 0:
            s["c"] = 0
    elif op in ("cumsum", "softmax", "log_softmax", "squeeze_dim", "cat", "gather0"):
        s["a"] = d
    elif op == "flatten":
        i, j = sorted([g.i(0, r - 1), g.i(0, r - 1)])
        s["a"], s["b"] = (i - r if g.b() else i), (j - r if g.b() else j)
    elif op == "unsqueeze":
        s["a"] = g.i(-(r + 1), r)
    elif op == "transpose":
        s["a"], s["b"] = g.dim(r), g.dim(r)
    elif op == "slice":
        n = h.shape[d]
        s["a"] = d
        if g.b():
            s["narrow"], s["b"] = True, g.i(1, n)
        else:
            s["s"], s["b"], s["st"] = g.pick([0, 1, -1, None]), g.pick([n, -1, None, n + 3]), g.pick([1, 2])
    elif op in ("select", "chunk", "split", "unbind"):
        n = h.shape[d]
        s["a"] = d
        if op == "chunk":
            s["b"] = g.i(0, min(1, (n + 1) // 2 - 1) if n > 1 else 0)
        else:
            s["b"] = g.i(-n, n - 1) if op == "select" else g.i(0, n - 1)
    elif op == "flip":
        s["a"] = g.dims(r, min_n=1)
    elif op == "roll":
        s["a"], s["b"] = d, g.pick([1, -1, 2])
    elif op == "repeat":
        s["a"] = [g.pick([1, 2]) for _ in range(r + g.i(0, 1))]
    elif op == "expand":
        s["a"] = g.pick([1, 2, 3])
    elif op == "stack":
        s["a"] = g.i(-(r + 1), r)
    elif op in ("tril", "triu"):
        s["a"] = g.pick([0, 1, -1])
    elif op == "index_select":
        n = h.shape[d]
        s["a"], s["b"] = d, [g.i(0, n - 1) for _ in range(g.i(1, 3))]
    elif op == "linear":
        s["n"], s["a"] = g.pick([1, 2, 3]), g.b()
    return s


def _module_class():
    t = T()
    torch = t.torch
    if not hasattr(t, "ProgModule"):
        class ProgModule(torch.nn.Module):
            def __init__(self, steps, W):
                super().__init__()
                self.steps = steps
                self.W = torch.nn.Parameter(W, requires_grad=False)

            def forward(self, x, y):
                h = x
                for s in self.steps:
                    h = _mstep(s, h, x, y, self.W)
                return h

        t.ProgModule = ProgModule
    return t.ProgModule


def module_programs(n_steps):
    from hypothesis import strategies as st

    def build(seed):
        g = G([seed, n_steps])
        t = T()
        shape = g.shape(min_rank=1, max_rank=3, dims=[1, 2, 2, 3, 3, 4, 5], max_numel=60)
        x = g.tensor(shape, "float32", "smooth")
        y = g.tensor(shape, "float32", "smooth")
        W = make_tensor([3, 8], "float32", "smooth", 7)
        n = n_steps
        steps, h, exact = [], x, True
        for _ in range(n):
            for _attempt in range(4):
                s = _draw_step(g, h, exact, list(h.shape) == list(x.shape))
                try:
                    with t.torch.no_grad():
                        h2 = _mstep(s, h, x, y, W)
                except Exception:  # noqa: BLE001  the step does not apply to this shape: draw another
                    continue
                if h2.numel() == 0 or h2.numel() > 400 or h2.dtype != t.torch.float32 or not bool(t.torch.isfinite(h2).all()) \
                        or float(h2.abs().max()) > 1e4:
                    continue
                steps.append(s)
                h = h2
                exact = exact and (s["op"] in _M_EXACT) and float(h.abs().max()) < 2048
                break
        return {"kind": "module", "steps": steps, "x": enc(x), "y": enc(y), "optimize": g.chance(50), "ops": [s["op"] for s in steps]}

    return st.integers(0, 2**62).map(build)


def _export_and_compare(case):
    """Returns (status, kind, detail): status ok | skip:<why> | violation."""
    t = T()
    torch = t.torch
    x, y = dec(case["x"]), dec(case["y"])
    W = make_tensor([3, 8], "float32", "smooth", 7)
    m = _module_class()(case["steps"], W).eval()
    try:
        with torch.no_grad():
            exp = m(x, y)
    except Exception as e:  # noqa: BLE001
        return "skip:module_eager_fails", None, str(e)[:200]
    scale, h = 1.0, x
    with torch.no_grad():
        for s in case["steps"]:
            h = _mstep(s, h, x, y, W)
            if h.dtype.is_floating_point and h.numel():
                scale = max(scale, float(h.abs().max()))
    try:
        ep = torch.export.export(m, (x, y), strict=False)
    except Exception as e:  # noqa: BLE001   torch.export itself cannot capture the module: not torch_lib's business
        return "skip:torch_export_capture_fails", None, f"{type(e).__name__}: {str(e)[:200]}"
    try:
        prog = torch.onnx.export(ep, (x, y), dynamo=True, optimize=bool(case["optimize"]), verbose=False)
        model = prog.model_proto
    except Exception as e:  # noqa: BLE001
        rc = root_cause(e)
        txt = f"{type(e).__name__}: {str(e)[:300]} | root: {type(rc).__name__}: {str(rc)[:300]}"
        if isinstance(rc, NotImplementedError):
            return "skip:declared_unsupported", None, txt
        return "violation", "export_raises", txt
    feeds = {}
    for inp, a in zip(model.graph.input, (x, y)):
        feeds[inp.name] = to_numpy(a)
    if len(model.graph.input) < 2:  # unused inputs are dropped by the exporter
        names = [i.name for i in model.graph.input]
        feeds = {n: to_numpy(x if n == "x" else y) for n in names}
    rt = runtime()
    mb = model.SerializeToString()
    try:
        return _module_compare(rt, mb, feeds, exp, scale)
    except RuntimeCrash as e:
        return "skip:runtime_crashed", None, str(e)


def _module_compare(rt, mb, feeds, exp, scale):
    r = rt.run_ort(mb, feeds)
    expected = [to_numpy(exp)]
    if r[0] != "ok":
        if any(mm in r[1] for mm in ORT_MISSING):
            return "skip:ort_kernel_missing", None, r[1]
        ref = rt.run_ref(mb, feeds)
        if ref[0] == "ok" and not compare_outputs(expected, "tensor", ref[1], True, scale, True, "float32"):
            return "skip:ort_fails_reference_agrees", None, r[1]
        return "violation", "ort_cannot_run", r[1]
    v = compare_outputs(expected, "tensor", r[1], True, scale, True, "float32")
    if v and v[0][0] in ("values", "shape"):
        ref = rt.run_ref(mb, feeds)
        if ref[0] == "ok" and not compare_outputs(expected, "tensor", ref[1], True, scale, True, "float32"):
            return "skip:runtime_split_ort_vs_reference", None, v[0][1]
    if v:
        return "violation", v[0][0], v[0][1]
    return "ok", None, ""


def _minimise_module(case, kind):
    """Drop steps while the same kind of failure persists (at most 10 re-exports)."""
    steps = list(case["steps"])
    budget = 10
    i = len(steps) - 1
    while i >= 0 and budget > 0 and len(steps) > 1:
        trial = dict(case, steps=steps[:i] + steps[i + 1:])
        budget -= 1
        try:
            st_, k, _ = _export_and_compare(trial)
        except Exception:  # noqa: BLE001
            st_, k = "err", None
        if st_ == "violation" and k == kind:
            steps = trial["steps"]
        i -= 1
    out = dict(case, steps=steps)
    out["ops"] = [s["op"] for s in steps]
    return out


def run_modules(col, n, seed):
    from vf.hyp import drive

    def body(case):
        if not case["steps"]:
            col.skip("module_empty")
            return
        st_, kind, detail = _export_and_compare(case)
        if st_.startswith("skip:"):
            col.skip("module:" + st_[5:])
            if st_ == "skip:declared_unsupported":
                col.extra.setdefault("skip_samples", []).append({"module_declared_unsupported": {"ops": case["ops"], "note": detail[:300]}})
            return
        classes = ["family:module", "module_steps:%d" % len(case["steps"]), "module_optimize:%s" % case["optimize"]] + ["mstep:" + o for o in sorted(set(case["ops"]))]
        col.case(("module", sha((case["steps"], case["x"]["s"], case["optimize"]))), len(case["steps"]) >= 2, classes,
                 sample={"module_steps": case["steps"], "input_shape": case["x"]["s"], "optimize": case["optimize"]})
        if st_ == "violation":
            small = _minimise_module(case, kind)
            st2, kind2, detail2 = _export_and_compare(small)
            if st2 == "violation" and kind2 == kind:
                case, detail = small, detail2
            bucket = "module:%s:%s%s" % (kind, "+".join(case["ops"]), ":optimized" if case["optimize"] else "")
            col.violation(bucket, f"steps={case['steps']} input_shape={case['x']['s']}  =>  {detail}", case, size=len(case["steps"]))

    for k, n_steps in enumerate((2, 3, 4, 5)):
        drive(module_programs(n_steps), body, max(2, n // 4), seed + k)


def replay_module(case):
    st_, kind, detail = _export_and_compare(case)
    if st_ != "violation":
        return []
    return [("module:%s:%s%s" % (kind, "+".join(case["ops"]), ":optimized" if case["optimize"] else ""), f"steps={case['steps']}  =>  {detail}")]
