"""C06 - the pattern matcher reports a match exactly when the subgraph is an instance.

Implementation under test: onnxscript.rewriter.pattern.Pattern(...).match(model, graph, node, check_nodes_are_removable=...)
(SimplePatternMatcher) and RewriteRule(...).commute().  Reference: vf/patspec.py (`solve`, `is_removable`,
`commute_variants`), which works on the pattern / host ASTs only.

Families (spec["fam"]):
  struct   bounded-exhaustive: all canonical patterns (<= kp node patterns) x all canonical hosts (<= kh nodes) x all roots
           x remove_nodes in {False, True} x graph-output variants of the host          (vars / node references only)
  leaf     the same with numeric-constant and ANY_VALUE operands in the pattern and an initializer operand in the host
  feature  node-level features (attribute constants/variables, _allow_other_attributes, _allow_other_inputs, None / optional
           inputs, _outputs count and names, _domain) x focus-node hosts (inputs 0..3 incl. None, attributes, outputs 1..3)
  const    numeric constants (scalar / list / tolerances) x constant tensors (dtype, rank, inside / outside tolerance,
           initializer / Constant node)
  or       OrValue family (dispatchable and backtracking, tagged, shared nodes, repeated variables) x hosts
  commute  RewriteRule.commute(): every variant against the operand-swapped pattern, in product order
  random   Hypothesis: random patterns (<= 8 node patterns, all constructs) x planted / mutated / random hosts (<= 20 nodes)

Regions of recorded findings (names usable in VERIF_C06_EXCLUDE and as `region` of known_findings entries; predicates in
REGIONS): pattern_node_more_outputs_than_host, or_shared_across_alternative, or_needs_backtracking,
commute_untagged_backtracking_or, commute_returns_or_value, commute_or_value_used_twice, commute_commutative_op_not_binary,
commute_three_output_nodes.
"""
from __future__ import annotations

import os
import random
import re
from collections import Counter

from vf import patspec as ps
from vf.hyp import drive, st
from vf.runner import Collector

ID = "C06"
EARLY_ATTRIBUTION = True  # region predicates are cheap scans of the stored case
LEVEL = "exploration"
EXHAUSTIVE = True
RULE = ("A pattern AST and a host-graph AST over {Neg, Add(commutative), Sub, Split(2 outputs), custom::Foo} are compiled (i) to "
        "a real GraphPattern through the public construction API (OpsetPatternBuilder(record=True), Var, AttrVar, Constant, "
        "OrValue, ANY_VALUE, pattern_builder; a sample also through generated `def p(op, x, ...)` text - both routes are judged "
        "by the same oracle) and to an onnx_ir graph, and (ii) evaluated by the reference matcher vf/patspec.solve (all OR "
        "choices x all host nodes for the additional output nodes, remaining assignment forced; cross-checked on every 64th "
        "triple against the pure brute force over ALL total assignments pattern-node -> host-node). Per (pattern, host, root "
        "node, remove_nodes, graph-output variant of the host): Pattern.match truthiness must equal 'the spec has an instance' "
        "(soundness and completeness); when both match, (bindings, set of matched nodes, output values) must equal those of one "
        "spec instance; with commute every rule of RewriteRule.commute() is compared with the operand-swapped pattern in product "
        "order. Enumerated families of canonical forms (variables numbered by first use): struct = all patterns with <=2 node "
        "patterns x all hosts with <=3 nodes x all roots over variable / node-reference operands (quick: <=2 distinct variables "
        "and inputs; thorough <=3 variables); outs = the same patterns with reversed output order / an intermediate value "
        "returned; leaf = constant / ANY_VALUE operands x hosts with an initializer; feature = attribute constants / variables, "
        "_allow_other_attributes, _allow_other_inputs, None / optional inputs, _outputs count and names, _domain x focus-node "
        "hosts; const = scalar / list constants and tolerances x constant tensors (dtype, rank, inside / outside tolerance, "
        "initializer / Constant node); or = OrValue alternatives (dispatchable / backtracking, tags, repeated variables, shared "
        "nodes) x hosts <=3 nodes; commute = patterns with Add x hosts <=3 nodes; thorough adds strided samples of 3x3, 2x4, 3x4 "
        "(covered_fraction per family in the evidence; `exhaustive` is true only if every family declared complete for the tier "
        "was enumerated completely). Plus Hypothesis-seeded random patterns (<=8 node patterns, every construct incl. several "
        "output nodes and custom domain) x hosts (<=20 nodes) with a planted instance in random context, a one-edit near miss of "
        "it, or a random graph. Non-trivial = the spec finds >=1 instance for the triple, or the best candidate violates exactly "
        "one atomic constraint (near miss); distinct by (pattern, host) pair (thorough: pattern x block of 16 hosts, to bound "
        "memory); the exact number of non-trivial triples is reported as nontrivial_triples.")
ASSUMPTIONS = [
    "vf/patspec.py states the documented meaning of patterns (docs/tutorial/rewriter/*.md, docstrings of _pattern_ir/_matcher): "
    "homomorphic term matching (two pattern nodes may map to one host node), a host node may have more outputs than the pattern "
    "declares, ANY_VALUE also matches an absent input, scalar constants match rank-0 tensors only, list constants rank-1",
    "numpy rounds float32/float64 tensor data like onnx_ir does",
    "the first pattern output node (in order of the returned outputs) is the one matched against the given node (docstring of "
    "SimplePatternMatcher.match)",
]
FLOOR = {"quick": 200000, "thorough": 500000}
TIMEOUT = {"quick": 900, "thorough": 4 * 3600}

# Named regions of recorded findings the generators stay out of (see REGIONS for the predicates over stored cases).
EXCLUDE: set = set(filter(None, os.environ.get("VERIF_C06_EXCLUDE", "").split(",")))
ACTIVE: set = set()  # EXCLUDE + regions of committed known findings (set per shard in run_shard)

_ATTR_KIND = {"INT": "i", "FLOAT": "f", "STRING": "s", "INTS": "is", "FLOATS": "fs", "STRINGS": "ss", "TENSOR": "t"}


# ----------------------------------------------------------------------------------------------------------- regions
def _alt_nodes(pat, k):
    """pattern nodes reachable from the alternatives of OR k -> {alt index: set(nodes)}"""
    res = {}
    for i, a in enumerate(pat["ors"][k]["alts"]):
        seen = set()

        def visit(v):
            if v[0] == "o" and v[1] not in seen:
                seen.add(v[1])
                for w in pat["nodes"][v[1]]["ins"]:
                    visit(w)
            elif v[0] == "or":
                for w in pat["ors"][v[1]]["alts"]:
                    visit(w)

        visit(a)
        res[i] = seen
    return res


def region_or_shared(pat):
    """A pattern node / OR value used inside an alternative of a backtracking OR and also outside of that alternative."""
    for k in range(len(pat["ors"])):
        if ps.or_is_dispatch(pat, k):
            continue
        alts = _alt_nodes(pat, k)
        for i, inside in alts.items():
            if not inside:
                continue
            # references from anywhere that is not inside this alternative
            for n, node in enumerate(pat["nodes"]):
                if n in inside:
                    continue
                for v in node["ins"]:
                    if v[0] == "o" and v[1] in inside:
                        return True
            for j, other in alts.items():
                if j != i and other & inside:
                    return True
            for k2, o2 in enumerate(pat["ors"]):
                if k2 != k:
                    for a in o2["alts"]:
                        if a[0] == "o" and a[1] in inside:
                            return True
            for v in pat["outs"]:
                if v[0] == "o" and v[1] in inside:
                    return True
    return False


def region_nout(pat, host):
    """Some pattern node declares more outputs than a host node with the same operator has."""
    hn = {}
    for n in host["nodes"]:
        k = (n["dom"], n["op"])
        hn[k] = min(hn.get(k, 99), n["nout"])
    return any(hn.get((n["dom"], n["op"]), 99) < n["nout"] for n in pat["nodes"])


def region_commute_or(pat):
    """commute() on a pattern with a backtracking OR that has no tag variable and at least one swappable node."""
    if not any((n["dom"], n["op"]) in ps.COMMUTATIVE and len(n["ins"]) == 2 for n in pat["nodes"]):
        return False
    return any(not ps.or_is_dispatch(pat, k) and not o["tag"] for k, o in enumerate(pat["ors"]))


def _swappable(pat):
    return any((n["dom"], n["op"]) in ps.COMMUTATIVE and len(n["ins"]) == 2 for n in pat["nodes"])


def region_commute_returns_or(pat):
    """commute() on a pattern with a swappable node that returns an OR value as a pattern output."""
    return _swappable(pat) and any(v[0] == "or" for v in pat["outs"])


def region_commute_or_twice(pat):
    """commute() on a pattern with a swappable node in which one OR value object is used more than once."""
    if not _swappable(pat):
        return False
    uses = Counter()
    for n in pat["nodes"]:
        for v in n["ins"]:
            if v[0] == "or":
                uses[v[1]] += 1
    for o in pat["ors"]:
        for v in o["alts"]:
            if v[0] == "or":
                uses[v[1]] += 1
    for v in pat["outs"]:
        if v[0] == "or":
            uses[v[1]] += 1
    return any(c > 1 for c in uses.values())


def region_commute_not_binary(pat):
    """commute() on a pattern in which a commutative operator is written with a number of operands other than two."""
    return any((n["dom"], n["op"]) in ps.COMMUTATIVE and len(n["ins"]) != 2 for n in pat["nodes"])


def region_commute_three_outputs(pat):
    """commute() variants of a pattern with three or more output nodes (and something to swap)."""
    return _swappable(pat) and len(ps.output_nodes(pat)) >= 3


COMMUTE_REGIONS = {
    "commute_commutative_op_not_binary": region_commute_not_binary,
    "commute_three_output_nodes": region_commute_three_outputs,
    "commute_untagged_backtracking_or": lambda pat: region_commute_or(pat),
    "commute_returns_or_value": region_commute_returns_or,
    "commute_or_value_used_twice": region_commute_or_twice,
}


def commute_excluded(col, pat):
    """Name of the first active commute region the pattern falls into (counted), else None."""
    for name, pred in COMMUTE_REGIONS.items():
        if name in ACTIVE and pred(pat):
            col.exclude(name)
            return name
    return None


def region_or_backtracking(case):
    """Every instance of the case needs a later alternative of a backtracking OR although an earlier one matches locally."""
    pat, host = case["pat"], case["host"]
    variants = ps.commute_variants(pat) if case.get("commute") else [pat]
    view = ps.PatView(variants[case.get("variant", 0)])
    hv = ps.HostView(host)
    sols, _ = ps.solve(view, hv, case["root"])
    if case.get("remove"):
        g = hv.gouts
        if case.get("gout") and case["gout"][1]:
            v = tuple(case["gout"][1])
            g = g | {v} if case["gout"][0] == "add" else g - {v}
        sols = [s for s in sols if ps.is_removable(s, hv, g)]
    return bool(sols) and all(ps.needs_or_backtracking(view.pat, hv, s) for s in sols)


REGIONS = {
    "or_shared_across_alternative": lambda case: region_or_shared(case["pat"]),
    "pattern_node_more_outputs_than_host": lambda case: region_nout(case["pat"], case["host"]),
    "commute_untagged_backtracking_or": lambda case: bool(case.get("commute")) and region_commute_or(case["pat"]),
    "commute_returns_or_value": lambda case: bool(case.get("commute")) and region_commute_returns_or(case["pat"]),
    "commute_commutative_op_not_binary": lambda case: bool(case.get("commute")) and region_commute_not_binary(case["pat"]),
    "commute_three_output_nodes": lambda case: bool(case.get("commute")) and region_commute_three_outputs(case["pat"]),
    "commute_or_value_used_twice": lambda case: bool(case.get("commute")) and region_commute_or_twice(case["pat"]),
    "or_needs_backtracking": region_or_backtracking,
}


# ----------------------------------------------------------------------------------------------------------- implementation side
def _exc_key(e):
    tb = e.__traceback__
    where = "?"
    while tb is not None:
        fn = tb.tb_frame.f_code.co_filename
        if "onnxscript" in fn and "/vf/" not in fn:
            where = f"{os.path.basename(fn)}:{tb.tb_frame.f_code.co_name}"
        tb = tb.tb_next
    return f"{type(e).__name__}@{where}"


class PatCtx:
    """A pattern AST compiled to implementation objects (+ its commute variants) and to spec views."""

    def __init__(self, pat, commute=False, route="api"):
        from onnxscript.rewriter import pattern as P

        self.pat = pat
        self.commute = commute
        self.route = route
        self.error = None
        self.impl = []
        self.views = []
        try:
            gp = ps.build_pattern(pat) if route == "api" else ps.build_pattern_from_text(pat)
            if commute:
                rule = P.RewriteRule(gp, lambda op, **_: None)
                self.impl = list(rule.commute())
                variants = ps.commute_variants(pat)
            else:
                self.impl = [P.Pattern(gp)]
                variants = [pat]
            self.views = [ps.PatView(v) for v in variants]
        except Exception as e:  # noqa: BLE001 - classified by the caller
            self.error = e
        self.feats = sorted(ps.pattern_features(pat))
        self.classes = [f"pat_nodes:{len(pat['nodes'])}"] + ["feat:" + f for f in self.feats] + (["commute"] if commute else [])


def observe(pobj, H, j, remove):
    try:
        m = pobj.match(H.model, H.graph, H.nodes[j], check_nodes_are_removable=remove)
    except Exception as e:  # noqa: BLE001
        return ("raise", e)
    if not m:
        return ("no", m)
    env = {}
    for k, v in m.bindings.items():
        env[k] = _conv(v, H)
    nodes = [H.node2idx.get(id(n), -1) for n in m.nodes]
    outs = tuple(H.val2ref.get(id(v), ("?", getattr(v, "name", None))) for v in m.outputs)
    return ("yes", env, nodes, outs)


def _conv(v, H):
    from onnxscript import ir

    if v is None:
        return None
    if isinstance(v, ir.Value):
        return H.val2ref.get(id(v), ("?", v.name))
    if isinstance(v, ir.Attr):
        return ("attr", v.name, _ATTR_KIND.get(v.type.name, v.type.name), ps.t(v.value))
    return ps.t(v)


def _norm_reason(r):
    r = re.sub(r"Value \S+", "Value _", r or "")
    r = re.sub(r"Binding failure: .* bound to", "Binding failure: _ bound to", r)
    r = re.sub(r"\d+", "N", r)
    r = re.sub(r"anonymous:N", "anon", r)
    return r[:90]


def judge(view, hv, obs, sols, best, remove, gouts, root=None):
    """Compare one observation with the spec.  -> (list[(bucket, detail)], spec_has_instance, nontrivial)"""
    if remove:
        ok = [s for s in sols if ps.is_removable(s, hv, gouts)]
    else:
        ok = sols
    near = (not ok) and ((best is not None and len(best) == 1 and not sols) or (bool(sols) and remove))
    nontrivial = bool(ok) or near
    kind = obs[0]
    pat = view.pat
    if kind == "raise":
        return [(f"raise:match:{_exc_key(obs[1])}", repr(obs[1])[:300])], bool(ok), nontrivial
    if kind == "no":
        if not ok:
            return [], False, nontrivial
        reason = _norm_reason(getattr(obs[1], "reason", "") if obs[1] is not None else "None")
        if pat["ors"] and all(ps.needs_or_backtracking(pat, hv, s) for s in ok):
            if "or_needs_backtracking" in ACTIVE:
                return [("__excluded__", "or_needs_backtracking")], True, True
            return [("completeness:or-needs-backtracking", f"spec instance {ok[0].env} nodes {sorted(ok[0].nodes)}; impl: {reason}")], True, True
        return [(f"completeness:{reason}", f"spec instance {ok[0].env} nodes {sorted(ok[0].nodes)}")], True, True
    _, env, nodes, outs = obs
    if len(outs) != len(pat["outs"]):
        # a truthy MatchResult that carries no output values: the matcher bailed out of a node without failing the match
        return [("result:truthy-match-without-outputs", f"impl bindings {env} nodes {nodes} outputs {outs}; spec instances: {len(ok)}")], bool(ok), nontrivial
    if not ok:
        if sols:
            why = "not-removable"
        else:
            if best is None and root is not None:  # diagnose: which constraints does the closest candidate violate?
                _, best = ps.solve(view, hv, root, max_viol=99)
            if best is not None:
                # a pattern node that declares more outputs than the host node has is one root cause whatever else differs
                why = "num-outputs" if "num-outputs" in best else "+".join(sorted(set(best)))
            else:
                why = "no-candidate"
        return [(f"soundness:{why}", f"impl bindings {env} nodes {nodes} outputs {outs}")], False, nontrivial
    got = (env, frozenset(nodes), outs)
    for s in ok:
        if s.env == env and s.nodes == got[1] and s.outs == outs:
            return [], True, True
    # which part differs?
    for s in ok:
        if s.env == env and s.nodes == got[1]:
            return [("outputs:differ-from-instance", f"impl {outs} spec {s.outs}")], True, True
    for s in ok:
        if s.env == env:
            return [("nodes:differ-from-instance", f"impl {sorted(nodes)} spec {sorted(s.nodes)} bindings {env}")], True, True
    s = ok[0]
    diff = sorted(k for k in set(env) | set(s.env) if env.get(k, "<unbound>") != s.env.get(k, "<unbound>"))
    kinds = sorted({_name_kind(pat, k) for k in diff})
    return [("bindings:" + "+".join(kinds), f"names {diff}: impl {[env.get(k, '<unbound>') for k in diff]} "
             f"spec(first of {len(ok)}) {[s.env.get(k, '<unbound>') for k in diff]}")], True, True


def _name_kind(pat, name):
    for n in pat["nodes"]:
        for _, a in n["attrs"]:
            if a[0] == "av" and a[1] == name:
                return "attr-var"
        if name in n["onames"]:
            return "output-name"
    for o in pat["ors"]:
        if o["tag"] == name:
            return "tag"
        if o["name"] == name:
            return "or-name"
    return "var"


# ----------------------------------------------------------------------------------------------------------- one (pattern, host)
class Stats:
    def __init__(self):
        self.hist = Counter()
        self.triples = 0
        self.nontrivial_triples = 0
        self.instances = 0
        self.brute_checked = 0
        self.text_route = 0
        self.dup_nodes = 0
        self.fast_neg = 0
        self.fast_neg_remove = 0


def case_json(pc, vi, host, root, remove, mode):
    return {"pat": pc.pat, "host": host, "root": root, "remove": remove, "commute": pc.commute, "variant": vi,
            "gout": [mode[0], list(mode[1]) if mode[1] else None], "route": pc.route,
            "pattern_text": ps.pattern_text(pc.pat), "host_text": ps.host_text(host)}


def apply_mode(H, mode):
    """-> (undo function, gouts set for the spec)"""
    kind, v = mode
    base = H.view.gouts
    if kind == "base":
        return None, base
    val = H.ref2val[v]
    if kind == "add":
        H.graph.outputs.append(val)
        return (lambda: H.graph.outputs.pop()), base | {v}
    idx = list(H.graph.outputs).index(val)
    H.graph.outputs.pop(idx)
    return (lambda: H.graph.outputs.insert(idx, val)), base - {v}


def run_pair(col, stt, pc, H, modes, brute_every=0, counter=None, size=0, roots=None):
    """All roots x remove x graph-output variants of one (pattern ctx, built host).  Returns (#evaluations, any nontrivial)."""
    hv = H.view
    host = H.ast
    evals = 0
    any_nt = False
    if pc.error is not None:
        return 0, False
    h = stt.hist
    for vi, (pobj, view) in enumerate(zip(pc.impl, pc.views)):
        for root in (range(hv.n) if roots is None else roots):
            sols, best = ps.solve(view, hv, root)
            if brute_every:
                counter[0] += 1
                if counter[0] % brute_every == 0 and hv.n ** max(0, view.nnodes - 1) * view.nchoices <= 4096:
                    s2, _ = ps.solve(view, hv, root, brute=True)
                    stt.brute_checked += 1
                    if {s.key() for s in s2} != {s.key() for s in sols}:
                        raise RuntimeError(f"patspec self-check failed: derived {sorted(s.key() for s in sols)} vs brute "
                                           f"{sorted(s.key() for s in s2)}\n{ps.pattern_text(view.pat)}\n{ps.host_text(host)}\nroot {root}")
            obs_f = observe(pobj, H, root, False)
            if not sols and obs_f[0] == "no":
                # fast path: nothing matches even without the side condition.  remove_nodes=True is re-checked on every
                # 4th such triple (it can only filter further).
                evals += 1
                stt.fast_neg += 1
                if best is not None:
                    stt.nontrivial_triples += 1
                    any_nt = True
                    h["near_miss:" + best[0]] += 1
                if stt.fast_neg % 4:
                    continue
                obs_t = observe(pobj, H, root, True)
                stt.fast_neg_remove += 1
                if obs_t[0] == "no":
                    evals += 1
                    if best is not None:
                        stt.nontrivial_triples += 1
                    continue
                stt.fast_neg_remove -= 1
                todo = [(True, modes[0], obs_t)]
            else:
                stt.instances += bool(sols)
                todo = [(False, ("base", None), obs_f)] + [(True, mode, None) for mode in modes]
            for remove, mode, obs in todo:
                undo, gouts = apply_mode(H, mode) if remove else (None, hv.gouts)
                try:
                    if obs is None:
                        obs = observe(pobj, H, root, remove)
                finally:
                    if undo:
                        undo()
                verdicts, has, nt = judge(view, hv, obs, sols, best, remove, gouts, root)
                evals += 1
                if nt:
                    stt.nontrivial_triples += 1
                    any_nt = True
                h["spec_match" if has else "spec_nomatch"] += 1
                h["impl_" + obs[0]] += 1
                if remove:
                    h["remove_nodes"] += 1
                    if mode[0] != "base":
                        h["gout_" + mode[0]] += 1
                    if sols and not has:
                        h["near_miss:not-removable"] += 1
                if obs[0] == "yes" and len(set(obs[2])) != len(obs[2]):
                    stt.dup_nodes += 1
                for bucket, detail in verdicts:
                    if bucket == "__excluded__":
                        col.exclude(detail)
                        continue
                    col.violation(bucket, detail, case_json(pc, vi, host, root, remove, mode), size=size or (len(pc.pat["nodes"]) * 100 + hv.n))
    if len(pc.pat["outs"]) > 1 and hv.n >= 2:
        e2, nt2 = _edited_in_place(col, stt, pc, H, size)
        evals += e2
        any_nt = any_nt or nt2
    stt.triples += evals
    return evals, any_nt


def _edit_candidates(pat, host):
    """1 -> 1 edits of the host (node count unchanged): a node takes the operator of one of the pattern's nodes with the same arity and
    attribute-free form, so that an instance appears or disappears."""
    pops = []
    for pn in pat["nodes"]:
        if pn.get("op") and not pn.get("dom") and pn["op"] not in pops:
            pops.append(pn["op"])
    out = []
    for j, n in enumerate(host["nodes"]):
        if n["dom"] or n["attrs"] or n["op"] == "Constant":
            continue
        for op in pops:
            if op != n["op"] and op != "Constant":
                out.append((j, op))
    return out[:3]


def _edited_in_place(col, stt, pc, H, size, only=None):
    """History step for patterns with several output nodes: the SAME pattern objects have just been matched against this graph object;
    now one node's operator is changed in place and every root is matched again - the verdicts must be those of the spec matcher on the
    edited graph (whatever a matcher remembers about a graph between two calls must not outlive an edit)."""
    import copy

    evals, any_nt = 0, False
    host0 = H.ast
    for (j, op) in ([only] if only else _edit_candidates(pc.pat, host0)):
        ast2 = copy.deepcopy(host0)
        ast2["nodes"][j]["op"] = op
        old = H.nodes[j].op_type
        H.nodes[j].op_type = op
        try:
            hv2 = ps.HostView(ast2)
            for vi, (pobj, view) in enumerate(zip(pc.impl, pc.views)):
                for root in range(hv2.n):
                    sols, best = ps.solve(view, hv2, root)
                    obs = observe(pobj, H, root, False)
                    verdicts, has, nt = judge(view, hv2, obs, sols, best, False, hv2.gouts, root)
                    evals += 1
                    any_nt = any_nt or nt
                    stt.hist["edited_in_place"] += 1
                    for bucket, detail in verdicts:
                        if bucket == "__excluded__":
                            col.exclude(detail)
                            continue
                        cj = case_json(pc, vi, ast2, root, False, ("base", None))
                        # the same verdict on a freshly built graph with fresh pattern objects is not a matter of history: it is reported
                        # (and attributed) like any other case
                        fresh_v = [b for b, _ in replay(dict(cj))]
                        if bucket in fresh_v:
                            col.violation(bucket, detail, cj, size=size or (len(pc.pat["nodes"]) * 100 + hv2.n))
                            continue
                        cj["history"] = {"host_before": host0, "edit": [j, op]}
                        col.violation("after_in_place_edit:" + bucket, detail, cj, size=size or (len(pc.pat["nodes"]) * 100 + hv2.n))
        finally:
            H.nodes[j].op_type = old
    return evals, any_nt


def record_pair(col, stt, pc, H, evals, nt, key, extra_classes=[]):  # noqa: B006
    if not evals:
        return
    classes = pc.classes + [f"host_nodes:{H.view.n if H.view.n < 10 else '10+'}"]
    classes += extra_classes
    sample = None
    if nt and len(col.samples) < col.MAX_SAMPLES:
        sample = {"pattern": ps.pattern_text(pc.pat), "host": ps.host_text(H.ast), "commute": pc.commute}
    col.case(key, nt, classes, sample=sample, weight=evals)


def pattern_errors(col, pc, host=None):
    """Classify an exception raised while constructing the pattern / its commute variants."""
    e = pc.error
    where = "commute" if pc.commute else "build"
    case = {"pat": pc.pat, "host": host or {"nin": 1, "inits": [], "nodes": [ps.hnode("Neg", [["i", 0]])], "outs": [["n", 0, 0]]},
            "root": 0, "remove": False, "commute": pc.commute, "variant": 0, "gout": ["base", None], "route": pc.route,
            "pattern_text": ps.pattern_text(pc.pat)}
    col.violation(f"raise:{where}:{_exc_key(e)}", repr(e)[:300], case, size=len(pc.pat["nodes"]))


# ----------------------------------------------------------------------------------------------------------- families
def _hosts(kmax, maxin, exact=None, const_leaf=False):
    hs = list(ps.enum_hosts(kmax, maxin=maxin, const_leaf=const_leaf))
    return [h for h in hs if exact is None or len(h["nodes"]) == exact]


def family(fam, tier):
    """-> (patterns, hosts, options) of an enumerated family."""
    big = tier == "thorough"
    if fam == "struct":  # variables / node references only, outputs = the sinks in node order
        return (list(ps.enum_patterns(2, maxv=3 if big else 2, leaves=(), out_variants=False)), _hosts(3, 2), {})
    if fam in ("outs2", "outs3"):  # the same patterns with reversed output order / an intermediate value returned additionally
        mv = 3 if big else 2
        plain = {ps.t(p) for p in ps.enum_patterns(2, maxv=mv, leaves=(), out_variants=False)}
        pats = [p for p in ps.enum_patterns(2, maxv=mv, leaves=(), out_variants=True) if ps.t(p) not in plain]
        if fam == "outs2":
            return (pats, _hosts(2, 2), {})
        return (pats, _hosts(3, 2 if big else 1, exact=3), {})
    if fam == "leaf":  # numeric constant / ANY_VALUE operands x hosts with an initializer operand
        pats = [p for p in ps.enum_patterns(2, maxv=2, leaves=("c", "any"), out_variants=False)
                if any(v[0] in ("c", "any") for n in p["nodes"] for v in n["ins"])]
        return (pats, _hosts(3, 1, const_leaf=True) if big else _hosts(2, 2, const_leaf=True), {})
    if fam == "feature":
        return (ps.feature_patterns(full=big), ps.feature_hosts(), {})
    if fam == "const":
        return (ps.const_patterns(), ps.const_hosts(), {})
    if fam == "or2":
        return (ps.or_patterns(tags=True, full=big), _hosts(2, 2), {})
    if fam == "or3":  # 3-node hosts: quick = those where every node feeds the last node, root = last node only
        if big:
            return (ps.or_patterns(tags=True), _hosts(3, 2, exact=3), {})
        return (ps.or_patterns(tags=False, full=False), ps.cone_hosts(_hosts(3, 2, exact=3)), {"modes": False, "roots": "last"})
    if fam in ("commute2", "commute3"):
        pats = [p for p in ps.enum_patterns(2, maxv=2, leaves=("c",) if big else (), out_variants=False)
                if any(n["op"] == "Add" for n in p["nodes"])]
        pats += [p for p in ps.or_patterns(tags=False) if any(n["op"] == "Add" for n in p["nodes"])][:: (1 if big else 4)]
        if fam == "commute2":
            return (pats, _hosts(2, 2), {"modes": False, "commute": True})
        if big:
            return (pats, _hosts(3, 2, exact=3), {"modes": False, "commute": True})
        return (pats, ps.cone_hosts(_hosts(3, 2, exact=3)), {"modes": False, "commute": True, "roots": "last"})
    if fam == "struct33":  # thorough: 3 node patterns x <=3 node hosts
        pats = [p for p in ps.enum_patterns(3, maxv=2, leaves=(), out_variants=False) if len(p["nodes"]) == 3]
        return (pats, _hosts(3, 2), {"modes": False})
    if fam == "struct24":  # thorough: <=2 node patterns x 4 node hosts
        return (list(ps.enum_patterns(2, maxv=3, leaves=(), out_variants=False)), _hosts(4, 2, exact=4), {"modes": False})
    if fam == "struct34":  # thorough: 3 x 4
        pats = [p for p in ps.enum_patterns(3, maxv=2, leaves=(), out_variants=False) if len(p["nodes"]) == 3]
        return (pats, _hosts(4, 2, exact=4), {"modes": False})
    raise ValueError(fam)


# (family, shards, fraction of the hosts enumerated: 1.0 = declared complete for the tier, < 1 = strided sample)
QUICK = [("struct", 24, 1.0), ("outs2", 1, 1.0), ("outs3", 2, 1 / 4), ("leaf", 4, 1.0), ("feature", 6, 1.0), ("const", 1, 1.0),
         ("or2", 1, 1.0), ("or3", 6, 1.0), ("commute2", 1, 1.0), ("commute3", 3, 1 / 4)]
THOROUGH = [("struct", 8, 1.0), ("outs2", 1, 1.0), ("outs3", 16, 1.0), ("leaf", 48, 1.0), ("feature", 8, 1.0), ("const", 1, 1.0),
            ("or2", 2, 1.0), ("or3", 32, 1.0), ("commute2", 2, 1.0), ("commute3", 32, 0.5), ("struct33", 48, 0.25),
            ("struct24", 16, 0.02), ("struct34", 8, 0.0002)]


def plan(tier, seed, budget):
    specs = []
    only = os.environ.get("VERIF_ONLY")
    for fam, parts, frac in (QUICK if tier == "quick" else THOROUGH):
        if only and fam not in only.split(","):
            continue
        f = min(1.0, frac * budget) if frac < 1.0 else min(1.0, budget)
        for i in range(parts):
            specs.append({"fam": fam, "part": i, "of": parts, "frac": f, "declared": frac >= 1.0})
    if not only or "random" in only.split(","):
        n = int((14000 if tier == "quick" else 400000) * budget)
        parts = 16 if tier == "quick" else 64
        for i in range(parts):
            specs.append({"fam": "random", "n": max(1, n // parts)})
    return specs


def run_exhaustive(spec, col, stt):
    pats, hosts, opt = family(spec["fam"], spec["tier"])
    fam = spec["fam"]
    frac = spec.get("frac", 1.0)
    # hosts are split over the parts (every part sees all patterns); frac < 1 keeps every k-th host of the part
    mine = list(range(spec["part"], len(hosts), spec["of"]))
    total_pairs = len(pats) * len(mine)
    if frac < 1.0:
        step = max(1, int(round(1.0 / frac)))
        mine = mine[::step]
    pcs = []
    text_every = 7
    for i, p in enumerate(pats):
        if "or_shared_across_alternative" in ACTIVE and p["ors"] and region_or_shared(p):
            col.exclude("or_shared_across_alternative")
            continue
        if opt.get("commute") and commute_excluded(col, p):
            continue
        pc = PatCtx(p, commute=bool(opt.get("commute")))
        pc.pid = i
        if pc.error is not None:
            pattern_errors(col, pc)
            stt.hist["pattern_construction_raised"] += 1
            continue
        if opt.get("commute"):
            if len(pc.impl) != len(pc.views):
                col.violation("commute:variant-count", f"{len(pc.impl)} rules for {len(pc.views)} operand-swap variants",
                              case_json(pc, 0, hosts[0], 0, False, ("base", None)), size=len(p["nodes"]))
                continue
        pc.text = None
        if i % text_every == 0 and not opt.get("commute"):
            pc.text = PatCtx(p, route="text")
            if pc.text.error is not None:
                pattern_errors(col, pc.text)
                pc.text = None
        pcs.append(pc)
    gran = 1 if spec["tier"] == "quick" else 16  # thorough: distinct key per (pattern, block of 16 hosts) to bound memory
    counter = [spec["part"]]
    done_pairs = excluded_pairs = done_hosts = 0
    total_pairs = len(pcs) * len(range(spec["part"], len(hosts), spec["of"]))
    for hi in mine:
        host = hosts[hi]
        H = ps.Host(host)
        modes = ps.gout_modes(host) if opt.get("modes", True) else [("base", None)]
        for pc in pcs:
            if "pattern_node_more_outputs_than_host" in ACTIVE and region_nout(pc.pat, host):
                col.exclude("pattern_node_more_outputs_than_host")
                excluded_pairs += 1
                continue
            evals, nt = run_pair(col, stt, pc, H, modes, brute_every=64, counter=counter,
                                 roots=[H.view.n - 1] if opt.get("roots") == "last" else None)
            if pc.text is not None and done_hosts < 48:
                e2, nt2 = run_pair(col, stt, pc.text, H, modes[:1])
                stt.text_route += e2
                evals += e2
            record_pair(col, stt, pc, H, evals, nt, (fam, pc.pid, hi // gran), extra_classes=["fam:" + fam])
            done_pairs += 1
        done_hosts += 1
    col.extra["pairs_in_domain"] = {fam: total_pairs}
    col.extra["pairs_done"] = {fam: done_pairs}
    col.extra["pairs_excluded"] = {fam: excluded_pairs}
    col.extra["declared_exhaustive_families"] = {fam: 1 if spec.get("declared") else 0}


def random_case(rnd):
    pat = ps.random_pattern(rnd, 8)
    r = rnd.random()
    if r < 0.55:
        host, inst = ps.plant_host(rnd, pat, 20)
        kind = "planted"
    elif r < 0.9:
        host, inst = ps.plant_host(rnd, pat, 20)
        host, edit = ps.mutate_host(rnd, host, inst)
        kind = "mutated:" + edit
    else:
        host = ps.random_host(rnd, 20)
        kind = "random"
    flags = {"commute": rnd.random() < 0.2, "text": rnd.random() < 0.25}
    return pat, host, kind, flags


def run_random(spec, col, stt):
    def body(seed_value):
        # the whole case is a pure function of the drawn integer (structure generators take a seeded random.Random)
        rnd = random.Random(seed_value)
        pat, host, kind, flags = random_case(rnd)
        if not ps.host_is_wellformed(host) or len(host["nodes"]) > 24:
            col.skip("generator_host_not_wellformed")
            return
        if "or_shared_across_alternative" in ACTIVE and pat["ors"] and region_or_shared(pat):
            col.exclude("or_shared_across_alternative")
            return
        if "pattern_node_more_outputs_than_host" in ACTIVE and region_nout(pat, host):
            col.exclude("pattern_node_more_outputs_than_host")
            return
        commute = flags["commute"] and sum(1 for n in pat["nodes"] if n["op"] == "Add" and len(n["ins"]) == 2) in (1, 2, 3)
        if commute and commute_excluded(col, pat):
            commute = False
        nout_nodes = len(ps.output_nodes(pat))
        nalt = 1
        for o in pat["ors"]:
            nalt *= len(o["alts"])
        if len(host["nodes"]) ** max(0, nout_nodes - 1) * nalt > 4000:
            col.skip("spec_search_space_too_large")
            return
        pc = PatCtx(pat, commute=commute, route="text" if flags["text"] else "api")
        if pc.error is not None:
            if isinstance(pc.error, NotImplementedError):
                col.skip("pattern_construct_not_implemented")  # documented: returning uncovered choice values
                return
            pattern_errors(col, pc, host)
            stt.hist["pattern_construction_raised"] += 1
            return
        if commute and len(pc.impl) != len(pc.views):
            col.violation("commute:variant-count", f"{len(pc.impl)} rules for {len(pc.views)} operand-swap variants",
                          case_json(pc, 0, host, 0, False, ("base", None)), size=len(pat["nodes"]))
            return
        H = ps.Host(host)
        modes = ps.gout_modes(host)[:1]
        evals, nt = run_pair(col, stt, pc, H, modes, brute_every=0)
        record_pair(col, stt, pc, H, evals, nt, ("random", ps.t(pat), ps.t(host)),
                    extra_classes=["fam:random", "host:" + kind, "route:" + pc.route])

    drive(st.integers(min_value=0, max_value=2**62), body, spec["n"], spec["seed"])


def _active(spec):
    ex = set(EXCLUDE)
    if spec.get("known_ids"):
        from vf.runner import load_known

        ex |= {e.get("region") for e in load_known(ID) if e.get("id") in spec["known_ids"] and e.get("region")}
    return ex


def run_shard(spec):
    global ACTIVE
    ACTIVE = _active(spec)
    col = Collector()
    stt = Stats()
    if spec["fam"] == "random":
        run_random(spec, col, stt)
    else:
        run_exhaustive(spec, col, stt)
    stt.hist["spec_nomatch"] += stt.fast_neg + stt.fast_neg_remove
    stt.hist["impl_no"] += stt.fast_neg + stt.fast_neg_remove
    stt.hist["remove_nodes"] += stt.fast_neg_remove
    col.hist.update(stt.hist)
    col.extra.update({"triples": stt.triples, "nontrivial_triples": stt.nontrivial_triples, "root_triples_with_instance": stt.instances,
                      "spec_brute_force_cross_checks": stt.brute_checked, "text_route_evaluations": stt.text_route,
                      "impl_matches_with_duplicate_nodes": stt.dup_nodes})
    return col.result()


def finalize(merged, tier):
    ex = merged["extra"]
    dom, done, excl = ex.get("pairs_in_domain", {}), ex.get("pairs_done", {}), ex.get("pairs_excluded", {})
    declared = {k for k, v in ex.get("declared_exhaustive_families", {}).items() if v}
    ex["covered_fraction"] = {k: round((done.get(k, 0) + excl.get(k, 0)) / v, 6) if v else 1.0 for k, v in sorted(dom.items())}
    ex["declared_exhaustive_families"] = sorted(declared)
    ex["sampled_families"] = sorted(set(dom) - declared)
    ex["exhaustive_complete"] = bool(declared) and all(done.get(k, 0) + excl.get(k, 0) >= dom[k] for k in declared)
    if merged["excluded"]:
        ex["exhaustive_note"] = ("pairs inside recorded-finding regions were not evaluated (pairs_excluded / "
                                 "excluded_by_known_findings); the enumeration is complete outside them")


# ----------------------------------------------------------------------------------------------------------- replay
def replay(case):
    pat, host = case["pat"], case["host"]
    pc = PatCtx(pat, commute=bool(case.get("commute")), route=case.get("route", "api"))
    if pc.error is not None:
        where = "commute" if pc.commute else "build"
        return [(f"raise:{where}:{_exc_key(pc.error)}", repr(pc.error)[:300])]
    if pc.commute and len(pc.impl) != len(pc.views):
        return [("commute:variant-count", f"{len(pc.impl)} rules for {len(pc.views)} variants")]
    if case.get("history"):
        # re-enact: match every root of the host as it was, edit in place, match again
        hb = case["history"]["host_before"]
        H = ps.Host(hb)
        for pobj in pc.impl:
            for r0 in range(H.view.n):
                observe(pobj, H, r0, False)

        class _Col:
            def __init__(self):
                self.v = []

            def exclude(self, d):
                pass

            def violation(self, b, d, c, size=0):
                if c["root"] == case["root"] and c.get("variant", 0) == case.get("variant", 0):
                    self.v.append((b, d))

        cc = _Col()
        _edited_in_place(cc, Stats(), pc, H, 0, only=tuple(case["history"]["edit"]))
        return cc.v
    H = ps.Host(host)
    vi = case.get("variant", 0)
    view, pobj = pc.views[vi], pc.impl[vi]
    root, remove = case["root"], case["remove"]
    mode = (case["gout"][0], tuple(case["gout"][1]) if case["gout"][1] else None)
    sols, best = ps.solve(view, H.view, root)
    s2, _ = ps.solve(view, H.view, root, brute=True) if H.view.n ** max(0, view.nnodes - 1) <= 20000 else (sols, None)
    if {s.key() for s in s2} != {s.key() for s in sols}:
        raise RuntimeError("patspec self-check failed on replay")
    undo, gouts = apply_mode(H, mode) if remove else (None, H.view.gouts)
    try:
        obs = observe(pobj, H, root, remove)
    finally:
        if undo:
            undo()
    verdicts, _, _ = judge(view, H.view, obs, sols, best, remove, gouts, root)
    return [v for v in verdicts if v[0] != "__excluded__"]
