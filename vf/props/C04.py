"""C04 - optimize() is total on valid models; result is valid with the same interface."""
from __future__ import annotations

import numpy as np

from vf import compare, modelgen, optcommon, wellformed
from vf.hyp import drive, st
from vf.runner import Collector

ID = "C04"
LEVEL = "exploration"
RULE = ("Hypothesis-generated checker-valid, executable ONNX models (typed random DAGs by concrete execution: ~90 ops, "
        "constants as Constant/initializer/overridable initializer-input, If/Loop with captured values, functions, "
        "sequences, planted rewrite-rule hosts) x option tuples x API {optimize, optimize_ir, fold_constants(+-shape inference), "
        "remove_unused_nodes, rewrite} x entry {proto, ir}. Oracle: no exception; result passes the independent walker + "
        "onnx.checker; graph inputs/outputs keep names/order/elem types/declared dims (unknown may be refined); models "
        "with overridable initializer-inputs agree under drawn override values. Non-trivial = model has control flow, a "
        "function or an overridable initializer; distinct by (model hash, options).")
ASSUMPTIONS = ["onnx.checker and the walker in vf/wellformed.py define validity", "onnxruntime (optimisations off) and "
               "onnx.reference define execution; a model counts as executable if at least one of them runs it on the sample input"]
FLOOR = {"quick": 100, "thorough": 1000}
TIMEOUT = {"quick": 1200, "thorough": 4 * 3600}

CFG = {"overridable": True, "zero_dims": True, "value_info": True, "max_nodes": 12}


def _cfg():
    from vf.rulehosts import planters

    c = dict(CFG)
    c["extra_generators"] = planters()
    c["extra_weight"] = 2
    return c


def plan(tier, seed, budget):
    n = int((1600 if tier == "quick" else 60000) * budget)
    shards = 16 if tier == "quick" else 64
    return [{"n": max(1, n // shards)} for _ in range(shards)]


def strategy():
    return st.tuples(optcommon.option_tuples(), modelgen.models(_cfg()))


def case_json(gm, o, seeds, feeds_list):
    return {"model": optcommon.model_to_json(gm.model), "opts": o, "text": modelgen.model_text(gm.model, 4000),
            "feeds": [optcommon.feeds_to_json(f) for f in feeds_list], "overridable": gm.overridable,
            "sample_feeds": optcommon.feeds_to_json(gm.sample_feeds)}


def _runtimes_disagree_on_source(model, sample_feeds):
    """onnxruntime and onnx.reference both run the source on the sample input and return different outputs (e.g. a Slice with a negative
    step whose start lies before the beginning of the axis: ONNX/onnxruntime clamp it to the first element, the numpy kernel of
    onnx.reference returns nothing).  Constant folding evaluates with the onnx.reference kernels, the checker infers shapes by the
    ONNX rules: a shape conflict reported by the strict checker on such a model is a discrepancy inside onnx, not a verdict on
    onnxscript (same rule as DESIGN 1.4 `runtime_disagreement_on_source`)."""
    if sample_feeds is None:
        return False
    src = compare.Source(model)
    a, b, scale = src.run(sample_feeds)
    return a[0] == "ok" and b[0] == "ok" and compare.same_outputs(a[1], b[1], scale=scale, k=16 * max(1, src.nnodes)) is not None


def check(model, o, feeds_list, overridable, sample_feeds=None):
    """Oracle on one (model, options).  Returns (list[(bucket, detail)], info dict)."""
    verdicts = []
    info = {}
    r = optcommon.apply_api(model, o)
    if r[0] == "raise":
        return [(f"raise:{o['api']}:{r[2]}", r[1])], info
    new = r[1]
    info["changed"] = optcommon.folded_or_rewritten(model, new)
    probs = wellformed.check_model(new)
    if probs and all(kind == "checker" and "ShapeInferenceError" in msg for kind, msg in probs) and _runtimes_disagree_on_source(model, sample_feeds):
        info["inconclusive"] = "shape_conflict_on_runtime_ambiguous_source"
        probs = []
    for kind, msg in probs[:3]:
        verdicts.append((f"invalid:{kind}:{o['api']}", msg))
    # interface
    (bi, bo), (ai, ao) = wellformed.signature(model), wellformed.signature(new)
    for what, b, a in (("inputs", bi, ai), ("outputs", bo, ao)):
        if [x[0] for x in b] != [x[0] for x in a]:
            verdicts.append((f"signature:{what}-names:{o['api']}", f"{[x[0] for x in b]} -> {[x[0] for x in a]}"))
            continue
        for (n, et, d), (_, et2, d2) in zip(b, a):
            if et != et2:
                verdicts.append((f"signature:{what}-elemtype:{o['api']}", f"{n}: {et} -> {et2}"))
            elif d is not None:
                if d2 is None or len(d2) != len(d):
                    verdicts.append((f"signature:{what}-rank:{o['api']}", f"{n}: {d} -> {d2}"))
                else:
                    for x, y in zip(d, d2):
                        if isinstance(x, int) and x != y:
                            verdicts.append((f"signature:{what}-dim:{o['api']}", f"{n}: {d} -> {d2}"))
                            break
                        if isinstance(x, str) and not (y == x) and what == "inputs":
                            # inputs are the caller's contract; output dims are derived and may be refined (symbolic -> known)
                            verdicts.append((f"signature:{what}-symdim:{o['api']}", f"{n}: {d} -> {d2}"))
                            break
    # a graph input with a default (an initializer of the same name) keeps its default: otherwise an optional input became required
    new_inits = {i.name for i in new.graph.initializer}
    lost = [v.name for v in model.graph.input if v.name in {i.name for i in model.graph.initializer}
            and v.name in {w.name for w in new.graph.input} and v.name not in new_inits]
    if lost:
        verdicts.append((f"signature:input-default-lost:{o['api']}", f"graph inputs {lost} are still inputs of the result but their default initializers are gone"))
    # overridable initializer-inputs are never folded: run with overrides
    if overridable and not probs:
        src = compare.Source(model)
        feeds_list = [f for f in feeds_list if _respects_declared_shapes(src, model, f)]
        info["override_feeds_used"] = len(feeds_list)
        v, d = compare.decide(src, new, feeds_list) if feeds_list else ("skip_source_fails", "no override tuple respects the declared shapes")
        info["override_verdict"] = v
        if v.startswith("violation"):
            verdicts.append((f"override:{v}:{o['api']}", d))
    return verdicts, info


def _respects_declared_shapes(src, model, feeds):
    """An override value (e.g. of an axes or shape operand) may make the model produce shapes that contradict the static shapes the
    model itself declares for its outputs / value_info.  Such a tuple is outside the model's contract: the optimizer may rely on
    declared shapes."""
    a, b, _ = src.run(feeds)
    declared = {}
    for vi in list(model.graph.output) + list(model.graph.value_info):
        if vi.type.HasField("tensor_type") and vi.type.tensor_type.HasField("shape"):
            declared[vi.name] = [d.dim_value if d.HasField("dim_value") else None for d in vi.type.tensor_type.shape.dim]
    got = {}
    if src.last_intermediates:
        got = {k: v for k, v in src.last_intermediates.items() if hasattr(v, "shape")}
    elif a[0] == "ok":
        got = {o.name: v for o, v in zip(model.graph.output, a[1]) if hasattr(v, "shape")}
    for name, dims in declared.items():
        v = got.get(name)
        if v is None:
            continue
        if len(v.shape) != len(dims) or any(d is not None and d != s for d, s in zip(dims, v.shape)):
            return False
    return True


def override_feeds(gm, seeds):
    return [gm.feeds(s, override=True) for s in seeds]


def run_shard(spec):
    col = Collector()

    def body(case):
        o, gm = case
        seeds = gm.seeds()
        if wellformed.check_model(gm.model):
            col.skip("generator_invalid")
            return
        src = compare.Source(gm.model)
        a, b, _ = src.run(gm.sample_feeds)
        if a[0] != "ok" and b[0] != "ok":
            col.skip("source_not_executable")
            return
        feeds_list = override_feeds(gm, gm.seeds(4)) if gm.overridable else []
        verdicts, info = check(gm.model, o, feeds_list, gm.overridable, gm.sample_feeds)
        feats = set(gm.features)
        nontrivial = bool(feats & {"If", "Loop", "function"}) or bool(gm.overridable)
        classes = [f for f in feats if not f.startswith(("op:", "in:", "const:"))] + ["api:" + o["api"], "entry:" + o.get("entry", "proto")]
        if info.get("changed"):
            classes.append("model_changed")
        if info.get("inconclusive"):
            classes.append("inconclusive:" + info["inconclusive"])
        if gm.overridable:
            classes.append("has_overridable")
            classes.append("override:" + str(info.get("override_verdict")))
        classes += [f for f in feats if f.startswith("planted:")]
        key = (modelgen.model_hash(gm.model), sorted(o.items()))
        col.case(key, nontrivial, classes, sample={"options": o, "model": modelgen.model_text(gm.model, 1200)})
        for bucket, detail in verdicts:
            col.violation(bucket, detail, case_json(gm, o, seeds, feeds_list), size=gm.n_nodes)

    drive(strategy(), body, spec["n"], spec["seed"])
    return col.result()


def replay(case):
    model = optcommon.model_from_json(case["model"])
    feeds = [optcommon.feeds_from_json(f) for f in case.get("feeds", [])]
    sample = optcommon.feeds_from_json(case["sample_feeds"]) if case.get("sample_feeds") else None
    verdicts, _ = check(model, case["opts"], feeds, case.get("overridable", []), sample)
    return verdicts


from vf.known_regions import REGIONS  # noqa: E402
