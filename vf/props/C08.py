"""C08 - torch_lib operator implementations agree with PyTorch."""
from __future__ import annotations

import hashlib
import os
import re

from vf.hyp import drive
from vf.runner import Collector

ID = "C08"
EARLY_ATTRIBUTION = True  # region predicates are cheap scans of the stored case
LEVEL = "exploration"
RULE = ("For every covered ATen/prims overload registered in onnxscript's torch_lib registry (get_torchlib_ops) a per-family generator "
        "(vf/torchlib.py) builds ATen-level argument tuples from ONE Hypothesis-drawn integer per case (it seeds numpy's Generator, so a "
        "case is a pure function of the drawn example; the dtype of the primary tensor is stratified over the op's dtype list): ranks 0-4, "
        "dims 0-5 (size-0 and size-1 on purpose), dtypes {f16,f32,f64,i32,i64,u8,bool}, python scalar vs tensor operands, negative dims "
        "incl. -rank, keepdim, omitted trailing / keyword optionals, every legal attribute combination. Each call is normalised the way "
        "torch.onnx's InsertTypePromotion pass rewrites the FX node (operands cast to the rule's computation dtype, differing python scalars "
        "-> 0-d tensors, overload re-selected). Only calls on which torch eager succeeds and whose tensor dtypes the function's own "
        "annotations admit are in the domain (others are counted skips). The registered function is called with the arguments bound exactly "
        "like the exporter (positional by position, keyword-only by name, torch.dtype->int, dtype=None->-1) under torch.onnx's OpRecorder; "
        "the recorded ir.Model is serialised and run on onnxruntime (optimisations off, in a crash-isolated child process); onnx.reference is "
        "the cross-check (an ORT-vs-reference split is a counted skip, never a violation; if ORT cannot run a model that strict ONNX "
        "inference accepts, the reference evaluator alone decides). Oracle = torch eager on the same normalised call: same output "
        "structure, dtype, shape, values within f16 1e-2 / f32 1e-4 rel + 1e-5*scale abs / f64 1e-7 (precision of the coarsest floating "
        "input; normalisations get the 1/sqrt(eps) conditioning factor), ints and bools exact, NaN/inf positions equal. Non-trivial = the "
        "call hits >=1 edge class (size-0 dim, rank 0, broadcast, negative dim, python scalar operand, non-default attribute); distinct by "
        "(overload, argument signature without tensor data). Buckets: '<canonical qualified op>:<kind>:<key>', kind in {raises_during_trace, "
        "ort_cannot_run, dtype, shape, values, structure}; key = exception@frame / failing ONNX op + message / dtype pair, or for "
        "shape|values|structure the first argument class that always fails on that overload (else 'other'). Thorough tier adds random "
        "2-5 step nn.Modules composed of covered ops exported with torch.onnx.export(dynamo=True) and compared with the module "
        "(failing programs are reduced by dropping steps).")
ASSUMPTIONS = ["torch eager (CPU) defines the expected result of an ATen call",
               "onnxruntime CPU (optimisations off) and onnx.reference implement ONNX semantics; NOT_IMPLEMENTED kernels are skips",
               "torch.onnx._internal.exporter (_building.OpRecorder, _core argument conversion, fx type-promotion rules) is the binding model",
               "the function's type annotations (OpSignature type constraints) delimit its declared dtype domain"]
FLOOR = {"quick": 3000, "thorough": 30000}
TIMEOUT = {"quick": 900, "thorough": 4 * 3600}
SHARDS = 16

# Development aid: regions named "<qualified op>" or "<qualified op>|<class>" are not evaluated (draws falling into them are counted
# with col.exclude); empty in the registered check - recorded findings are attributed through REGIONS instead.
EXCLUDE: set = set()


def covered_ops():
    from vf import torchlib as tl

    return sorted(tl.OPS)


def plan(tier, seed, budget):
    ops = covered_ops()
    only = os.environ.get("VERIF_ONLY")
    if only:
        ops = [q for q in ops if re.search(only, q)]
    per_op = max(5, int((110 if tier == "quick" else 2500) * budget))
    specs = []
    for i in range(SHARDS):
        mine = ops[i::SHARDS]
        if mine or i == 0:
            specs.append({"ops": mine, "n": per_op, "report_uncovered": i == 0, "modules": 0})
    if tier == "thorough" and not only:
        n_mod = max(2, int(40 * budget))
        for i in range(SHARDS):
            specs.append({"ops": [], "n": 0, "report_uncovered": False, "modules": n_mod})
    return specs


def _op_seed(seed, q):
    return int.from_bytes(hashlib.sha256(f"{seed}:{q}".encode()).digest()[:8], "big") >> 1


def root_key(tl, res, classes=None):
    """Root-cause key taken from the failure itself for the kinds where the message says what broke (None otherwise)."""
    kind, detail = res["verdicts"][0]
    if kind == "raises_during_trace":
        m = re.match(r"(\w+): .* @ (\S+)$", detail, re.S)
        return f"{m.group(1)}@{m.group(2)}" if m else detail.split(":")[0]
    if kind == "ort_cannot_run":
        m = re.search(r"Op \((\w+)\)|running (\w+) node|Optype \((\w+)\)", detail)
        opn = next((x for x in (m.groups() if m else ()) if x), "load")
        msg = detail.split("Status Message:")[-1] if "Status Message:" in detail else detail.split("] : ")[-1]
        msg = re.sub(r"/\S+|\d+|'[^']*'|\([^)]*\)", "", msg.split("|")[0])
        return opn + ":" + re.sub(r"[^A-Za-z]+", "_", msg).strip("_")[:40]
    if kind == "dtype":
        m = re.search(r"torch (\w+) vs onnx (\w+)", detail)
        if not m:
            return "?"
        cat = lambda n: re.sub(r"\d+", "", n)  # noqa: E731   float32 -> float, int64 -> int, uint8 -> uint
        a, b = m.group(1), m.group(2)
        pair = f"{a}->{b}" if cat(a) == cat(b) else f"{cat(a)}->{cat(b)}"
        return "dtype_arg" if "attr:dtype" in (classes or ()) else pair
    return None


LABEL_CLASSES = ("int_div", "int_mod", "float_to_int", "bool_index", "negative_pad", "dim_none", "dim_empty", "minus1", "mixed_dtype",
                 "scalar_for_tensor", "size0", "rank0", "negdim_full", "negdim", "none_arg", "scalar_bool", "scalar_float", "scalar_int",
                 "broadcast", "kind:bool", "kind:uint", "kind:int", "kind:float")


def label_classes(classes):
    out = [c for c in classes if c in LABEL_CLASSES]
    dt = next((c[3:] for c in classes if c.startswith("dt:")), "")
    if dt:
        out.append("kind:" + ("float" if dt.startswith("float") else "bool" if dt == "bool" else "uint" if dt.startswith("uint") else "int"))
    out += [c for c in classes if c.startswith("attr:")]
    return out


def bucket_of(tl, res, classes, label=None):
    info = res["info"]
    canon = info.get("canonical") or info.get("op_effective") or info["op"]
    kind = res["verdicts"][0][0]
    key = root_key(tl, res, classes)
    if key is None:
        key = label if label is not None else tl.arg_class(classes).split("+")[0]
        if res.get("ref_only"):
            key += ":ref_only"
    return f"{canon}:{kind}:{key}"


def evaluate(tl, case):
    """Run the oracle on one JSON case.  Returns (result dict, classes, key)."""
    args, kwargs = tl.decode_case(case)
    res = tl.run_call(case["op"], args, kwargs, check_values=not case.get("no_values"), tol_scale=float(case.get("tol_scale", 1.0)))
    classes = list(case.get("tags", []))
    try:
        reg = tl.registry()
        ov = reg[case["op"]].overload
        ov2, a2, k2, _ = tl.normalise(ov, args, kwargs)
        classes = tl.classify(ov2, a2, k2, case.get("tags", []))
    except Exception:  # noqa: BLE001   (promotion rule rejects the call: classes of the raw call)
        try:
            classes = tl.classify(tl.registry()[case["op"]].overload, args, kwargs, case.get("tags", []))
        except Exception:  # noqa: BLE001
            pass
    return res, classes


def run_shard(spec):
    from vf import torchlib as tl

    col = Collector()
    reg = tl.registry()
    if spec.get("report_uncovered"):
        unc = sorted(q for q, e in reg.items() if q not in tl.OPS and e.overload is not None)
        col.extra["uncovered_overloads"] = unc
        col.extra["uncovered_count"] = len(unc)
        col.extra["registered_real_overloads"] = len([q for q, e in reg.items() if e.overload is not None])
        col.extra["unresolvable_names"] = sorted(q for q, e in reg.items() if e.overload is None)
    per_op = {}
    notes = {}
    for q in spec["ops"]:
        if q not in reg or reg[q].overload is None:
            col.skip("not_registered:" + q)
            continue
        fam = tl.family_of(q)
        seen = {}       # label class -> number of in-domain cases carrying it
        failed = {}     # (kind, label class) -> number of those that failed with this kind
        viols = []      # (size, res, classes, stored case)
        n_in = [0]

        def body(case, q=q, fam=fam, seen=seen, failed=failed, viols=viols, n_in=n_in):
            if EXCLUDE:
                if q in EXCLUDE:
                    col.exclude(q)
                    return
                hit = [e for e in EXCLUDE if e.startswith(q + "|") and e.split("|", 1)[1] in case.get("tags", [])]
                if hit:
                    col.exclude(hit[0])
                    return
            res, classes = evaluate(tl, case)
            st_ = res["status"]
            if st_.startswith("skip:"):
                why = st_[5:]
                col.skip(why)
                if why in ("declared_unsupported", "runtime_split_ort_vs_reference", "ort_fails_reference_agrees", "runtime_crashed"):
                    lst = notes.setdefault(why, [])
                    if len(lst) < 3:
                        lst.append({"call": res["info"].get("call"), "note": res["info"].get(why) or res["info"].get("runtime_split") or res["info"].get("ort_error")})
                return
            n_in[0] += 1
            edge = [c for c in classes if c in tl.EDGE]
            nodes = res["info"].get("nodes", 0)
            hist = ["family:" + fam] + [c for c in classes if not c.startswith("attr:")] + ["nodes:" + ("1" if nodes <= 1 else "2-5" if nodes <= 5 else "6+")]
            if res["info"].get("promoted"):
                hist.append("type_promoted")
            col.case(tl.case_key(case), bool(edge), hist, sample={"call": res["info"].get("call"), "classes": classes, "torch": res["info"].get("expected")})
            lc = label_classes(classes)
            for c in lc:
                seen[c] = seen.get(c, 0) + 1
            if st_ == "violation":
                kind = res["verdicts"][0][0]
                for c in lc:
                    failed[(kind, c)] = failed.get((kind, c), 0) + 1
                stored = dict(case)
                stored["classes"] = classes
                stored["canonical"] = res["info"].get("canonical")
                stored["call"] = res["info"].get("call")
                viols.append((tl.case_size(case), res, classes, stored))

        per = max(3, spec["n"] // tl.STRATA)
        for k in range(tl.STRATA):
            drive(tl.cases(q, k), body, per, _op_seed(spec["seed"], f"{q}#{k}"))
        per_op[q] = n_in[0]
        # label = the first class (priority order) that always fails with this kind on this overload (>=3 cases), else "other"
        for size, res, classes, stored in sorted(viols, key=lambda v: v[0]):
            kind = res["verdicts"][0][0]
            lc = label_classes(classes)
            label = next((c for c in list(LABEL_CLASSES) + [x for x in lc if x.startswith("attr:")]
                          if c in lc and seen.get(c, 0) >= 3 and failed.get((kind, c), 0) == seen[c]), "other")
            stored["label"] = label
            col.violation(bucket_of(tl, res, classes, label), f"{res['info'].get('call')}  =>  {res['verdicts'][0][1]}", stored, size=size)
    col.extra["evaluated_per_overload_min"] = {}
    low = sorted(q for q, n in per_op.items() if n < max(3, spec["n"] // 10))
    col.extra["overloads_covered"] = len(per_op)
    col.extra["overloads_with_few_in_domain_cases"] = low
    col.extra["skip_samples"] = [{k: v} for k, v in sorted(notes.items())]
    if spec.get("modules"):
        from vf import torchlib as tl2

        if hasattr(tl2, "run_modules"):
            tl2.run_modules(col, spec["modules"], spec["seed"])
    return col.result()


def finalize(merged, tier):
    merged["extra"].pop("evaluated_per_overload_min", None)


def replay(case):
    from vf import torchlib as tl

    if case.get("kind") == "module":
        return tl.replay_module(case)
    res, classes = evaluate(tl, case)
    if res["status"] != "violation":
        return []
    return [(bucket_of(tl, res, classes, case.get("label")), f"{res['info'].get('call')}  =>  {res['verdicts'][0][1]}")]


class _Regions(dict):
    """Region names are small predicates over a stored case: 'op=<qualified name>[;class=<c1>,<c2>...]' holds when the case's op
    (as generated, after promotion, or its canonical alias) equals the name and every listed class is among the case's classes."""

    def get(self, name, default=None):
        if not name or not isinstance(name, str) or not name.startswith("op="):
            return default
        parts = dict(p.split("=", 1) for p in name.split(";") if "=" in p)
        op = parts.get("op")
        need = [c for c in parts.get("class", "").split(",") if c]

        def pred(case):
            if case.get("kind") == "module":
                return op in case.get("ops", [])
            if op not in (case.get("op"), case.get("canonical")) and not (case.get("call") or "").startswith(op + "("):
                return False
            return all(c in case.get("classes", []) for c in need)

        return pred


REGIONS = _Regions()
