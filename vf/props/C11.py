"""C11 - tensor indexing and slicing mean what they mean in NumPy."""
from __future__ import annotations

import itertools

import numpy as np

from vf import execs, scriptgen
from vf.hyp import drive, st
from vf.runner import Collector

ID = "C11"
EARLY_ATTRIBUTION = True  # region predicates are cheap scans of the stored case
LEVEL = "exploration"
RULE = ("Index tuples of length <= rank over components: ints in [-4,3], ':', slices with start/stop in {None,-5..5} and step in "
        "{None,1,2,-1,-2}, scalar tensor indices (i, i+1:i+2, i:i+j) and 1-D tensor indices; each expression is translated once "
        "(batched 12 per script function; failing batches are re-run one by one) and evaluated on every compatible shape of rank 1..3 "
        "with dims 1..4. Rank 1 is exhaustive over the full component set; ranks 2-3 use Hypothesis draws over the full set (quick) "
        "plus the exhaustive reduced set for rank 2 (thorough). Oracle: numpy X[idx]; graph route (onnxruntime and onnx.reference) "
        "and eager route must each return numpy's shape and elements or fail with an error; forms listed as supported in the "
        "converter docstring must not fail. Non-trivial = negative int, negative step, omitted bound with negative step, int+slice "
        "mix, or tensor index; distinct by (expression, shape).")
ASSUMPTIONS = ["numpy basic indexing defines the expected result; numpy IndexError cases are outside the domain",
               "onnxruntime and onnx.reference execute Slice/Gather/Squeeze per the ONNX spec; if they disagree on the same translated model the case is a runtime split, not a violation"]
FLOOR = {"quick": 1000, "thorough": 20000}
TIMEOUT = {"quick": 1500, "thorough": 5 * 3600}
BATCH = 12

INTS = list(range(-4, 4))
BOUNDS = [None] + list(range(-5, 6))
STEPS = [None, 1, 2, -1, -2]
RB = [None, -5, -1, 0, 1, 4, 5]  # reduced bound set for ranks 2-3


def slice_txt(a, b, s):
    t = ("" if a is None else str(a)) + ":" + ("" if b is None else str(b))
    if s is not None:
        t += ":" + str(s)
    return t


def full_components():
    comps = [("int", i) for i in INTS]
    comps += [("slice", a, b, s) for a in BOUNDS for b in BOUNDS for s in STEPS]
    return comps


def reduced_components():
    comps = [("int", i) for i in INTS]
    comps += [("slice", a, b, s) for a in RB for b in RB for s in STEPS]
    return comps


TENSOR_COMPS = [("tscalar", "i"), ("tslice", "i", "i + 1", None), ("tslice", "i", "i + j", None), ("tslice", "i + 1", "i + 2", None),
                ("tscalar", "k"), ("tvec", "v")]


def comp_txt(c):
    if c[0] == "int":
        return str(c[1])
    if c[0] == "slice":
        return slice_txt(c[1], c[2], c[3])
    if c[0] == "tscalar":
        return c[1]
    if c[0] == "tslice":
        return f"{c[1]}:{c[2]}"
    if c[0] == "tvec":
        return c[1]
    raise ValueError(c)


def expr_txt(comps):
    return ", ".join(comp_txt(c) for c in comps)


def out_rank(rank, comps):
    return rank - sum(1 for c in comps if c[0] in ("int", "tscalar"))


def comp_tags(c, d):
    """Root-cause class of one component relative to dim size d."""
    if c[0] == "int":
        return "int<0" if c[1] < 0 else "int>=0"
    if c[0] == "slice":
        _, a, b, s = c
        if a is None and b is None and s is None:
            return "full"
        neg = s is not None and s < 0

        def cls(x):
            if x is None:
                return "none"
            if x < -d:
                return "lt-d"
            if x < 0:
                return "neg"
            if x >= d:
                return "ge_d"
            return "ok"

        return f"slice(step{'<0' if neg else '>0'}{'' if s in (None, 1, -1) else '*2'},start={cls(a)},stop={cls(b)})"
    return c[0]


SUPPORTED_DOC = {"A[:, 1]": (":", "1"), }


def is_doc_supported(comps):
    """Forms the converter docstring lists as supported (an error is not accepted for them)."""
    t = [comp_txt(c).replace(" ", "") for c in comps]
    doc = [[":", "1"], [":2", "0"], [":2", ":1"], ["2:0:-1"], ["1:"], [":2"], ["1:-1"], ["1:2"], ["-1"], ["0"], [":0:-1"], ["i"], ["i+1:i+2"], ["i:i+j", "k"]]
    return t in doc


# ----------------------------------------------------------------------------- evaluation
def build_source(rank, batch):
    ann = "FLOAT" if rank == 0 else f"FLOAT[{', '.join(['None'] * rank)}]"
    rets = []
    lines = []
    for n, comps in enumerate(batch):
        r = out_rank(rank, comps)
        if any(c[0] == "tvec" for c in comps):
            r = out_rank(rank, comps)
        rets.append("FLOAT" if r == 0 else f"FLOAT[{', '.join(['None'] * r)}]")
        lines.append(f"    r{n} = A[{expr_txt(comps)}]")
    ret = rets[0] if len(rets) == 1 else "(" + ", ".join(rets) + ")"
    src = f"@script(default_opset=op)\ndef f(A: {ann}, i: INT64, j: INT64, k: INT64, v: INT64[None]) -> {ret}:\n"
    src += "\n".join(lines) + "\n    return " + ", ".join(f"r{n}" for n in range(len(batch))) + "\n"
    return src


def numpy_expected(A, comps, tv):
    idx = []
    for c in comps:
        if c[0] == "int":
            idx.append(c[1])
        elif c[0] == "slice":
            idx.append(slice(c[1], c[2], c[3]))
        elif c[0] == "tscalar":
            idx.append(int(tv[c[1]]))
        elif c[0] == "tslice":
            idx.append(slice(int(eval(c[1], {}, {k: int(v) for k, v in tv.items() if np.ndim(v) == 0})),  # noqa: S307
                             int(eval(c[2], {}, {k: int(v) for k, v in tv.items() if np.ndim(v) == 0}))))  # noqa: S307
        elif c[0] == "tvec":
            idx.append(np.asarray(tv[c[1]]))
    try:
        return np.asarray(A[tuple(idx)])
    except IndexError:
        return None


def same(a, b):
    a, b = np.asarray(a), np.asarray(b)
    return a.shape == b.shape and a.dtype == b.dtype and np.array_equal(a, b)


def tensor_values(shape, comps):
    """Values for the tensor-valued index variables, valid for the axes they index."""
    tv = {"i": np.asarray(0, dtype=np.int64), "j": np.asarray(1, dtype=np.int64), "k": np.asarray(0, dtype=np.int64), "v": np.asarray([0], dtype=np.int64)}
    for ax, c in enumerate(comps):
        d = shape[ax]
        if c[0] == "tscalar":
            tv[c[1]] = np.asarray((d - 1) if c[1] == "i" else (-1 if d > 1 else 0), dtype=np.int64)
        elif c[0] == "tslice":
            tv["i"] = np.asarray(max(0, d - 2), dtype=np.int64)
            tv["j"] = np.asarray(2, dtype=np.int64)
        elif c[0] == "tvec":
            tv["v"] = np.asarray([d - 1, 0, -1][: max(1, min(3, d))], dtype=np.int64)
    return tv


def run_batch(rank, batch, shapes, col, results):
    """Translate one batch and evaluate on each shape.  results: list of per (expr, shape) outcome dicts."""
    src = build_source(rank, batch)
    try:
        mod = scriptgen.compile_source(src, 18)
    except Exception as e:  # noqa: BLE001
        if len(batch) > 1:
            for comps in batch:
                run_batch(rank, [comps], shapes, col, results)
            return
        for shape in shapes:
            results.append({"comps": batch[0], "shape": shape, "translate_error": f"{type(e).__name__}: {str(e)[:120]}"})
        return
    try:
        fn = mod.f
        try:
            model = fn.to_model_proto()
            sess = execs.ort_session(model)
            ev = execs.ref_evaluator(model)
        except Exception as e:  # noqa: BLE001
            if len(batch) > 1:
                for comps in batch:
                    run_batch(rank, [comps], shapes, col, results)
                return
            for shape in shapes:
                results.append({"comps": batch[0], "shape": shape, "graph": ("err", str(e)[:100]), "eager": ("skipped",)})
            return
        for shape in shapes:
            A = np.arange(int(np.prod(shape)), dtype=np.float32).reshape(shape) + 1
            # tensor-valued variables depend on the expression: evaluate batch only if all share values
            tvs = [tensor_values(shape, comps) for comps in batch]
            groups = {}
            for n, tv in enumerate(tvs):
                groups.setdefault(tuple((k, tuple(np.ravel(v).tolist())) for k, v in sorted(tv.items())), []).append(n)
            for key, members in groups.items():
                tv = tvs[members[0]]
                feeds = {"A": A, **tv}
                a = execs.run_ort(None, feeds, sess)
                b = execs.run_ref(None, feeds, ev)
                try:
                    with np.errstate(all="ignore"):
                        e = fn(A, tv["i"], tv["j"], tv["k"], tv["v"])
                    e = ("ok", [np.asarray(x) for x in (e if isinstance(e, tuple) else (e,))])
                except Exception as ex:  # noqa: BLE001
                    e = ("err", f"{type(ex).__name__}: {str(ex)[:100]}")
                if len(batch) > 1 and (a[0] != "ok" or b[0] != "ok" or e[0] != "ok"):
                    for n in members:
                        run_batch(rank, [batch[n]], [shape], col, results)
                    continue
                for n in members:
                    results.append({"comps": batch[n], "shape": shape, "tv": {k: np.ravel(v).tolist() for k, v in tv.items()},
                                    "expected": numpy_expected(A, batch[n], tv),
                                    "ort": ("ok", a[1][n]) if a[0] == "ok" else a, "ref": ("ok", b[1][n]) if b[0] == "ok" else b,
                                    "eager": ("ok", e[1][n]) if e[0] == "ok" else e})
    finally:
        scriptgen.release(mod)


def judge(r):
    """Returns list of (bucket, detail) for one (expression, shape) outcome."""
    comps, shape = r["comps"], r["shape"]
    tags = "|".join(comp_tags(c, shape[ax]) for ax, c in enumerate(comps))
    txt = f"A[{expr_txt(comps)}] on shape {list(shape)}"
    out = []
    if "translate_error" in r:
        if is_doc_supported(comps):
            out.append((f"supported_form_refused:{tags}", f"{txt}: {r['translate_error']}"))
        return out, "translate_error"
    exp = r.get("expected")
    if exp is None:
        return out, "numpy_error"
    vals = [(n, r[n][1]) for n in ("ort", "ref") if r[n][0] == "ok"]
    good = [n for n, v in vals if same(v, exp)]
    bad = [(n, v) for n, v in vals if not same(v, exp)]
    status = "equal"
    if bad and not good:
        n, v = bad[0]
        out.append((f"graph_different_tensor:{tags}", f"{txt} tv={r.get('tv')}: numpy {exp.shape}{np.ravel(exp)[:6].tolist()} vs {n} {np.asarray(v).shape}{np.ravel(v)[:6].tolist()}"))
        status = "graph_different"
    elif bad and good:
        status = "runtime_split"
    elif not vals:
        status = "graph_error"
        if is_doc_supported(comps):
            out.append((f"supported_form_fails_graph:{tags}", f"{txt}: ort {r['ort'][1]} | ref {r['ref'][1]}"))
    e = r["eager"]
    if e[0] == "ok":
        if not same(e[1], exp):
            out.append((f"eager_different_tensor:{tags}", f"{txt} tv={r.get('tv')}: numpy {exp.shape}{np.ravel(exp)[:6].tolist()} vs eager {np.asarray(e[1]).shape}{np.ravel(e[1])[:6].tolist()}"))
            status += "+eager_different"
    elif e[0] == "err":
        status += "+eager_error"
        if is_doc_supported(comps):
            out.append((f"supported_form_fails_eager:{tags}", f"{txt}: {e[1]}"))
    return out, status


def nontrivial(comps):
    kinds = {c[0] for c in comps}
    if kinds & {"tscalar", "tslice", "tvec"}:
        return True
    if "int" in kinds and "slice" in kinds:
        return True
    for c in comps:
        if c[0] == "int" and c[1] < 0:
            return True
        if c[0] == "slice" and c[3] is not None and c[3] < 0:
            return True
    return False


def shapes_for(rank, tier):
    if rank == 1:
        return [(d,) for d in (1, 2, 3, 4)]
    if rank == 2:
        return [(4, 3), (1, 4), (3, 1), (2, 2)] if tier == "thorough" else [(4, 3), (1, 2)]
    return [(2, 3, 4), (4, 1, 2)] if tier == "thorough" else [(2, 3, 4)]


def process(rank, exprs, tier, col):
    shapes = shapes_for(rank, tier)
    for k in range(0, len(exprs), BATCH):
        batch = exprs[k:k + BATCH]
        results = []
        run_batch(rank, batch, shapes, col, results)
        for r in results:
            verdicts, status = judge(r)
            comps, shape = r["comps"], r["shape"]
            key = (expr_txt(comps), tuple(shape))
            col.case(key, nontrivial(comps), ["rank%d" % rank, "status:" + status],
                     sample={"expr": f"A[{expr_txt(comps)}]", "shape": list(shape), "status": status})
            for bucket, detail in verdicts:
                col.violation(bucket, detail, {"rank": rank, "comps": [list(c) for c in comps], "shape": list(shape)}, size=len(expr_txt(comps)))


def plan(tier, seed, budget):
    specs = []
    full = full_components()
    # rank 1: exhaustive over the full component set (+ tensor forms)
    r1 = [[c] for c in full] + [[c] for c in TENSOR_COMPS]
    nsh = 12
    for s in range(nsh):
        specs.append({"kind": "enum", "rank": 1, "exprs": r1[s::nsh]})
    if tier == "thorough":
        red = reduced_components()
        r2 = [[a, b] for a in red for b in red]
        nsh2 = 48
        for s in range(nsh2):
            specs.append({"kind": "enum", "rank": 2, "exprs": r2[s::nsh2]})
    n = int((1200 if tier == "quick" else 30000) * budget)
    for s in range(4 if tier == "quick" else 16):
        specs.append({"kind": "hyp", "n": max(1, n // (4 if tier == "quick" else 16) // BATCH)})
    return specs


def comp_strategy():
    sl = st.tuples(st.just("slice"), st.sampled_from(BOUNDS), st.sampled_from(BOUNDS), st.sampled_from(STEPS))
    return st.one_of(st.tuples(st.just("int"), st.sampled_from(INTS)), sl, sl, st.just(("slice", None, None, None)), st.sampled_from(TENSOR_COMPS))


def run_shard(spec):
    col = Collector()
    if spec["kind"] == "enum":
        exprs = [[tuple(c) for c in e] for e in spec["exprs"]]
        process(spec["rank"], exprs, spec["tier"], col)
        col.extra["rank%d_enumerated" % spec["rank"]] = len(exprs)
        return col.result()

    def body(case):
        rank, batch = case
        exprs = []
        for comps in batch:
            comps = [tuple(c) for c in comps][:rank]
            # at most one use of the tensor-slice idiom per expression (they share i, j)
            if sum(1 for c in comps if c[0] in ("tslice", "tscalar", "tvec")) > 1:
                comps = [c if c[0] in ("int", "slice") else ("slice", None, None, None) for c in comps[:-1]] + [comps[-1]]
            exprs.append(comps)
        process(rank, exprs, spec["tier"], col)

    strat = st.sampled_from([2, 2, 3]).flatmap(lambda r: st.tuples(st.just(r), st.lists(st.lists(comp_strategy(), min_size=1, max_size=r), min_size=BATCH, max_size=BATCH)))
    drive(strat, body, spec["n"], spec["seed"])
    return col.result()


def finalize(merged, tier):
    merged["extra"]["rank1_exhaustive"] = merged["extra"].get("rank1_enumerated", 0) == len(full_components()) + len(TENSOR_COMPS)


def replay(case):
    comps = [tuple(c) for c in case["comps"]]
    col = Collector()
    results = []
    run_batch(case["rank"], [comps], [tuple(case["shape"])], col, results)
    out = []
    for r in results:
        v, _ = judge(r)
        out += v
    return out


def _region_negstep_start_below(case):
    """slice with negative step and start < -d (numpy: empty/clamped below; emitted Slice clamps start to 0)."""
    for ax, c in enumerate(case["comps"]):
        if c[0] == "slice" and c[3] is not None and c[3] < 0 and c[1] is not None and c[1] < -case["shape"][ax]:
            return True
    return False


def _region_advanced_separated(case):
    """An integer (or tensor scalar) index and a 1-D tensor index with a slice between them: NumPy treats both as advanced indices that are
    not adjacent and moves the broadcast dimension to the FRONT of the result; the translation indexes axis by axis (outer indexing)."""
    kinds = [c[0] for c in case["comps"]]
    adv = [i for i, k in enumerate(kinds) if k in ("int", "tscalar", "tvec")]
    if not any(kinds[i] == "tvec" for i in adv) or len(adv) < 2:
        return False
    return any(kinds[j] in ("slice", "tslice") for a, b in zip(adv, adv[1:]) for j in range(a + 1, b))


REGIONS = {"negstep_start_below_minus_d": _region_negstep_start_below, "advanced_indices_separated_by_slice": _region_advanced_separated}
