"""C15 - a ModelProto and an IR model are treated alike, and nothing untouched is lost."""
from __future__ import annotations

import copy

import numpy as np
import onnx
from onnx import TensorProto, helper, numpy_helper

from vf import modelgen, optcommon, wellformed
from vf.hyp import drive, st
from vf.runner import Collector

ID = "C15"
EARLY_ATTRIBUTION = True  # region predicates are cheap scans of the stored case
LEVEL = "exploration"
RULE = ("Hypothesis-generated valid models (vf/modelgen) decorated with ir_version/producer/domain/model_version, doc strings on model, "
        "graph, nodes, functions and values, metadata_props on every carrier, extra opset imports, used and unused model-local functions, "
        "value_info, and initializers of every element type onnx-ir knows (float16/bfloat16/float8*/int4/uint4/complex/string/bool, NaN "
        "payloads, -0.0, subnormals, zero-size, scalars, raw vs typed storage); x API f in {optimize, rewrite(default|[]|None), "
        "fold_constants, remove_unused_nodes, remove_unused_functions, convert_version, replace_functions}. Oracles: (1) proto(f)(M) "
        "field-equal to serialize(ir(f)(deserialize(M))); (2) with N = serialize o deserialize, fields f has no reason to touch are equal in "
        "N(M) and f(M) (model metadata, surviving nodes' doc/metadata, imports of used domains, surviving functions' headers, surviving "
        "initializer bytes); (3) M included field-wise in N(M) and N(N(M)) = N(M); (4) in-place variants mutate their argument, functional "
        "ones leave a deep copy of it equal. Non-trivial = >=3 kinds of decoration or an exotic tensor; distinct by (model hash, api).")
ASSUMPTIONS = ["protobuf field semantics (ListFields / defaults)", "TensorProto payloads are compared by content bytes (numpy_helper.to_array, bit patterns), "
               "since raw vs typed storage is a representation choice", "serde lives in the onnx_ir wheel (outside /repo); only the wrappers in /repo can be mutated"]
FLOOR = {"quick": 300, "thorough": 5000}
TIMEOUT = {"quick": 1200, "thorough": 4 * 3600}

APIS = ["optimize", "rewrite_default", "rewrite_empty", "rewrite_none", "fold_constants", "remove_unused_nodes", "remove_unused_functions",
        "convert_version", "replace_functions", "serde_only"]


def plan(tier, seed, budget):
    n = int((2400 if tier == "quick" else 100000) * budget)
    shards = 16 if tier == "quick" else 64
    return [{"n": max(1, n // shards)} for _ in range(shards)]


# ----------------------------------------------------------------------------- decoration
EXOTIC = ["FLOAT16", "BFLOAT16", "FLOAT8E4M3FN", "FLOAT8E5M2", "FLOAT8E4M3FNUZ", "FLOAT8E5M2FNUZ", "INT4", "UINT4", "COMPLEX64", "COMPLEX128",
          "STRING", "BOOL", "UINT8", "INT8", "UINT16", "INT16", "UINT32", "UINT64", "DOUBLE", "FLOAT_NAN", "FLOAT_NEGZERO", "FLOAT_SUBNORMAL",
          "ZERO_SIZE", "TYPED_FLOAT", "TYPED_INT64", "TYPED_INT32"]


def exotic_tensor(kind, name, seed):
    rng = np.random.default_rng(seed)
    if kind in ("FLOAT16", "DOUBLE", "UINT8", "INT8", "UINT16", "INT16", "UINT32", "UINT64", "BOOL"):
        dt = {"FLOAT16": np.float16, "DOUBLE": np.float64, "UINT8": np.uint8, "INT8": np.int8, "UINT16": np.uint16, "INT16": np.int16,
              "UINT32": np.uint32, "UINT64": np.uint64, "BOOL": np.bool_}[kind]
        return numpy_helper.from_array(rng.integers(0, 2, size=(2, 3)).astype(dt), name)
    if kind in ("BFLOAT16", "FLOAT8E4M3FN", "FLOAT8E5M2", "FLOAT8E4M3FNUZ", "FLOAT8E5M2FNUZ"):
        et = getattr(TensorProto, kind)
        vals = rng.integers(0, 256 if kind != "BFLOAT16" else 65536, size=4)
        if kind == "BFLOAT16":
            return helper.make_tensor(name, et, [4], np.asarray(vals, dtype=np.uint16).tobytes(), raw=True)
        return helper.make_tensor(name, et, [4], np.asarray(vals, dtype=np.uint8).tobytes(), raw=True)
    if kind in ("INT4", "UINT4"):
        et = getattr(TensorProto, kind)
        n = int(rng.integers(1, 6))
        raw = np.asarray(rng.integers(0, 256, size=(n + 1) // 2), dtype=np.uint8)
        if n % 2:
            raw[-1] &= 0x0F  # padding nibble zero
        return helper.make_tensor(name, et, [n], raw.tobytes(), raw=True)
    if kind in ("COMPLEX64", "COMPLEX128"):
        dt = np.complex64 if kind == "COMPLEX64" else np.complex128
        return numpy_helper.from_array((rng.normal(size=3) + 1j * rng.normal(size=3)).astype(dt), name)
    if kind == "STRING":
        return helper.make_tensor(name, TensorProto.STRING, [2], [b"a\xffb", "hé".encode()])
    if kind == "FLOAT_NAN":
        bits = np.asarray([0x7FC00001, 0xFFC12345, 0x7F800001, 0x7FC00000], dtype=np.uint32)
        return helper.make_tensor(name, TensorProto.FLOAT, [4], bits.tobytes(), raw=True)
    if kind == "FLOAT_NEGZERO":
        return numpy_helper.from_array(np.asarray([-0.0, 0.0, -0.0], dtype=np.float32), name)
    if kind == "FLOAT_SUBNORMAL":
        return numpy_helper.from_array(np.asarray([1e-45, -1e-45, 1e-40], dtype=np.float32), name)
    if kind == "ZERO_SIZE":
        return numpy_helper.from_array(np.zeros((0, 3), dtype=np.float32), name)
    if kind == "TYPED_FLOAT":
        return helper.make_tensor(name, TensorProto.FLOAT, [3], [1.5, -0.0, 3.25])
    if kind == "TYPED_INT64":
        return helper.make_tensor(name, TensorProto.INT64, [2], [2**40, -7])
    if kind == "TYPED_INT32":
        return helper.make_tensor(name, TensorProto.INT32, [], [5])
    raise ValueError(kind)


def decorate(model, draw):
    m = onnx.ModelProto()
    m.CopyFrom(model)
    kinds = []

    def chance(k):
        return draw(st.integers(0, 9)) < k

    def meta(container, tag):
        e = container.add()
        e.key, e.value = f"verif.{tag}", f"value of {tag}"

    if chance(6):
        m.producer_name, m.producer_version, m.domain, m.model_version = "verif-producer", "1.2.3", "verif.models", draw(st.integers(1, 99))
        kinds.append("producer")
    if chance(5):
        m.doc_string = "model doc"
        m.graph.doc_string = "graph doc"
        kinds.append("doc")
    if chance(5):
        meta(m.metadata_props, "model")
        kinds.append("model_meta")
    if chance(5) and hasattr(m.graph, "metadata_props"):
        meta(m.graph.metadata_props, "graph")
        kinds.append("graph_meta")
    if chance(6):
        for i, n in enumerate(m.graph.node):
            if draw(st.booleans()):
                n.doc_string = f"node doc {i}"
                n.name = f"node_{i}"
                meta(n.metadata_props, f"node{i}")
        kinds.append("node_meta")
    if chance(4):
        m.opset_import.append(helper.make_opsetid("unused.domain", 3))
        kinds.append("extra_opset")
    if chance(4):
        f = helper.make_function("verif.unused", "Unused", ["x"], ["y"], [helper.make_node("Neg", ["x"], ["y"])], [helper.make_opsetid("", 18)])
        f.doc_string = "unused function"
        m.functions.append(f)
        if not any(o.domain == "verif.unused" for o in m.opset_import):
            m.opset_import.append(helper.make_opsetid("verif.unused", 1))
        kinds.append("unused_function")
    for k, f in enumerate(m.functions):
        if chance(4) and len(f.input):
            # a dead node inside a model-local function (cleaned by remove_unused_nodes / optimize in both entry forms alike)
            f.node.append(helper.make_node("Identity", [f.input[0]], [f"verif_dead_{k}"]))
            if "function_dead_node" not in kinds:
                kinds.append("function_dead_node")
    for f in m.functions:
        if chance(5):
            f.doc_string = f.doc_string or "function doc"
            meta(f.metadata_props, "function")
            if "function_meta" not in kinds:
                kinds.append("function_meta")
    if chance(5):
        for vi in list(m.graph.value_info)[:3] + list(m.graph.input)[:1] + list(m.graph.output)[:1]:
            vi.doc_string = "value doc"
            meta(vi.metadata_props, "value")
        kinds.append("value_meta")
    n_ex = draw(st.integers(0, 3))
    exotic = []
    for j in range(n_ex):
        k = draw(st.sampled_from(EXOTIC))
        t = exotic_tensor(k, f"exotic_{j}_{k.lower()}", draw(st.integers(0, 2**31 - 1)))
        if draw(st.booleans()):
            t.doc_string = "tensor doc"
        m.graph.initializer.append(t)
        # keep it alive: feed an Identity whose output is a graph output (when a runtime type exists), else leave unused
        if draw(st.booleans()) and k not in ("INT4", "UINT4"):
            out = f"exotic_out_{j}"
            m.graph.node.append(helper.make_node("Identity", [t.name], [out]))
            vi = m.graph.output.add()
            vi.name = out
            vi.type.tensor_type.elem_type = t.data_type
            for d in t.dims:
                vi.type.tensor_type.shape.dim.add().dim_value = d
            if not t.dims:
                vi.type.tensor_type.shape.SetInParent()
            exotic.append(k + ":used")
        else:
            exotic.append(k + ":unused")
    return m, kinds, exotic


# ----------------------------------------------------------------------------- comparators
def tensor_content(t):
    """Content of a TensorProto independent of raw/typed storage: (dtype, dims, bytes)."""
    if t.data_location == TensorProto.EXTERNAL:
        return ("external", tuple(t.dims), tuple((e.key, e.value) for e in t.external_data))
    if t.data_type == TensorProto.STRING:
        return ("string", tuple(t.dims), tuple(bytes(s) for s in t.string_data))
    try:
        a = numpy_helper.to_array(t)
        return (t.data_type, tuple(t.dims), np.ascontiguousarray(a).tobytes())
    except Exception:  # noqa: BLE001
        return (t.data_type, tuple(t.dims), bytes(t.raw_data), tuple(t.float_data), tuple(t.int32_data), tuple(t.int64_data))


def included(a, b, path="", out=None, limit=6):
    """Every populated field of a reappears in b with the same value; only fields set to their default may vanish.
    Repeated message fields are matched by position; TensorProto by content."""
    if out is None:
        out = []
    if len(out) >= limit:
        return out
    if isinstance(a, TensorProto):
        if tensor_content(a) != tensor_content(b):
            out.append(f"{path}: tensor content differs ({a.name})")
        for fld in ("name", "doc_string"):
            if getattr(a, fld) and getattr(a, fld) != getattr(b, fld):
                out.append(f"{path}.{fld}: {getattr(a, fld)!r} -> {getattr(b, fld)!r}")
        if len(a.metadata_props) and [(e.key, e.value) for e in a.metadata_props] != [(e.key, e.value) for e in b.metadata_props]:
            out.append(f"{path}.metadata_props differ")
        return out
    for fd, va in a.ListFields():
        vb = getattr(b, fd.name)
        p = f"{path}.{fd.name}"
        if fd.is_repeated:
            if fd.type == fd.TYPE_MESSAGE:
                if fd.name in ("opset_import",):
                    da = {(x.domain): x.version for x in va}
                    db = {(x.domain): x.version for x in vb}
                    for k, v in da.items():
                        if db.get(k) != v:
                            out.append(f"{p}[{k!r}]: {v} -> {db.get(k)}")
                    continue
                keyf = {"value_info": lambda x: x.name, "initializer": lambda x: x.name, "metadata_props": lambda x: x.key,
                        "functions": lambda x: (x.domain, x.name, x.overload), "external_data": lambda x: x.key}.get(fd.name)
                if keyf is not None:
                    # unordered carriers: every original entry must reappear under its key (more entries may be added)
                    db = {}
                    for y in vb:
                        db.setdefault(keyf(y), y)
                    for x in va:
                        y = db.get(keyf(x))
                        if y is None:
                            out.append(f"{p}[{keyf(x)!r}]: entry vanished")
                        else:
                            included(x, y, f"{p}[{keyf(x)!r}]", out, limit)
                    continue
                if len(va) > len(vb):
                    out.append(f"{p}: {len(va)} entries -> {len(vb)}")
                    continue
                for i, (x, y) in enumerate(zip(va, vb)):
                    included(x, y, f"{p}[{i}]", out, limit)
            else:
                if list(va) != list(vb):
                    out.append(f"{p}: {list(va)[:4]} -> {list(vb)[:4]}")
        elif fd.type == fd.TYPE_MESSAGE:
            if not b.HasField(fd.name):
                if va.ByteSize() > 0:
                    out.append(f"{p}: message vanished")
            else:
                included(va, vb, p, out, limit)
        else:
            if va != vb and not (isinstance(va, float) and va != va and vb != vb):
                if va == fd.default_value:
                    continue
                out.append(f"{p}: {va!r} -> {vb!r}")
    return out


def normalize(model):
    from onnxscript import ir

    return ir.serde.serialize_model(ir.serde.deserialize_model(model))


def apply(model, api, as_ir, opts):
    """Returns (result ModelProto, argument-after ModelProto | None (ir entry))."""
    import onnxscript.optimizer as opt
    import onnxscript.rewriter as rw
    import onnxscript.version_converter as vc
    from onnxscript import ir
    from onnxscript.utils import replace as repl

    m = onnx.ModelProto()
    m.CopyFrom(model)
    arg = ir.serde.deserialize_model(m) if as_ir else m
    if api == "optimize":
        r = opt.optimize(arg, **opts)
    elif api == "rewrite_default":
        r = rw.rewrite(arg)
    elif api == "rewrite_none":
        r = rw.rewrite(arg, None)
    elif api == "rewrite_empty":
        r = rw.rewrite(arg, [])
    elif api == "fold_constants":
        opt.fold_constants(arg)
        r = arg
    elif api == "remove_unused_nodes":
        opt.remove_unused_nodes(arg)
        r = arg
    elif api == "remove_unused_functions":
        opt.remove_unused_functions(arg)
        r = arg
    elif api == "convert_version":
        vc.convert_version(arg, opts["target"], fallback=opts.get("fallback"))
        r = arg
    elif api == "replace_functions":
        # the documented use: a model that calls custom operators + the FunctionProtos that define them. The model-local functions of the
        # generated model are detached and handed in (opts["detach"]); a model without functions gets the empty list
        fps = []
        if opts.get("detach"):
            fps = [onnx.FunctionProto.FromString(f.SerializeToString()) for f in m.functions]
            del m.functions[:]
            arg = ir.serde.deserialize_model(m) if as_ir else m
        if as_ir:
            repl.replace_functions_inplace(arg, [ir.serde.deserialize_function(f) for f in fps])
            r = arg
        else:
            r = repl.replace_functions(arg, fps)
    elif api == "serde_only":
        r = arg
    else:
        raise ValueError(api)
    res = ir.serde.serialize_model(r) if isinstance(r, ir.Model) else r
    after = None if as_ir else m
    return res, after


INPLACE = {"fold_constants", "remove_unused_nodes", "remove_unused_functions", "convert_version"}
FUNCTIONAL = {"optimize", "rewrite_default", "rewrite_none", "replace_functions"}


def check(model, api, opts):
    verdicts, info = [], {}
    # (3) serde inclusion + idempotence
    try:
        n1 = normalize(model)
        n2 = normalize(n1)
    except Exception as e:  # noqa: BLE001
        return [(f"serde_raises:{optcommon.innermost_frame(e)}", f"{type(e).__name__}: {str(e)[:300]}")], info
    inc = included(model, n1)
    for d in inc[:2]:
        verdicts.append((f"serde_loses:{_field_class(d)}", d))
    if n1.SerializeToString(deterministic=True) != n2.SerializeToString(deterministic=True):
        diff = included(n1, n2) or included(n2, n1) or ["bytes differ, fields equal"]
        verdicts.append((f"serde_not_idempotent:{_field_class(diff[0])}", diff[0]))
    if api == "serde_only":
        return verdicts, info
    # (1) proto path == ir path
    try:
        rp, after = apply(model, api, False, opts)
        perr = None
    except Exception as e:  # noqa: BLE001
        rp, after, perr = None, None, f"{type(e).__name__}"
    try:
        ri, _ = apply(model, api, True, opts)
        ierr = None
    except Exception as e:  # noqa: BLE001
        ri, ierr = None, f"{type(e).__name__}"
    info["raised"] = bool(perr or ierr)
    if (perr is None) != (ierr is None):
        verdicts.append((f"proto_vs_ir:one_raises:{api}", f"proto: {perr} ir: {ierr}"))
        return verdicts, info
    if perr:
        return verdicts, info
    rp_cmp = normalize(rp) if api == "rewrite_empty" else rp  # rewrite(model, []) returns its argument un-normalised (documented)
    d1, d2 = included(rp_cmp, ri), included(ri, rp_cmp)
    for d in (d1 + d2)[:2]:
        verdicts.append((f"proto_vs_ir:{api}:{_field_class(d)}", d))
    # (4) argument handling
    if api in FUNCTIONAL and after is not None:
        given = model
        if api == "replace_functions" and opts.get("detach"):  # (the argument was the model without its functions)
            given = onnx.ModelProto()
            given.CopyFrom(model)
            del given.functions[:]
        if after.SerializeToString(deterministic=True) != given.SerializeToString(deterministic=True):
            dd = included(given, after) or included(after, given) or ["bytes differ"]
            verdicts.append((f"argument_mutated:{api}", dd[0]))
    if api in INPLACE and after is not None and rp is not after:
        verdicts.append((f"inplace_returns_other_object:{api}", ""))
    if api == "rewrite_empty":
        if rp.SerializeToString(deterministic=True) != model.SerializeToString(deterministic=True):
            verdicts.append(("rewrite_empty_changes_model", (included(model, rp) or included(rp, model) or ["?"])[0]))
    # (2) untouched fields survive: compare N(M) with f(M)
    verdicts += untouched(n1, rp, api)
    if api == "replace_functions" and opts.get("detach"):
        # "custom operations replaced by their expansions": no call to a supplied function is left at any depth, on either path
        ids = {(f.domain, f.name) for f in model.functions}
        for label, res in (("proto", rp), ("ir", ri)):
            left = sorted({(x.domain, x.op_type) for x in _walk_nodes(res.graph.node) if (x.domain, x.op_type) in ids})
            if left:
                verdicts.append((f"replace_functions:call_left_unexpanded:{label}", f"{left}"))
    return verdicts, info


def _walk_nodes(nodes):
    for x in nodes:
        yield x
        for a in x.attribute:
            if a.type == onnx.AttributeProto.GRAPH:
                yield from _walk_nodes(a.g.node)
            elif a.type == onnx.AttributeProto.GRAPHS:
                for g in a.graphs:
                    yield from _walk_nodes(g.node)


def _field_class(d):
    import re

    s = d.split(":")[0]
    s = re.sub(r"\[\d+\]", "[]", s)
    s = re.sub(r"\['.*?'\]", "[]", s)
    return s[:70]


def untouched(n, r, api):
    out = []
    for fld in ("ir_version", "producer_name", "producer_version", "domain", "model_version", "doc_string"):
        if getattr(n, fld) != getattr(r, fld):
            if fld == "ir_version" and api == "convert_version":
                continue
            out.append((f"lost:model.{fld}:{api}", f"{getattr(n, fld)!r} -> {getattr(r, fld)!r}"))
    if [(e.key, e.value) for e in n.metadata_props] != [(e.key, e.value) for e in r.metadata_props]:
        out.append((f"lost:model.metadata_props:{api}", f"{[(e.key) for e in n.metadata_props]} -> {[(e.key) for e in r.metadata_props]}"))
    if n.graph.doc_string != r.graph.doc_string:
        out.append((f"lost:graph.doc_string:{api}", f"{n.graph.doc_string!r} -> {r.graph.doc_string!r}"))
    if hasattr(n.graph, "metadata_props") and [(e.key, e.value) for e in n.graph.metadata_props] != [(e.key, e.value) for e in r.graph.metadata_props]:
        out.append((f"lost:graph.metadata_props:{api}", ""))
    # surviving nodes: same op_type and same outputs
    rn = {(x.op_type, tuple(x.output)): x for x in r.graph.node}
    from collections import Counter

    # (a node with a twin - same operator, inputs and attributes - has no identity of its own: common-subexpression elimination keeps
    # one of the two under either output name, and whichever it keeps brings its own doc_string / metadata)
    twin = Counter((x.op_type, x.domain, tuple(x.input), tuple(sorted(a.SerializeToString() for a in x.attribute))) for x in n.graph.node)
    for x in n.graph.node:
        y = rn.get((x.op_type, tuple(x.output)))
        if y is None or list(x.input) != list(y.input):
            continue
        if twin[(x.op_type, x.domain, tuple(x.input), tuple(sorted(a.SerializeToString() for a in x.attribute)))] > 1:
            continue
        if x.doc_string != y.doc_string:
            out.append((f"lost:node.doc_string:{api}", f"{x.op_type} {x.doc_string!r} -> {y.doc_string!r}"))
            break
        if [(e.key, e.value) for e in x.metadata_props] != [(e.key, e.value) for e in y.metadata_props]:
            # the optimizer may add provenance keys; original keys must survive
            ya = {e.key: e.value for e in y.metadata_props}
            if any(ya.get(e.key) != e.value for e in x.metadata_props):
                out.append((f"lost:node.metadata_props:{api}", f"{x.op_type}"))
                break
    # surviving initializers: bytes
    ri = {t.name: t for t in r.graph.initializer}
    for t in n.graph.initializer:
        if t.name in ri and tensor_content(t) != tensor_content(ri[t.name]):
            out.append((f"changed:initializer_bytes:{api}:{TensorProto.DataType.Name(t.data_type)}", t.name))
            break
    # functions still present keep their header
    rf = {(f.domain, f.name, f.overload): f for f in r.functions}
    for f in n.functions:
        g = rf.get((f.domain, f.name, f.overload))
        if g is not None and (f.doc_string != g.doc_string or [(e.key, e.value) for e in f.metadata_props] != [(e.key, e.value) for e in g.metadata_props]):
            out.append((f"lost:function_header:{api}", f"{f.name}"))
            break
    # imports of domains still used
    used = {x.domain for x in r.graph.node} | {x.domain for f in r.functions for x in f.node}
    ni = {o.domain: o.version for o in n.opset_import}
    rimp = {o.domain: o.version for o in r.opset_import}
    for d in used:
        if d in ni and rimp.get(d) != ni[d] and api != "convert_version":
            out.append((f"changed:opset_import:{api}", f"{d!r}: {ni[d]} -> {rimp.get(d)}"))
    return out


def run_shard(spec):
    col = Collector()
    cfg = {"overridable": True, "zero_dims": True, "value_info": True, "max_nodes": 8}

    def body(case):
        api, data, gm = case
        if wellformed.check_model(gm.model):
            col.skip("generator_invalid")
            return
        model, kinds, exotic = decorate(gm.model, data.draw)
        opts = {}
        if api == "convert_version":
            cur = [o.version for o in model.opset_import if o.domain == ""][0]
            opts = {"target": data.draw(st.sampled_from([cur, cur + 1, 21, 23])), "fallback": data.draw(st.sampled_from([None, False, True]))}
        if api == "optimize" and data.draw(st.booleans()):
            opts = {"inline": False}
        if api == "replace_functions" and model.functions:
            opts = {"detach": True}
        verdicts, info = check(model, api, opts)
        nontrivial = len(kinds) >= 3 or bool(exotic)
        classes = ["api:" + api] + (["replace_functions:with_functions"] if opts.get("detach") else []) + sorted("gen:" + f for f in gm.features if f.startswith("function")) + ["deco:" + k for k in kinds] + ["exotic:" + e for e in exotic] + (["api_raised"] if info.get("raised") else [])
        col.case((modelgen.model_hash(model), api, sorted(opts.items())), nontrivial, classes,
                 sample={"api": api, "opts": opts, "decoration": kinds, "exotic": exotic, "model": modelgen.model_text(model, 700)})
        for bucket, detail in verdicts:
            col.violation(bucket, detail, {"model": optcommon.model_to_json(model), "api": api, "opts": opts, "text": modelgen.model_text(model, 3000)},
                          size=len(model.graph.node) + len(model.graph.initializer))

    drive(st.tuples(st.sampled_from(APIS), st.data(), modelgen.models(cfg)), body, spec["n"], spec["seed"])
    return col.result()


def replay(case):
    model = optcommon.model_from_json(case["model"])
    verdicts, _ = check(model, case["api"], case.get("opts", {}))
    return verdicts


def _has_constant_tensor_attr(case):
    m = optcommon.model_from_json(case["model"])
    def walk(nodes):
        for n in nodes:
            yield n
            for a in n.attribute:
                if a.type == onnx.AttributeProto.GRAPH:
                    yield from walk(a.g.node)

    nodes = list(walk(m.graph.node)) + [n for f in m.functions for n in walk(f.node)]  # (main graph, subgraphs, function bodies)
    return case.get("api") == "optimize" and any(n.op_type == "Constant" and any(a.name == "value" for a in n.attribute) for n in nodes)


REGIONS = {
    # optimize(ModelProto) is functional, but deserialisation shares the TensorProto of Constant 'value' attributes with the argument and a
    # pass renames the tensor (t.name = output name): the argument is mutated
    "optimize_renames_constant_tensor_of_argument": _has_constant_tensor_attr,
    # convert_version(ModelProto) copies only graph (+ opset imports) back: graph/node metadata_props set on the argument are lost
    "convert_version_proto_drops_metadata": lambda c: c.get("api") == "convert_version",
}
