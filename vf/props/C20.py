"""C20 - saving with external data round-trips and never disturbs the in-memory model (fault enumeration)."""
from __future__ import annotations

import contextlib
import copy
import hashlib
import io
import json
import os
import pathlib
import shutil
import sys
import tempfile
import traceback

import numpy as np

from vf import faults
from vf.hyp import drive, st
from vf.runner import Collector

ID = "C20"
EARLY_ATTRIBUTION = True  # region predicates are cheap scans of the stored case
LEVEL = "fault_enumeration"
RULE = (
    "Hypothesis draws a model description (0-7 initializers over 27 element types x size classes {zero-size, scalar, "
    "<256 B, exactly 256 B, just above, KBs, >1 MB aligned} x storage kinds {numpy Tensor, non-contiguous, "
    "TensorProtoTensor raw/typed, LazyTensor, PackedTensor, StringTensor, ExternalTensor in another file / another "
    "directory / the destination data file, read or unread before the save} x placement {main graph, If branches, nested "
    "If, also-a-graph-input}, optional uninitialised initializer, destination form {absolute str/Path, relative with "
    "directory, bare name, ../}, pre-existing model/data/unrelated files, verbose on/off, files with/without fileno). "
    "Model and files are rebuilt from the description in a fresh scratch dir for every run. Run 0 (no fault) records every "
    "Python-level file-system call the save makes below the scratch dir (open/read/write/flush/seek/tell/fileno/close, "
    "os.replace/rename/remove/mkdir/..., cross-checked against the interpreter's audit events); then for EVERY k in 1..N "
    "the k-th call raises OSError (ENOSPC/EIO/EACCES rotating), once as a single fault and once 'sticky' (all later calls "
    "fail too). Oracle: uninitialised initializer => ValueError with zero file-system calls and an untouched directory; a "
    "run that returns => model file and sibling '<name>.data' exist, every external_data location is exactly "
    "'<name>.data', the file's proto equals the model's serialisation modulo initializer payload placement, and "
    "ir.load(path) (and onnx.load) yield every initializer with the generator's own bytes/dtype/shape; ALWAYS (return "
    "or raise, any k) the in-memory model is unchanged: same object graph (nodes, values, initializer Values by "
    "identity), same serialisation, every const_value IS the original tensor object, still valid, yields the original "
    "bytes, and external tensors' backing bytes are intact. A fault-free run must not raise. Non-trivial = >=2 "
    "initializers above the 256-byte threshold and fault index k>=2; distinct by (description hash, k, fault mode). "
    "Regions of committed known findings (REGIONS) are excluded by construction and counted."
)
ASSUMPTIONS = [
    "onnx_ir.serde.serialize_model is used to fingerprint the in-memory model before/after (it is also what save uses)",
    "onnx.load / onnx_ir.load define 'loading'; expected tensor bytes are computed by the generator with numpy only "
    "(own 4-bit/2-bit packing), never with the code under test",
    "faults are injected at Python-level file-system calls below the scratch dir; C-level writes (numpy tofile on a real "
    "descriptor) are reached through the no-fileno mode, where every tensor is one Python write()",
    "an injected OSError at a file method is a legal behaviour of the file object (any I/O call may fail)",
]
EXHAUSTIVE = False  # exhaustive over k per model, not over models
FLOOR = {"quick": 1000, "thorough": 100000}
TIMEOUT = {"quick": 600, "thorough": 3 * 3600}

THRESH = 256  # ir.save(size_threshold_bytes=256): externalised iff nbytes > 256
ERR_NAMES = ["ENOSPC", "EIO", "EACCES"]
MAX_EVENTS = 400  # enumeration guard per model (never reached by the generator's sizes; counted if hit)

# Named regions (see REGIONS below) of findings on the unchanged tree.  A region is not generated (the draw is redirected
# and counted with col.exclude) when it is named here - development: VERIF_C20_EXCLUDE=a,b - or when a committed
# known finding of this property names it in its "region" field (run-time consultation in excluded_regions()).
EXCLUDE: set = set(filter(None, os.environ.get("VERIF_C20_EXCLUDE", "").split(",")))


# ============================================================================================== element types
def _dtypes():
    import ml_dtypes as m
    import onnx_ir as ir

    D = ir.DataType
    t = {
        "FLOAT": (D.FLOAT, np.float32, 32), "DOUBLE": (D.DOUBLE, np.float64, 64), "FLOAT16": (D.FLOAT16, np.float16, 16),
        "BFLOAT16": (D.BFLOAT16, m.bfloat16, 16), "INT8": (D.INT8, np.int8, 8), "UINT8": (D.UINT8, np.uint8, 8),
        "INT16": (D.INT16, np.int16, 16), "UINT16": (D.UINT16, np.uint16, 16), "INT32": (D.INT32, np.int32, 32),
        "UINT32": (D.UINT32, np.uint32, 32), "INT64": (D.INT64, np.int64, 64), "UINT64": (D.UINT64, np.uint64, 64),
        "BOOL": (D.BOOL, np.bool_, 8), "COMPLEX64": (D.COMPLEX64, np.complex64, 64),
        "COMPLEX128": (D.COMPLEX128, np.complex128, 128),
        "FLOAT8E4M3FN": (D.FLOAT8E4M3FN, m.float8_e4m3fn, 8), "FLOAT8E4M3FNUZ": (D.FLOAT8E4M3FNUZ, m.float8_e4m3fnuz, 8),
        "FLOAT8E5M2": (D.FLOAT8E5M2, m.float8_e5m2, 8), "FLOAT8E5M2FNUZ": (D.FLOAT8E5M2FNUZ, m.float8_e5m2fnuz, 8),
        "FLOAT8E8M0": (D.FLOAT8E8M0, m.float8_e8m0fnu, 8),
        "INT4": (D.INT4, m.int4, 4), "UINT4": (D.UINT4, m.uint4, 4), "FLOAT4E2M1": (D.FLOAT4E2M1, m.float4_e2m1fn, 4),
        "INT2": (D.INT2, m.int2, 2), "UINT2": (D.UINT2, m.uint2, 2),
        "STRING": (D.STRING, object, 0),
    }
    return t


_DT = None


def DT(name):
    global _DT
    if _DT is None:
        _DT = _dtypes()
    return _DT[name]


BYTE_DTYPES = ["FLOAT", "DOUBLE", "FLOAT16", "BFLOAT16", "INT8", "UINT8", "INT16", "UINT16", "INT32", "UINT32", "INT64",
               "UINT64", "BOOL", "COMPLEX64", "COMPLEX128", "FLOAT8E4M3FN", "FLOAT8E4M3FNUZ", "FLOAT8E5M2",
               "FLOAT8E5M2FNUZ", "FLOAT8E8M0"]
SUB_DTYPES = ["INT4", "UINT4", "FLOAT4E2M1", "INT2", "UINT2"]
TYPED_FIELD = {"FLOAT": "float_data", "DOUBLE": "double_data", "INT32": "int32_data", "INT64": "int64_data",
               "UINT64": "uint64_data", "INT8": "int32_data", "UINT8": "int32_data", "INT16": "int32_data",
               "UINT16": "int32_data", "BOOL": "int32_data", "UINT32": "uint64_data"}


def bits_of(dt):
    return {"INT4": 4, "UINT4": 4, "FLOAT4E2M1": 4, "INT2": 2, "UINT2": 2, "STRING": 0}.get(dt) or \
        {"FLOAT": 32, "DOUBLE": 64, "FLOAT16": 16, "BFLOAT16": 16, "INT8": 8, "UINT8": 8, "INT16": 16, "UINT16": 16,
         "INT32": 32, "UINT32": 32, "INT64": 64, "UINT64": 64, "BOOL": 8, "COMPLEX64": 64, "COMPLEX128": 128}.get(dt, 8)


def nbytes_of(init):
    """Serialised size in bytes, computed from the description only."""
    if init["dtype"] == "STRING":
        return sum(len(s) for s in string_items(init))
    n = int(np.prod(init["shape"])) if init["shape"] else 1
    b = bits_of(init["dtype"])
    return (n * b + 7) // 8


def string_items(init):
    n = int(np.prod(init["shape"])) if init["shape"] else 1
    rng = np.random.default_rng(init["seed"])
    L = init.get("strlen", 3)
    return [bytes(rng.integers(97, 123, size=L, dtype=np.uint8)) + b"\xc3\xa9"[: (i % 2) * 2] for i in range(n)]


def make_data(init):
    """-> (numpy array in the dtype's numpy representation [unpacked for sub-byte types], expected little-endian bytes)."""
    dt = init["dtype"]
    shape = tuple(init["shape"])
    n = int(np.prod(shape)) if shape else 1
    rng = np.random.default_rng(init["seed"])
    _, npdt, bits = DT(dt)
    if dt in SUB_DTYPES:
        per = 8 // bits
        codes = rng.integers(0, 1 << bits, size=n, dtype=np.uint8)  # raw bit patterns, element i
        padded = np.zeros(((n + per - 1) // per) * per, dtype=np.uint8)
        padded[:n] = codes
        packed = np.zeros(len(padded) // per, dtype=np.uint8)
        for j in range(per):  # element j of each group sits in bits [j*bits, (j+1)*bits)
            packed |= (padded[j::per] << (j * bits)).astype(np.uint8)
        if dt in ("INT4", "INT2"):
            half = 1 << (bits - 1)
            vals = codes.astype(np.int16)
            vals = np.where(vals >= half, vals - (1 << bits), vals)
            arr = vals.astype(np.int8).astype(npdt)
        elif dt in ("UINT4", "UINT2"):
            arr = codes.astype(npdt)
        else:  # FLOAT4E2M1: numpy storage is one byte per element holding the 4-bit code
            arr = codes.view(npdt)
        return arr.reshape(shape), packed.tobytes(), packed
    if init["kind"] == "proto_typed":
        if dt == "BOOL":
            arr = rng.integers(0, 2, size=n).astype(np.bool_)
        elif dt.startswith("U"):
            arr = rng.integers(0, 200, size=n).astype(npdt)
        else:
            arr = rng.integers(-100, 100, size=n).astype(npdt)
        arr = arr.reshape(shape)
        return arr, arr.astype(arr.dtype.newbyteorder("<")).tobytes(), None
    if dt == "BOOL":
        arr = rng.integers(0, 2, size=n, dtype=np.uint8).astype(np.bool_).reshape(shape)
        return arr, arr.view(np.uint8).tobytes(), None
    raw = rng.integers(0, 256, size=n * bits // 8, dtype=np.uint8).tobytes()
    arr = np.frombuffer(raw, dtype=np.dtype(npdt)).reshape(shape).copy()
    return arr, raw, None


# ============================================================================================== model construction
SUBGRAPH_PLACES = ("then", "else", "inner")


class Env:
    pass


def ext_file_path(env, which):
    if which == "dest":
        return env.data_abspath
    if which == "other":
        return os.path.join(env.dest_dir, "weights.bin")
    if which == "otherdir_samename":  # a model that was loaded from <src>/<name> (+ <name>.data) and is saved as <dest>/<name>
        return os.path.join(env.src_dir, os.path.basename(env.data_abspath))
    return os.path.join(env.src_dir, "weights_elsewhere.bin")


def build(spec, root):
    """Create directories/files and the ir.Model for one run.  Everything is a pure function of (spec, root)."""
    import onnx
    import onnx_ir as ir

    env = Env()
    env.root = root
    env.dest_dir = os.path.join(root, "out")
    env.src_dir = os.path.join(root, "src")
    os.makedirs(env.dest_dir, exist_ok=True)
    os.makedirs(env.src_dir, exist_ok=True)
    name = spec["dest"]["name"]
    env.model_abspath = os.path.join(env.dest_dir, name)
    env.data_name = name + ".data"
    env.data_abspath = os.path.join(env.dest_dir, env.data_name)
    form = spec["dest"]["form"]
    env.cwd = None
    if form == "abs_str":
        env.path_arg = env.model_abspath
    elif form == "abs_path":
        env.path_arg = pathlib.Path(env.model_abspath)
    elif form == "rel_dir":
        env.cwd, env.path_arg = root, os.path.join("out", name)
    elif form == "rel_dir_path":
        env.cwd, env.path_arg = root, pathlib.Path("out") / name
    elif form == "bare":
        env.cwd, env.path_arg = env.dest_dir, name
    elif form == "rel_up":
        env.cwd, env.path_arg = env.src_dir, os.path.join("..", "out", name)
    else:
        raise ValueError(form)

    pre = spec.get("pre", {})
    if pre.get("model"):
        with open(env.model_abspath, "wb") as f:
            f.write(b"OLD-MODEL-" * 300)
    if pre.get("data"):
        with open(env.data_abspath, "wb") as f:
            f.write(b"\xee" * 5000)
    env.unrelated = None
    if pre.get("other"):
        env.unrelated = os.path.join(env.dest_dir, "unrelated.bin")
        with open(env.unrelated, "wb") as f:
            f.write(b"unrelated" * 10)

    # ---- tensors
    env.inits = []  # dict(init=<desc>, value=ir.Value, tensor=obj|None, raw=bytes|list[bytes]|None, path=graph path)
    ext_offsets = {}
    values_by_place = {"main": [], "then": [], "else": [], "inner": []}
    for i, init in enumerate(spec["inits"]):
        dt_name = init["dtype"]
        irdt = DT(dt_name)[0]
        vname = init["name"]
        kind = init["kind"]
        shape = list(init["shape"])
        tensor, raw = None, None
        if kind == "uninit":
            pass
        elif dt_name == "STRING":
            raw = string_items(init)
            holder = np.empty(len(raw), dtype=object)
            holder[:] = raw
            tensor = ir.StringTensor(holder.reshape(shape), shape=ir.Shape(shape), name=vname)
        else:
            arr, raw, packed = make_data(init)
            if kind == "np":
                tensor = ir.Tensor(arr, name=vname)
            elif kind == "np_noncontig":
                tensor = ir.Tensor(np.asfortranarray(arr), name=vname)
            elif kind == "proto_raw":
                tp = onnx.TensorProto(name=vname, data_type=int(irdt), dims=shape, raw_data=raw)
                tensor = ir.serde.TensorProtoTensor(tp)
            elif kind == "proto_typed":
                tp = onnx.TensorProto(name=vname, data_type=int(irdt), dims=shape)
                field = TYPED_FIELD[dt_name]
                conv = float if field in ("float_data", "double_data") else int
                getattr(tp, field).extend(conv(x) for x in arr.reshape(-1))
                tensor = ir.serde.TensorProtoTensor(tp)
            elif kind == "lazy":
                tensor = ir.LazyTensor((lambda a=arr, n=vname: ir.Tensor(a, name=n)), dtype=irdt, shape=ir.Shape(shape),
                                       cache=bool(init.get("cache")), name=vname)
            elif kind == "packed":
                tensor = ir.PackedTensor(packed, irdt, shape=shape, name=vname)
            elif kind == "ext":
                which = init["ext"]["file"]
                path = ext_file_path(env, which)
                off = ext_offsets.get(path, 0) + int(init["ext"].get("gap", 0))
                mode = "r+b" if os.path.exists(path) else "wb"
                with open(path, mode) as f:
                    f.seek(0, 2)
                    if f.tell() < off:  # make the gap real even when nothing is written after it
                        f.write(b"\0" * (off - f.tell()))
                    f.seek(off)
                    f.write(raw)
                ext_offsets[path] = off + len(raw)
                tensor = ir.ExternalTensor(os.path.basename(path), off, len(raw), irdt, shape=ir.Shape(shape), name=vname,
                                           base_dir=os.path.dirname(path))
                if init["ext"].get("touched"):
                    tensor.numpy()
            else:
                raise ValueError(kind)
        if init.get("tdoc") and kind in ("np", "np_noncontig", "lazy", "packed", "string"):
            tensor.doc_string = "tensor doc " + vname
        kw = {}
        if init.get("typed") or kind == "uninit":
            kw = {"type": ir.TensorType(irdt), "shape": ir.Shape(shape)}
        v = ir.Value(name=vname, const_value=tensor, **kw)
        if init.get("vmeta"):
            v.metadata_props["origin"] = "gen" + str(i)
        rec = {"init": init, "value": v, "tensor": tensor, "raw": raw}
        env.inits.append(rec)
        values_by_place[init["where"]].append(rec)

    # ---- graphs
    counter = [0]

    def user(v, tag):
        counter[0] += 1
        op = ("Shape", "Identity", "Size")[counter[0] % 3]
        n = ir.Node("", op, [v], num_outputs=1, name=f"{tag}_n{counter[0]}")
        n.outputs[0].name = f"{tag}_o{counter[0]}"
        return n

    def const_out(tag):
        n = ir.Node("", "Constant", [], attributes=[ir.AttrInt64("value_int", 7)], num_outputs=1, name=f"{tag}_c")
        n.outputs[0].name = f"{tag}_cv"
        return n

    def attach(g, recs):
        """Initializers go through the mapping interface so that an uninitialised Value can be placed too."""
        for r in recs:
            g.initializers[r["value"].name] = r["value"]

    def subgraph(tag, recs, extra_nodes=()):
        nodes = [user(r["value"], tag) for r in recs] + list(extra_nodes)
        c = const_out(tag)
        nodes.append(c)
        g = ir.Graph([], [c.outputs[0]], nodes=nodes, name=tag)
        attach(g, recs)
        return g

    cond = ir.Value(name="cond", type=ir.TensorType(ir.DataType.BOOL), shape=ir.Shape([]))
    main_nodes, outputs = [], []
    for r in values_by_place["main"]:
        n = user(r["value"], "m")
        main_nodes.append(n)
        outputs.append(n.outputs[0])
    need_if = spec.get("with_if") or any(values_by_place[p] for p in SUBGRAPH_PLACES)
    if need_if:
        extra = []
        if values_by_place["inner"] or spec.get("nested_if"):
            inner_then = subgraph("it", values_by_place["inner"])
            inner_else = subgraph("ie", [])
            n2 = ir.Node("", "If", [cond], attributes=[ir.AttrGraph("then_branch", inner_then),
                                                       ir.AttrGraph("else_branch", inner_else)], num_outputs=1, name="if_inner")
            n2.outputs[0].name = "if_inner_out"
            extra.append(n2)
        then_g = subgraph("t", values_by_place["then"], extra)
        else_g = subgraph("e", values_by_place["else"])
        n = ir.Node("", "If", [cond], attributes=[ir.AttrGraph("then_branch", then_g), ir.AttrGraph("else_branch", else_g)],
                    num_outputs=1, name="if_outer")
        n.outputs[0].name = "if_out"
        main_nodes.append(n)
        outputs.append(n.outputs[0])
    if spec.get("const_attr"):
        big = np.arange(400, dtype=np.float32) * 0.5
        n = ir.Node("", "Constant", [], attributes=[ir.AttrTensor("value", ir.Tensor(big, name="cattr"))], num_outputs=1,
                    name="big_const")
        n.outputs[0].name = "big_const_out"
        main_nodes.append(n)
        outputs.append(n.outputs[0])
    if not outputs:
        c = const_out("m")
        main_nodes.append(c)
        outputs.append(c.outputs[0])
    inputs = [cond] + [r["value"] for r in values_by_place["main"] if r["init"].get("as_input")]
    g = ir.Graph(inputs, outputs, nodes=main_nodes, name="main_graph", opset_imports={"": 18})
    attach(g, values_by_place["main"])
    kw = {}
    if spec.get("meta"):
        kw = {"producer_name": "verif-c20", "producer_version": "1", "doc_string": "model doc",
              "metadata_props": {"k1": "v1", "k2": "v2"}, "model_version": 3, "domain": "org.verif"}
        g.metadata_props["gk"] = "gv"
        g.doc_string = "graph doc"
        main_nodes[0].metadata_props["nk"] = "nv"
    env.model = ir.Model(g, ir_version=spec.get("ir_version", 10), **kw)
    return env


# ============================================================================================== fingerprints
def walk_graphs(graph, path="main"):
    import onnx_ir as ir

    yield path, graph
    for node in graph:
        for aname in sorted(node.attributes):
            a = node.attributes[aname]
            if a.is_ref():
                continue
            if a.type == ir.AttributeType.GRAPH and a.value is not None:
                yield from walk_graphs(a.value, f"{path}/{node.name}.{aname}")
            elif a.type == ir.AttributeType.GRAPHS and a.value is not None:
                for i, sg in enumerate(a.value):
                    yield from walk_graphs(sg, f"{path}/{node.name}.{aname}[{i}]")


def fingerprint(model, ident):
    """Nested-list description of the object graph; with ident=True it includes id()s of nodes, values and tensors."""
    import onnx_ir as ir

    def meta(o):
        return sorted((o.metadata_props or {}).items())

    init_ids = set()
    if not ident:  # loading types initializer Values from their tensors: not a difference
        for _, g in walk_graphs(model.graph):
            init_ids.update(id(v) for v in g.initializers.values())

    def vi(v, drop_type=False):
        if v is None:
            return None
        drop_type = drop_type or id(v) in init_ids
        r = [v.name, None if drop_type or v.type is None else str(v.type),
             None if drop_type or v.shape is None else str(v.shape), meta(v)]
        if ident:
            r.append(id(v))
        return r

    def ti(t):
        if t is None:
            return None
        r = [str(t.dtype), list(t.shape.numpy()) if hasattr(t.shape, "numpy") else str(t.shape), t.name]
        if ident:
            r += [id(t), type(t).__name__]
            if isinstance(t, ir.ExternalTensor):
                r += [str(t.location), str(t.base_dir), t.offset, t.length]
        return r

    def attr_fp(a):
        if a.is_ref():
            return [a.name, "ref", a.ref_attr_name]
        if a.type == ir.AttributeType.TENSOR:
            return [a.name, "TENSOR", str(a.value.dtype), list(a.value.shape.numpy()),
                    hashlib.sha1(a.value.tobytes()).hexdigest()]
        if a.type in (ir.AttributeType.GRAPH, ir.AttributeType.GRAPHS):
            return [a.name, a.type.name]
        return [a.name, a.type.name, repr(a.value)]

    nz = lambda x: x or None  # noqa: E731  ("" and None are the same proto)
    out = [["model", model.ir_version, nz(model.producer_name), nz(model.producer_version), nz(model.domain),
            nz(model.model_version), nz(model.doc_string), meta(model), sorted(model.opset_imports.items()), sorted(str(k) for k in model.functions)]]
    for path, g in walk_graphs(model.graph):
        out.append(["graph", path, nz(g.name), nz(g.doc_string), meta(g), [vi(v) for v in g.inputs], [vi(v) for v in g.outputs],
                    [[k, vi(v, drop_type=not ident), ti(v.const_value)] for k, v in g.initializers.items()]])
        for node in g:
            r = ["node", path, node.op_type, node.domain, nz(node.overload), nz(node.name), [vi(v) for v in node.inputs],
                 [vi(v) for v in node.outputs], [attr_fp(node.attributes[k]) for k in sorted(node.attributes)], meta(node),
                 nz(node.doc_string)]
            if ident:
                r.append(id(node))
            out.append(r)
    return out


def first_diff(a, b, path=""):
    if type(a) is not type(b):
        return f"{path}: {a!r} != {b!r}"[:400]
    if isinstance(a, list):
        if len(a) != len(b):
            return f"{path}: length {len(a)} != {len(b)}"
        for i, (x, y) in enumerate(zip(a, b)):
            d = first_diff(x, y, f"{path}[{i}]")
            if d:
                return d
        return None
    return None if a == b else f"{path}: {a!r} != {b!r}"[:400]


def strip_initializer_payload(proto):
    """Copy of a ModelProto in which every graph initializer (recursively) keeps only name/dims/data_type."""
    import onnx

    p = onnx.ModelProto()
    p.CopyFrom(proto)
    lost_doc = [0]

    def do_graph(g):
        for t in g.initializer:
            keep = (t.name, list(t.dims), t.data_type)
            if t.doc_string or len(t.metadata_props):
                lost_doc[0] += 1
            t.Clear()
            t.name, t.data_type = keep[0], keep[2]
            t.dims.extend(keep[1])
        for n in g.node:
            for a in n.attribute:
                if a.HasField("g"):
                    do_graph(a.g)
                for sg in a.graphs:
                    do_graph(sg)

    do_graph(p.graph)
    return p, lost_doc[0]


def proto_initializers(proto):
    out = []

    def do_graph(g, path):
        for t in g.initializer:
            out.append((path, t))
        for n in g.node:
            for a in n.attribute:
                if a.HasField("g"):
                    do_graph(a.g, f"{path}/{n.name}.{a.name}")
                for i, sg in enumerate(a.graphs):
                    do_graph(sg, f"{path}/{n.name}.{a.name}[{i}]")

    do_graph(proto.graph, "main")
    return out


# ============================================================================================== one run
def _exc_site(e):
    tb = traceback.extract_tb(e.__traceback__)
    for fr in reversed(tb):
        fn = fr.filename.replace("\\", "/")
        if "/vf/" in fn and fn.endswith(("faults.py", "C20.py")):
            continue
        return f"{os.path.basename(fn)}:{fr.name}"
    return "?"


def snapshot_dir(d):
    snap = {}
    for base, _, files in sorted(os.walk(d)):
        for f in sorted(files):
            p = os.path.join(base, f)
            with open(p, "rb") as fh:
                snap[os.path.relpath(p, d)] = hashlib.sha1(fh.read()).hexdigest()
    return snap


def read_tensor_bytes(t):
    import onnx_ir as ir

    if t.dtype == ir.DataType.STRING:
        return [bytes(x) for x in t.string_data()]
    return bytes(t.tobytes())


def unreadable_without_save(spec, rec, exc):
    """True if the same tensor of a freshly built twin (no save at all) fails to read in the same way."""
    import onnx_ir as ir

    idx = [i for i, x in enumerate(spec["inits"]) if x is rec["init"]]
    if not idx:
        return False
    with scratch() as twin_root:
        twin = build(spec, twin_root)
        t = twin.inits[idx[0]]["tensor"]
        try:
            read_tensor_bytes(t)
            return False
        except Exception as e2:
            return type(e2) is type(exc)
        finally:
            for r in twin.inits:
                if isinstance(r["tensor"], ir.ExternalTensor):
                    r["tensor"].release()


def wipe(root):
    """Empty the scratch dir between runs; the two standard sub-directories are kept (rmdir is slow), only emptied."""
    for entry in os.listdir(root):
        p = os.path.join(root, entry)
        if entry in ("out", "src") and os.path.isdir(p) and not os.path.islink(p):
            for sub in os.listdir(p):
                q = os.path.join(p, sub)
                shutil.rmtree(q) if os.path.isdir(q) and not os.path.islink(q) else os.remove(q)
        elif os.path.isdir(p) and not os.path.islink(p):
            shutil.rmtree(p)
        else:
            os.remove(p)


def run_once(spec, k, mode, errno_name, root):
    """Rebuild everything in `root`, run the save (with the fault at call k if k>0), evaluate the oracle.
    Returns (verdicts, info)."""
    import onnx
    import onnx_ir as ir
    from onnxscript._framework_apis import torch_2_5

    wipe(root)
    env = build(spec, root)
    model = env.model
    verdicts = []
    info = {"classes": []}

    def bad(bucket, detail):
        verdicts.append((bucket, detail))

    uninit_main = any(r["init"]["kind"] == "uninit" and r["init"]["where"] == "main" for r in env.inits)
    uninit_sub = any(r["init"]["kind"] == "uninit" and r["init"]["where"] != "main" for r in env.inits)
    n_expected_external = sum(1 for r in env.inits if r["tensor"] is not None and nbytes_of(r["init"]) > THRESH)

    # ---- before
    fp_before = fingerprint(model, ident=True)
    try:
        proto_before = ir.serde.serialize_model(model) if not (uninit_main or uninit_sub) else None
    except Exception as e:  # the generator built something serde cannot express: not a verdict on save
        return [], {"skip": f"generator_unserialisable:{type(e).__name__}", "classes": []}
    bytes_before = proto_before.SerializeToString(deterministic=True) if proto_before is not None else None
    dir_before = snapshot_dir(root)

    # ---- the call
    fs = faults.FaultFS(root, fail_at=k if k else None, errno_name=errno_name, sticky=(mode == "sticky"),
                        hide_fileno=bool(spec.get("hide_fileno")))
    old_cwd = os.getcwd()
    old_err = sys.stderr
    exc = None
    try:
        if env.cwd:
            os.chdir(env.cwd)
        sys.stderr = io.StringIO()  # tqdm progress bar
        with fs:
            try:
                torch_2_5.save_model_with_external_data(model, env.path_arg, verbose=bool(spec.get("verbose")))
            except Exception as e:  # classified below
                exc = e
    finally:
        sys.stderr = old_err
        os.chdir(old_cwd)
    info["events"] = fs.log
    info["brief"] = fs.brief(80)
    info["fired"] = list(fs.fired)
    info["leaked"] = fs.leaked
    info["unpatched"] = fs.unpatched()
    info["returned"] = exc is None
    info["exc"] = None if exc is None else type(exc).__name__
    if faults.patches_active():
        raise RuntimeError("FaultFS patches outlived the call")

    # ---- refusal of uninitialised initializers
    if uninit_main or uninit_sub:
        where = "main" if uninit_main else "subgraph"
        if exc is None:
            bad(f"uninit:{where}:not-refused", f"save returned normally; fs calls: {fs.brief(8)}")
        elif not isinstance(exc, ValueError) or isinstance(exc, OSError):
            if not fs.fired:
                bad(f"uninit:{where}:wrong-exception:{type(exc).__name__}@{_exc_site(exc)}", repr(exc)[:300])
        if exc is not None and (fs.log or fs.audit_log):
            bad(f"uninit:{where}:fs-call-before-refusal", f"{fs.brief(8)} audit={fs.audit_log[:4]}")
        elif exc is not None and snapshot_dir(root) != dir_before:
            bad(f"uninit:{where}:directory-changed", "files differ after the refused save")
    elif exc is not None and not fs.fired:
        # nothing was injected (fault-free run, or the call never reached call k): the save must succeed
        bad(f"raise:save:{type(exc).__name__}@{_exc_site(exc)}", repr(exc)[:400])

    # ---- ALWAYS: the in-memory model is unchanged
    fp_after = fingerprint(model, ident=True)
    fp_diff = first_diff(fp_before, fp_after)
    for r in env.inits:
        t, v, init = r["tensor"], r["value"], r["init"]
        tag = f"{init['name']}({init['kind']},{init['dtype']},{nbytes_of(init)}B)"
        if v.const_value is not t:
            bad("after:const_value-replaced", f"{tag}: const_value is {type(v.const_value).__name__}, k={k} exc={info['exc']}")
            continue
        if t is None:
            continue
        if isinstance(t, ir.ExternalTensor) and len(r["raw"]) == 0:
            continue  # no data to lose (and zero-size ExternalTensor.tobytes() asserts with or without a save)
        if isinstance(t, ir.ExternalTensor):
            if not t.valid():
                bad("after:tensor-invalidated", f"{tag} file={init['ext']['file']} k={k} exc={info['exc']}")
                continue
            need = (t.offset or 0) + (t.length or 0)
            size = os.path.getsize(t.path) if os.path.exists(t.path) else -1
            if size < need:
                bad("after:backing-file-truncated", f"{tag}: {t.path} has {size} bytes, tensor needs {need}; k={k}")
                continue
            with open(t.path, "rb") as f:
                f.seek(t.offset or 0)
                if f.read(t.length or 0) != r["raw"]:
                    bad("after:backing-data-changed", f"{tag} file={init['ext']['file']} k={k} exc={info['exc']}")
                    continue
        try:
            got = read_tensor_bytes(t)
        except Exception as e:
            if unreadable_without_save(spec, r, e):
                info["classes"].append("obs:tensor-unreadable-with-or-without-save")
            else:
                bad(f"after:tensor-unreadable:{type(e).__name__}", f"{tag}: {e!r}"[:300])
            continue
        if got != r["raw"]:
            bad("after:tensor-bytes-changed", f"{tag} k={k} exc={info['exc']}")
    if fp_diff and not any(b == "after:const_value-replaced" for b, _ in verdicts):
        bad("after:object-graph-changed", f"{'returned' if exc is None else 'raised ' + type(exc).__name__} k={k}: {fp_diff}")
    if bytes_before is not None:
        try:
            bytes_after = ir.serde.serialize_model(model).SerializeToString(deterministic=True)
            if bytes_after != bytes_before and not any(b.startswith("after:") for b, _ in verdicts):
                bad("after:serialisation-changed", f"serialize_model(model) differs after the call; k={k} exc={info['exc']}")
        except Exception as e:
            if not any(b.startswith("after:") for b, _ in verdicts):
                bad(f"after:unserialisable:{type(e).__name__}", repr(e)[:300])

    # ---- a call that returned must have produced a loadable, equal model
    if exc is None and not (uninit_main or uninit_sub):
        if fs.fired:
            info["classes"].append("fault_swallowed")
        if not os.path.isfile(env.model_abspath):
            bad("file:model-file-missing", f"{env.model_abspath} not found; dir={sorted(os.listdir(env.dest_dir))}")
        else:
            check_saved(env, proto_before, n_expected_external, bad, info)
        if env.unrelated is not None:
            after = snapshot_dir(root)
            if after.get(os.path.relpath(env.unrelated, root)) != dir_before.get(os.path.relpath(env.unrelated, root)):
                info["classes"].append("obs:unrelated-file-modified")
    for r in env.inits:  # release mmaps before the directory is wiped
        if isinstance(r["tensor"], ir.ExternalTensor):
            try:
                r["tensor"].release()
            except Exception:
                pass
    return verdicts, info


def check_saved(env, proto_before, n_expected_external, bad, info):
    import onnx
    import onnx_ir as ir

    # (1) the file's proto, without touching external data
    try:
        fproto = onnx.load(env.model_abspath, load_external_data=False)
    except Exception as e:
        bad(f"load:onnx.load-raises:{type(e).__name__}", repr(e)[:300])
        return
    locs = set()
    for path, t in proto_initializers(fproto):
        if t.data_location == onnx.TensorProto.EXTERNAL:
            for kv in t.external_data:
                if kv.key == "location":
                    locs.add(kv.value)
    info["n_external_written"] = sum(1 for _, t in proto_initializers(fproto) if t.data_location == onnx.TensorProto.EXTERNAL)
    if locs - {env.data_name}:
        bad("file:data-location-not-sibling", f"external_data locations {sorted(locs)} != ['{env.data_name}']")
    if (n_expected_external or locs) and not os.path.isfile(env.data_abspath):
        bad("file:data-file-missing", f"{env.data_abspath} not found; dir={sorted(os.listdir(env.dest_dir))}")
    a, lost_a = strip_initializer_payload(proto_before)
    b, lost_b = strip_initializer_payload(fproto)
    if lost_a != lost_b:
        info["classes"].append("obs:tensor-docstring-dropped")
    if a.SerializeToString(deterministic=True) != b.SerializeToString(deterministic=True):
        ta, tb = str(a).splitlines(), str(b).splitlines()
        diff = next((f"line {i}: {x!r} != {y!r}" for i, (x, y) in enumerate(zip(ta, tb)) if x != y),
                    f"length {len(ta)} != {len(tb)}")
        bad("load:structure-differs", f"saved proto != serialize_model(model) modulo initializer payloads: {diff}"[:400])

    # (2) ir.load
    try:
        m2 = ir.load(env.model_abspath)
    except Exception as e:
        bad(f"load:ir.load-raises:{type(e).__name__}@{_exc_site(e)}", repr(e)[:300])
        return
    try:
        d = first_diff(fingerprint(env.model, ident=False), fingerprint(m2, ident=False))
        if d:
            bad("load:ir-structure-differs", d)
        loaded = {}
        for path, g in walk_graphs(m2.graph):
            for name, v in g.initializers.items():
                loaded[(path, name)] = v
        orig = {}
        for path, g in walk_graphs(env.model.graph):
            for name, v in g.initializers.items():
                orig[id(v)] = path
        for r in env.inits:
            init = r["init"]
            key = (orig.get(id(r["value"])), init["name"])
            tag = f"{init['name']}({init['kind']},{init['dtype']},{nbytes_of(init)}B)"
            v2 = loaded.get(key)
            if v2 is None or v2.const_value is None:
                bad("load:tensor-missing", f"{tag} at {key} not in loaded model")
                continue
            t2 = v2.const_value
            if str(t2.dtype) != str(DT(init["dtype"])[0]) or list(t2.shape.numpy()) != list(init["shape"]):
                bad("load:dtype-shape-differ", f"{tag}: loaded {t2.dtype} {t2.shape}")
                continue
            if isinstance(t2, ir.ExternalTensor) and len(r["raw"]) == 0:
                continue  # zero-size ExternalTensor.tobytes() asserts by itself; dtype/shape were compared above
            try:
                got = read_tensor_bytes(t2)
            except Exception as e:
                bad(f"load:tensor-unreadable:{type(e).__name__}", f"{tag}: {e!r}"[:300])
                continue
            if got != r["raw"]:
                bad("load:tensor-bytes-differ", f"{tag}: loaded {type(t2).__name__} bytes differ from the generator's")
            want_ext = nbytes_of(init) > THRESH
            if isinstance(t2, ir.ExternalTensor) != want_ext and init["dtype"] != "STRING":
                info["classes"].append("obs:externalisation-differs-from-threshold")
    finally:
        for path, g in walk_graphs(m2.graph):
            for v in g.initializers.values():
                if isinstance(v.const_value, ir.ExternalTensor):
                    v.const_value.release()

    # (3) the standard loader agrees on the raw bytes
    try:
        full = onnx.load(env.model_abspath)
    except Exception as e:
        bad(f"load:onnx.load-external-raises:{type(e).__name__}", repr(e)[:300])
        return
    by_key = {(p, t.name): t for p, t in proto_initializers(full)}
    for r in env.inits:
        init = r["init"]
        if init["dtype"] == "STRING" or nbytes_of(init) <= THRESH:
            continue
        t = by_key.get((orig.get(id(r["value"])), init["name"]))
        if t is not None and t.HasField("raw_data") and t.raw_data != r["raw"]:
            bad("load:onnx-loader-bytes-differ", f"{init['name']}: raw_data after onnx.load differs from the generator's")


# ============================================================================================== regions / strategy
def _has_ext_dest(case):
    return any(i["kind"] == "ext" and i["ext"]["file"] == "dest" for i in case["spec"]["inits"])


def _has_big_string(case):
    return any(i["dtype"] == "STRING" and i["kind"] != "uninit" and nbytes_of(i) > THRESH for i in case["spec"]["inits"])


def _has_uninit_sub_only(case):
    ii = case["spec"]["inits"]
    return any(i["kind"] == "uninit" and i["where"] != "main" for i in ii) and not any(
        i["kind"] == "uninit" and i["where"] == "main" for i in ii)


def _has_2bit_external(case):
    return any(i["dtype"] in ("INT2", "UINT2") and (i["kind"] == "ext" or (i["kind"] != "uninit" and nbytes_of(i) > THRESH))
               for i in case["spec"]["inits"])


REGIONS = {
    "two_bit_dtype_stored_externally": _has_2bit_external,
    "ext_tensor_in_destination_data_file": _has_ext_dest,
    "string_initializer_above_threshold": _has_big_string,
    "uninitialized_only_in_subgraph": _has_uninit_sub_only,
}


def excluded_regions(shard_spec):
    """EXCLUDE (development) + the regions of the committed known findings the runner told us about."""
    ex = set(EXCLUDE)
    ids = set(shard_spec.get("known_ids") or [])
    if ids:
        from vf import runner

        for e in runner.load_known(ID):
            if e.get("status") == "known" and e.get("id") in ids and e.get("region") in REGIONS:
                ex.add(e["region"])
    return ex


def apply_excludes(spec, EXCLUDE, col=None):
    """Redirect a drawn description out of the excluded regions (by construction, counted)."""
    if not EXCLUDE:
        return spec
    spec = copy.deepcopy(spec)
    for i in spec["inits"]:
        if "two_bit_dtype_stored_externally" in EXCLUDE and _has_2bit_external({"spec": {"inits": [i]}}):
            i["dtype"] = {"INT2": "INT4", "UINT2": "UINT4"}[i["dtype"]]
            col and col.exclude("two_bit_dtype_stored_externally")
        if "ext_tensor_in_destination_data_file" in EXCLUDE and i["kind"] == "ext" and i["ext"]["file"] == "dest":
            i["ext"]["file"] = "other"
            col and col.exclude("ext_tensor_in_destination_data_file")
        if "string_initializer_above_threshold" in EXCLUDE and i["dtype"] == "STRING" and i["kind"] != "uninit" \
                and nbytes_of(i) > THRESH:
            i["strlen"] = 2
            i["shape"] = [min(int(np.prod(i["shape"])) if i["shape"] else 1, 20)]
            col and col.exclude("string_initializer_above_threshold")
    if "uninitialized_only_in_subgraph" in EXCLUDE and _has_uninit_sub_only({"spec": spec}):
        for i in spec["inits"]:
            if i["kind"] == "uninit":
                i["where"] = "main"
        col and col.exclude("uninitialized_only_in_subgraph")
    return spec


NAMES = ["w", "layer.0.weight", "b", "enc/kernel:0", "a b", "ünï", "W_3", "x.1", "p", "q", "0", "bias.bias"]
DEST_NAMES = ["model.onnx", "m.onnx", "model", "my model.onnx", "model.v2.onnx", "модель.onnx", "net.pb", "a.onnx.onnx",
              "model.textproto"]  # (text formats: ir.save picks the serializer from the extension of the path it is given)
SIZE_CLASSES = ["zero", "scalar", "small", "boundary", "above", "above", "above", "medium", "medium"]


def shape_for(size_class, dtype, draw_int):
    bits = bits_of(dtype) or 8
    per256 = 256 * 8 // bits  # elements that make exactly 256 bytes
    if size_class == "zero":
        return [[0], [2, 0], [0, 3]][draw_int(0, 2)]
    if size_class == "scalar":
        return [[], [1], [1, 1]][draw_int(0, 2)]
    if size_class == "small":
        n = draw_int(2, max(2, per256 // 2))
        return [n]
    if size_class == "boundary":
        return [per256] if draw_int(0, 1) else [2, per256 // 2]
    if size_class == "above":
        n = per256 + draw_int(1, 40)
        return [n] if draw_int(0, 2) else [1, n]
    if size_class == "medium":
        rows = draw_int(3, 12)
        return [rows, per256 // 2 + draw_int(0, 9)]
    if size_class == "huge":  # > 1 MiB: offsets get 64 KiB alignment padding
        n = (1 << 20) * 8 // bits + 8 * draw_int(1, 50)
        return [n]
    raise ValueError(size_class)


@st.composite
def specs(draw):
    di = lambda lo, hi: draw(st.integers(lo, hi))  # noqa: E731  (boundary-biased: good for sizes, bad for coin flips)
    chance = lambda num, den: draw(st.sampled_from(range(den))) < num  # noqa: E731  (uniform)
    n = draw(st.sampled_from([0, 1, 2, 2, 3, 3, 4, 4, 5, 6, 7]))
    names = draw(st.permutations(NAMES))[:n + 1]
    inits = []
    huge_used = False
    for i in range(n):
        dtype = draw(st.sampled_from(BYTE_DTYPES * 2 + SUB_DTYPES * 2 + ["STRING"] + ["FLOAT", "FLOAT", "INT64", "FLOAT16"]))
        sc = draw(st.sampled_from(SIZE_CLASSES))
        if not huge_used and dtype in BYTE_DTYPES and chance(1, 90):
            sc, huge_used = "huge", True
        init = {"name": names[i], "dtype": dtype, "seed": di(0, 2 ** 31), "where": draw(st.sampled_from(
            ["main"] * 6 + ["then", "then", "else", "inner"])), "typed": draw(st.booleans()), "vmeta": chance(1, 6),
            "tdoc": chance(1, 10)}
        if dtype == "STRING":
            init["kind"] = "string"
            cnt = di(0, 6)
            init["shape"] = [[], [cnt], [0]][di(0, 2)] if cnt else [0]
            init["strlen"] = di(0, 8)
            if chance(1, 8):  # region string_initializer_above_threshold
                init["shape"], init["strlen"] = [di(3, 9)], di(90, 140)
        else:
            init["shape"] = shape_for(sc, dtype, di)
            kinds = ["np", "np", "np", "proto_raw", "lazy", "ext", "ext"]
            if dtype in SUB_DTYPES:
                kinds += ["packed", "packed"]
            elif len(init["shape"]) == 2 and sc != "huge":
                kinds.append("np_noncontig")
            if dtype in TYPED_FIELD and sc != "huge":
                kinds.append("proto_typed")
            if sc == "huge":
                kinds = ["np", "np", "lazy", "ext"]
            init["kind"] = draw(st.sampled_from(kinds))
            if init["kind"] == "lazy":
                init["cache"] = draw(st.booleans())
            if init["kind"] == "ext":
                init["ext"] = {"file": draw(st.sampled_from(["other", "other", "otherdir", "dest", "otherdir_samename"])),
                               "gap": draw(st.sampled_from([0, 0, 16, 100, 4096])), "touched": draw(st.booleans())}
                init["tdoc"] = False
        if init["where"] == "main":
            init["as_input"] = chance(1, 5)
        inits.append(init)
    if n and chance(1, 6):
        # re-export of a loaded model: every tensor above the threshold is external in a data file of the SAME NAME as the destination's,
        # in another directory; the rest is small
        for init in inits:
            if init.get("kind") == "string":
                continue
            if init["kind"] == "ext" or chance(2, 3):
                init["kind"] = "ext"
                init["ext"] = {"file": "otherdir_samename", "gap": draw(st.sampled_from([0, 0, 16])), "touched": draw(st.booleans())}
                init["tdoc"] = False
                init.pop("cache", None)
            else:
                init["kind"] = "np"
                init["shape"] = [di(0, 3)] if init["dtype"] not in SUB_DTYPES else [di(0, 6)]
                init.pop("cache", None)
    th = [i for i in inits if i["where"] == "then"]
    el = [i for i in inits if i["where"] == "else"]
    if th and el and chance(1, 2):
        el[0]["name"] = th[0]["name"]  # sibling scopes are independent in ONNX: the branches own different tensors under one name
    u = draw(st.sampled_from(range(20)))
    if u == 0 or (u == 1 and n):  # uninitialised initializer (u==0: extra one; u==1: among others, possibly in a subgraph)
        inits.insert(di(0, len(inits)), {"name": names[n], "dtype": draw(st.sampled_from(["FLOAT", "INT64", "FLOAT16"])),
                                         "shape": [di(1, 400)], "kind": "uninit", "seed": 0, "typed": True,
                                         "where": "main" if u == 0 or chance(1, 3) else draw(st.sampled_from(["then", "else", "inner"]))})
    spec = {
        "inits": inits,
        "with_if": draw(st.booleans()), "nested_if": chance(1, 4), "const_attr": chance(1, 4),
        "meta": draw(st.booleans()), "ir_version": draw(st.sampled_from([8, 9, 10, 10, 11])),
        "dest": {"form": draw(st.sampled_from(["abs_str", "abs_str", "abs_path", "rel_dir", "rel_dir_path", "bare", "rel_up"])),
                 "name": draw(st.sampled_from(DEST_NAMES))},
        "pre": {"model": draw(st.booleans()), "data": draw(st.booleans()), "other": draw(st.booleans())},
        "verbose": chance(1, 3), "hide_fileno": draw(st.booleans()), "errno0": draw(st.sampled_from([0, 1, 2])),
    }
    return spec


# ============================================================================================== driver
def spec_hash(spec):
    return hashlib.sha1(json.dumps(spec, sort_keys=True).encode()).hexdigest()[:16]


def describe(spec):
    return {"initializers": [f"{i['name']}:{i['dtype']}{i['shape']}:{i['kind']}"
                             + (":" + i["ext"]["file"] if i["kind"] == "ext" else "") + "@" + i["where"]
                             for i in spec["inits"]],
            "dest": spec["dest"], "pre": spec["pre"], "verbose": spec["verbose"], "hide_fileno": spec["hide_fileno"]}


def model_classes(spec):
    cls = set()
    above = 0
    for i in spec["inits"]:
        cls.add("kind:" + i["kind"] + (":" + i["ext"]["file"] + (":touched" if i["ext"].get("touched") else "")
                                       if i["kind"] == "ext" else ""))
        cls.add("dtype:" + i["dtype"])
        cls.add("where:" + i["where"])
        if i["kind"] == "uninit":
            continue
        nb = nbytes_of(i)
        cls.add("size:" + ("0" if nb == 0 else "<=256" if nb < THRESH else "==256" if nb == THRESH else
                           ">256" if nb <= (1 << 20) else ">1MiB"))
        above += nb > THRESH
        if i.get("as_input"):
            cls.add("initializer_is_graph_input")
    cls.add(f"n_initializers={len(spec['inits'])}")
    cls.add(f"n_above_threshold={min(above, 4)}{'+' if above >= 4 else ''}")
    cls.add("dest:" + spec["dest"]["form"])
    for k, v in spec["pre"].items():
        if v:
            cls.add("preexisting:" + k)
    cls.add("verbose" if spec["verbose"] else "quiet")
    cls.add("files_without_fileno" if spec["hide_fileno"] else "files_with_fileno")
    return sorted(cls), above


@contextlib.contextmanager
def scratch():
    root = tempfile.mkdtemp(prefix="verif-c20-")
    try:
        yield root
    finally:
        shutil.rmtree(root, ignore_errors=True)
        if os.path.exists(root):
            raise RuntimeError(f"scratch dir {root} could not be removed")


def enumerate_case(spec, on_run):
    """Fault-free run, then every (k, mode).  on_run(k, mode, errno, verdicts, info, n_events)."""
    with scratch() as root:
        v0, i0 = run_once(spec, 0, "none", "ENOSPC", root)
        if "skip" in i0:
            on_run(0, "none", None, v0, i0, 0)
            return
        trace = [e[0] + " " + e[1] for e in i0["events"]]
        n = len(trace)
        on_run(0, "none", None, v0, i0, n)
        if i0["unpatched"]:
            raise RuntimeError(f"file-system calls bypassed the patch layer: {i0['unpatched'][:5]}")
        if any(b.startswith(("uninit:", "raise:")) for b, _ in v0):
            return  # the sequence of calls of a failed fault-free save is not the save's call sequence
        if n > MAX_EVENTS:
            i0["truncated"] = True
            n = MAX_EVENTS
        for k in range(1, n + 1):
            en = ERR_NAMES[(k + spec.get("errno0", 0)) % 3]
            for mode in ("single", "sticky"):
                v, i = run_once(spec, k, mode, en, root)
                got = [e[0] + " " + e[1] for e in i["events"]][:k]
                if got != trace[:k]:
                    raise RuntimeError(f"trace prefix differs at k={k}: {got[-3:]} vs {trace[max(0, k - 3):k]}")
                if i["fired"][:1] != [k]:
                    raise RuntimeError(f"fault {k} did not fire: {i['fired']}")
                i["fault_op"] = i["events"][k - 1][0]
                on_run(k, mode, en, v, i, n)


def run_shard(spec_):
    col = Collector()
    col.extra.update({"models": 0, "fault_points_total": 0, "leaked_handles": 0,
                      "runs_returned_despite_fault": 0, "models_truncated_enumeration": 0})

    excluded = excluded_regions(spec_)

    def body(spec):
        spec = apply_excludes(spec, excluded, col)
        h = spec_hash(spec)
        mcls, above = model_classes(spec)
        col.extra["models"] += 1

        def on_run(k, mode, en, verdicts, info, n):
            if "skip" in info:
                col.skip(info["skip"])
                return
            classes = list(info["classes"])
            if k == 0:
                classes += mcls + ["run:fault-free", "outcome:" + ("returned" if info["returned"] else "raised:" + info["exc"])]
                col.extra["fault_points_total"] += n
                classes.append("fault_points:" + ("0" if n == 0 else "1-9" if n < 10 else "10-29" if n < 30 else
                                                  "30-99" if n < 100 else "100+"))
                if info.get("truncated"):
                    col.extra["models_truncated_enumeration"] += 1
            else:
                classes += ["fault@" + info["fault_op"], "errno:" + en, "mode:" + mode,
                            "outcome:" + ("returned" if info["returned"] else "raised:" + info["exc"])]
                if info["returned"]:
                    col.extra["runs_returned_despite_fault"] += 1
            col.extra["leaked_handles"] += info["leaked"]
            if info["leaked"]:
                classes.append("obs:file-handle-left-open-by-save")
            nontrivial = above >= 2 and k >= 2
            sample = None
            if nontrivial:
                sample = {"model": describe(spec), "k": k, "of": n, "mode": mode, "errno": en,
                          "faulted_call": info["brief"][k - 1] if k <= len(info["brief"]) else None,
                          "outcome": "returned" if info["returned"] else "raised " + info["exc"],
                          "calls_before_fault": info["brief"][:min(k - 1, 12)]}
            col.case((h, k, mode), nontrivial, classes, sample=sample)
            for bucket, detail in verdicts:
                col.violation(bucket, detail, {"spec": spec, "k": k, "mode": mode, "errno": en or "ENOSPC",
                                               "text": describe(spec)}, size=len(spec["inits"]) * 1000 + k)

        enumerate_case(spec, on_run)

    drive(specs(), body, spec_["n"], spec_["seed"])
    col.extra["fault_index_exhaustive_per_model"] = col.extra["models_truncated_enumeration"] == 0
    return col.result()


def plan(tier, seed, budget):
    n = int((640 if tier == "quick" else 80000) * budget)
    shards = 16 if tier == "quick" else 64
    return [{"n": max(1, n // shards)} for _ in range(shards)]


def replay(case):
    with scratch() as root:
        verdicts, info = run_once(case["spec"], int(case.get("k") or 0), case.get("mode", "single"),
                                  case.get("errno", "ENOSPC"), root)
    return verdicts


def shrink(case, bucket):
    """Greedy structural minimisation: drop initializers / switches while some (k, mode) still shows the bucket."""
    budget = [60]

    def fails(spec):
        if budget[0] <= 0:
            return None
        budget[0] -= 1
        hit = []

        def on_run(k, mode, en, verdicts, info, n):
            if not hit and any(b == bucket for b, _ in verdicts):
                hit.append({"spec": spec, "k": k, "mode": mode, "errno": en or "ENOSPC", "text": describe(spec)})

        try:
            enumerate_case(spec, on_run)
        except Exception:
            return None
        return hit[0] if hit else None

    best = fails(case["spec"]) or case
    changed = True
    while changed and budget[0] > 0:
        changed = False
        for idx in range(len(best["spec"]["inits"])):
            cand = copy.deepcopy(best["spec"])
            del cand["inits"][idx]
            r = fails(cand)
            if r:
                best, changed = r, True
                break
        if changed:
            continue
        for key, val in (("verbose", False), ("const_attr", False), ("meta", False), ("with_if", False), ("nested_if", False)):
            if best["spec"].get(key) != val:
                cand = copy.deepcopy(best["spec"])
                cand[key] = val
                r = fails(cand)
                if r:
                    best, changed = r, True
                    break
    return best
