"""C09 - shape-based simplifications hold for every runtime binding of symbolic dims."""
from __future__ import annotations

import itertools
import os

import numpy as np

from vf import compare, modelgen, optcommon, wellformed
from vf.hyp import drive, st
from vf.runner import Collector

ID = "C09"
LEVEL = "exploration"
RULE = ("Hypothesis-generated models whose inputs carry symbolic dims (named, unnamed, repeated names) and whose bodies mix data ops with "
        "the shape idioms the optimizer reasons about (Shape/Size/Gather/Slice/Concat/arith/Cast on shapes, Reshape, Flatten, Expand, "
        "ConstantOfShape, planted hosts of the shape-dependent rewrite rules), with or without value_info. One optimize()/rewrite()/"
        "fold_constants() per model (options drawn), then MANY bindings per optimized model: every assignment of {0,1,2,3,7} to the symbols "
        "when there are <=3 independent dims, else a seeded sample of 60; fresh tensors per binding. Oracle: for each binding on which M "
        "executes, f(M) executes and agrees (two-runtime decision table). Bindings that M rejects but f(M) accepts are counted "
        "(domain_widened), not raised. Non-trivial = the transformation changed the node multiset and the binding contains a 0, a 1 or two "
        "independent dims with equal values; distinct by (model hash, options, binding).")
ASSUMPTIONS = ["onnxruntime CPU (optimisations off) and onnx.reference implement ONNX semantics", "the declared symbolic dims are the model's contract: "
               "equal names are bound to equal values"]
FLOOR = {"quick": 1000, "thorough": 20000}
TIMEOUT = {"quick": 1500, "thorough": 5 * 3600}
SIZES = [0, 1, 2, 3, 7]


IDIOMS = ["reshape_to_sibling_shape", "expand_to_sibling_shape", "reshape_own_shape", "slice_full", "concat_head_minus1", "cos_cast", "binop_after_expand",
          "gather_dim_arith", "expand_const_target", "reshape_const_target", "shape_cast_chain"]


# hosts of the rewrite rules whose conditions look at shapes / symbolic dims: each gets shards of its own (symbolic inputs, all bindings)
SHAPE_RULE_HOSTS = ["host_scatter_dynamic", "host_scatter_static", "host_reshape_reshape", "host_materialize_reshape", "host_flatten",
                    "host_expand_before_binary_op", "host_expand", "host_squeeze_reshape", "host_slice1", "host_slice2", "host_slice_split",
                    "host_cast_cos", "host_one_reshape_matmul", "host_two_reshapes_matmul", "host_matmul_add", "host_unsqueeze_unsqueeze"]


# hosts of exported rule sets that the default pipeline does not contain: only their own shards reach them (api "rule"), so they get more cases
NON_DEFAULT_RULE_HOSTS = ("host_expand_before_binary_op",)


def _plant_symbolic_idioms(g, kind=None):
    """Shape idioms over inputs whose declared dims are symbolic: distinct symbol names with EQUAL sample sizes, repeated names,
    so that bindings such as (N=0, M != K) or (M == K) are in the model's domain although the sample has M == K."""
    import numpy as np
    from vf.modelgen import F32, I64

    if g.depth or any(v.kind == "input" and v.name.startswith("sx") for v in g.env):
        return None
    n, m = g.pick([1, 2, 3]), g.pick([1, 2, 3])
    names = g.pick([("N", "M", "N", "K"), ("N", "M", "N", "K"), ("N", "M", "K", "M"), ("N", "M", "N", "M"), ("A", "B", "C", "D"), ("N", "M", "P", "M"), ("N", None, "N", None)])
    dt = g.pick([F32, F32, I64])
    k = kind or g.pick(IDIOMS)
    xdims = [names[0], names[1]]
    if k in ("shape_cast_chain", "gather_dim_arith") and g.chance(6):
        # one dim static, the other symbolic: Shape is not folded as a whole but single entries are known
        i_static = g.pick([1, 0])
        xdims = [names[0], names[1]]
        xdims[i_static] = (n, m)[i_static]
        g.features.add("planted:sym_idiom:mixed_static_symbolic_shape")
    x = g.add_input(dt, (n, m), style="smallint", dims=xdims)
    y = g.add_input(dt, (n, m), style="smallint", dims=[names[2], names[3]])
    g.features.add("planted:sym_idiom")
    g.features.add("planted:sym_idiom:" + k)
    c = lambda a: g.const_array(np.asarray(a, dtype=np.int64), how="node")  # noqa: E731
    sy = g.emit("Shape", [y])
    sx = g.emit("Shape", [x])
    if not sy or not sx:
        return None
    if k == "expand_const_target":
        # a CONSTANT target equal to the sample shape: the model accepts N == n and N == 1 (broadcast), only the former is a no-op
        t = [n, m]
        if g.chance(4):
            t = [1] + t
        r = g.emit("Expand", [g.emit("Relu", [x])[0] if dt == F32 and g.chance(5) else x, c(t)])
    elif k == "reshape_const_target":
        # constant target with 0 (copy) / -1 entries over symbolic input dims
        r = g.emit("Reshape", [x, c(g.pick([[0, -1], [-1, m], [n, -1], [0, m], [-1]]))])
    elif k == "reshape_to_sibling_shape":
        r = g.emit("Reshape", [x, sy[0]])
    elif k == "expand_to_sibling_shape":
        r = g.emit("Expand", [x, sy[0]])
    elif k == "reshape_own_shape":
        r = g.emit("Reshape", [x, sx[0]])
    elif k == "slice_full":
        d0 = g.emit("Gather", [sy[0], c(0)], axis=0)
        e = g.emit("Unsqueeze", [d0[0], c([0])]) if d0 else None
        r = g.emit("Slice", [x, c([0]), e[0], c([0])]) if e else None
    elif k == "concat_head_minus1":
        h = g.emit("Slice", [sy[0], c([0]), c([1])])
        t = g.emit("Concat", [h[0], c([-1])], axis=0) if h else None
        r = g.emit("Reshape", [x, t[0]]) if t else None
    elif k == "cos_cast":
        z = g.emit("ConstantOfShape", [sy[0]])
        zc = g.emit("Cast", [z[0]], to=modelgen.np2onnx(dt)) if z else None
        r = g.emit("Add", [x, zc[0]]) if zc else None
    elif k == "shape_cast_chain":
        # Cast chains over a Shape (or Size): after a Cast the dims survive only as values of the target type (BOOL collapses them to
        # 0/1, FLOAT/INT32 change the element type of everything computed from them), optionally cast back to INT64, then consumed
        # by the operators the folder tracks symbolically (Gather, Abs, Add, Concat -> Reshape target)
        from onnx import TensorProto as TP

        src = sx[0]
        if g.chance(3):
            a_ = g.emit("Abs", [src])
            src = a_[0] if a_ else src
        to1 = g.pick([TP.BOOL, TP.FLOAT, TP.INT32, TP.INT64, TP.DOUBLE, TP.BOOL])
        s1 = g.emit("Cast", [src], to=to1)
        s2 = g.emit("Cast", [s1[0]], to=TP.INT64) if s1 and g.chance(5) else s1
        use = g.pick(["gather", "gather", "add", "abs", "concat_reshape"])
        g.features.add(f"planted:sym_idiom:shape_cast_chain:to{to1}:{'back' if s2 is not s1 else 'stay'}:{use}")
        r = None
        if s2:
            if use == "gather":
                r = g.emit("Gather", [s2[0], c(g.pick([[1], [0], 1, -1]))], axis=0)
            elif use == "add" and s2[0].dtype != np.bool_:
                r = g.emit("Add", [s2[0], s2[0]])
            elif use == "abs" and s2[0].dtype != np.bool_:
                r = g.emit("Abs", [s2[0]])
            elif use == "concat_reshape" and s2[0].dtype == I64:
                h = g.emit("Slice", [s2[0], c([0]), c([1])])
                t = g.emit("Concat", [h[0], c([-1])], axis=0) if h else None
                r = g.emit("Reshape", [x, t[0]]) if t else None
            else:
                r = g.emit("Gather", [s2[0], c([0])], axis=0)
    elif k == "binop_after_expand":
        e = g.emit("Expand", [x, sy[0]])
        r = g.emit(g.pick(["Add", "Mul", "Sub"]), [e[0], y]) if e else None
    else:
        d = g.emit("Gather", [sx[0], c(g.pick([0, 1, -1]))], axis=0)
        d2 = g.emit("Gather", [sy[0], c(g.pick([0, 1, -1]))], axis=0)
        r = g.emit(g.pick(["Add", "Mul", "Sub", "Equal"]), [d[0], d2[0]]) if d and d2 else None
    if r and r[0].dtype in (F32, I64) and r[0].rank >= 1 and g.chance(6):
        g.emit("ReduceSum", [r[0], c([0])], keepdims=g.pick([0, 1]))
        g.emit("Shape", [r[0]])
    if kind and r:  # dedicated idiom shard: the idiom's result is always a graph output
        g.__dict__.setdefault("forced", []).extend(r)
    return r


def _cfg():
    from vf.rulehosts import planters

    return {"symbolic": True, "overridable": False, "zero_dims": False, "value_info": True, "max_nodes": 9, "max_inputs": 2,
            "extra_generators": planters() + [_plant_symbolic_idioms] * 12, "extra_weight": 3, "disable": ("g_sequence", "g_matmul", "g_loop", "g_function_call")}


def plan(tier, seed, budget):
    n = int((480 if tier == "quick" else 30000) * budget)
    shards = 16 if tier == "quick" else 64
    # general shards + dedicated shards, one per shape idiom (construction, not rejection: the idiom is planted first and is an output)
    reps = 1 if tier == "quick" else 8
    return ([{"n": max(1, n // shards)} for _ in range(shards)] + [{"n": max(5, n // (shards * 3)), "idiom": k} for k in IDIOMS for _ in range(reps)]
            + [{"n": max(30, n // shards) * (12 if h in NON_DEFAULT_RULE_HOSTS else 1), "host": h} for h in SHAPE_RULE_HOSTS for _ in range(reps)])


def bindings_for(gm, seed, cap=60):
    syms = gm.symbols()
    if not syms:
        return syms, []
    if len(syms) <= 3:
        combos = [dict(zip(syms, c)) for c in itertools.product(SIZES, repeat=len(syms))]
    else:
        # half uniform, half drawn from a two-value pool per binding (so that relations between dims the model itself needs, e.g.
        # N*M == N*K for a Reshape, hold often enough, and equalities / zeros co-occur)
        rng = np.random.default_rng(seed)
        combos = [dict(zip(syms, [SIZES[int(i)] for i in rng.integers(0, len(SIZES), size=len(syms))])) for _ in range(cap // 2)]
        for _ in range(cap - cap // 2):
            pool = [SIZES[int(i)] for i in rng.integers(0, len(SIZES), size=2)]
            combos.append(dict(zip(syms, [pool[int(i)] for i in rng.integers(0, 2, size=len(syms))])))
    return syms, combos


def interesting(b):
    vals = list(b.values())
    return 0 in vals or 1 in vals or len(set(vals)) < len(vals)


def check(model, gm, o, combos, seed, fixed_feeds=None):
    verdicts, info = [], {"bindings": 0, "compared": 0, "widened": 0, "source_rejects": 0, "split": 0, "interesting_compared": 0}
    if o["api"] == "rule":
        # a shape-dependent rule (set) applied on its own - the only way the rule sets that are exported but not part of the default
        # pipeline (expand_before_binary_op_rules) are reached; same oracle: every binding the source accepts
        from vf.props.C05 import apply_rule

        r = apply_rule(model, o["rule"])
        r = ("ok", r[2]) if r[0] == "ok" else r
    else:
        r = optcommon.apply_api(model, o)
    if r[0] == "raise":
        info["raised"] = True
        return verdicts, info
    new = r[1]
    info["changed"] = optcommon.folded_or_rewritten(model, new)
    src = compare.Source(model)
    newsrc = compare.Source(new)
    from vf.props.C03 import diff_key

    dk = diff_key(model, new)
    from vf import execs

    t0 = execs._Server.timeouts
    for i, b in enumerate(combos):
        if execs._Server.timeouts > t0:
            # the runtime hangs on this model (a shape computed from data asks for a gigantic tensor): the remaining bindings are not informative
            info["ort_timeout_abandoned"] = 1
            if os.environ.get("VERIF_DEBUG_TIMEOUT"):
                open(os.environ["VERIF_DEBUG_TIMEOUT"], "a").write(modelgen.model_text(model, 4000) + "\n" + repr(combos[i - 1]) + "\n\n")
            break
        feeds = fixed_feeds[i] if fixed_feeds else gm.feeds_for_binding(b, seed + i)
        info["bindings"] += 1
        v, d = compare.decide(src, newsrc, [feeds])
        if v == "skip_source_fails":
            info["source_rejects"] += 1
            c, e, _ = newsrc.run(feeds)
            if c[0] == "ok" or e[0] == "ok":
                info["widened"] += 1
            continue
        if v == "ok":
            info["compared"] += 1
            if interesting(b):
                info["interesting_compared"] += 1
        elif v.startswith("violation"):
            if not _source_outputs_conform(model, src, feeds, b):
                # the binding drives an output outside its DECLARED type (a run-time shape operand of another length changes the
                # output's rank): outside the model's contract, a transformation may rely on the declaration
                info["binding_contradicts_declared_output"] = info.get("binding_contradicts_declared_output", 0) + 1
                continue
            single = ":single-runtime" if ("ref: None" in d or "ort: None" in d) else ""
            cls = "zero" if 0 in b.values() else "one" if 1 in b.values() else "equal" if len(set(b.values())) < len(b) else "generic"
            verdicts.append((f"{v}:{dk}:binding_has_{cls}{single}", f"binding {_b(b)}: {d}", b, feeds))
            if len(verdicts) >= 3:
                break
        elif v == "inconclusive_split":
            info["split"] += 1
    return verdicts, info


def _source_outputs_conform(model, src, feeds, binding):
    """The outputs the ORIGINAL model yields under this binding have the rank, the static dims and (for named dims the binding fixes)
    the sizes that the graph outputs declare."""
    a, r, _ = src.run(feeds)
    outs = a[1] if a[0] == "ok" else r[1] if r[0] == "ok" else None
    if outs is None:
        return True
    for vi, val in zip(model.graph.output, outs):
        tt = vi.type.tensor_type
        if isinstance(val, list) or not vi.type.HasField("tensor_type") or not tt.HasField("shape"):
            continue
        shp = np.asarray(val).shape
        if len(tt.shape.dim) != len(shp):
            return False
        for d, n in zip(tt.shape.dim, shp):
            if d.HasField("dim_value") and d.dim_value != n:
                return False
            if d.HasField("dim_param") and d.dim_param in binding and binding[d.dim_param] != n:
                return False
    return True


def _b(b):
    return {str(k): v for k, v in b.items()}


def run_shard(spec):
    col = Collector()

    def body(case):
        o, gm = case
        if wellformed.check_model(gm.model):
            col.skip("generator_invalid")
            return
        seed = gm.seeds(1)[0]
        syms, combos = bindings_for(gm, seed, 60 if spec["tier"] == "quick" else 200)
        if not syms:
            col.skip("no_symbolic_dims")
            return
        verdicts, info = check(gm.model, gm, o, combos, seed)
        if info.get("raised"):
            col.skip("api_raised(see C04)")
            return
        mh = modelgen.model_hash(gm.model)
        changed = bool(info.get("changed"))
        classes = ["api:" + o["api"], "symbols:%d" % len(syms)] + [f for f in gm.features if f.startswith(("planted:", "shape_chain", "value_info"))]
        if changed:
            classes.append("model_changed")
        # one evidence case per compared binding: weight = number of bindings compared
        col.case((mh, sorted(o.items())), changed and info["interesting_compared"] > 0, classes,
                 sample={"options": o, "symbols": [str(s) for s in syms], "bindings_compared": info["compared"], "model": modelgen.model_text(gm.model, 900)},
                 weight=max(1, info["bindings"]))
        # distinct non-trivial (model, binding) pairs are counted explicitly
        if changed:
            for i in range(info["interesting_compared"]):
                col.nontrivial.add(f"{mh}:{i}")
        for k in ("compared", "widened", "source_rejects", "split", "interesting_compared", "bindings", "ort_timeout_abandoned", "binding_contradicts_declared_output"):
            col.extra[k] = col.extra.get(k, 0) + info.get(k, 0)
        for bucket, detail, b, vfeeds in verdicts:
            col.violation(bucket, detail, {"model": optcommon.model_to_json(gm.model), "opts": o, "binding": [[list(k) if isinstance(k, tuple) else k, v] for k, v in b.items()],
                                           "feeds": [optcommon.feeds_to_json(vfeeds)],
                                           "declared": gm.declared, "input_specs": gm.input_specs, "seed": seed, "text": modelgen.model_text(gm.model, 3000)}, size=gm.n_nodes)

    cfg = _cfg()
    if spec.get("idiom"):
        cfg.update(pre=lambda g: _plant_symbolic_idioms(g, spec["idiom"]), min_inputs=0, max_inputs=1, max_nodes=4, min_nodes=0)
    if spec.get("host"):
        from vf.rulehosts import planters

        host = next(p for p in planters() if p.__name__ == spec["host"])

        def pre(g, host=host):
            r = host(g)
            if r:  # the host's results are graph outputs
                g.__dict__.setdefault("forced", []).extend(v for v in r if isinstance(getattr(v, "arr", None), np.ndarray) and v.kind == "node")

        cfg.update(pre=pre, min_inputs=0, max_inputs=1, max_nodes=3, min_nodes=0)
    opts = optcommon.option_tuples(["optimize", "optimize", "optimize_ir", "fold_constants_si", "rewrite"])
    if spec.get("host"):
        from vf.rulehosts.plant import HOSTS

        units = sorted(n for n, fns in HOSTS.items() if any(f.__name__ == spec["host"] for f in fns))
        from vf.props.C05 import rule_units

        units = [u for u in units if u in rule_units()]
        if units:  # half of the host's cases apply the host's own rule unit alone
            opts = st.one_of(opts, st.sampled_from(units).map(lambda u: {"api": "rule", "rule": u}))
    drive(st.tuples(opts, modelgen.models(cfg)), body, spec["n"], spec["seed"])
    return col.result()


def replay(case):
    model = optcommon.model_from_json(case["model"])
    gm = modelgen.GenModel(model, {}, [tuple(x) for x in case["input_specs"]], [], [], 0, 0, {}, case["declared"])
    b = {(tuple(k) if isinstance(k, list) else k): v for k, v in case["binding"]}
    fixed = [optcommon.feeds_from_json(f) for f in case["feeds"]] if case.get("feeds") else None
    verdicts, _ = check(model, gm, case["opts"], [b], case["seed"], fixed)
    return [(v[0], v[1]) for v in verdicts]


from vf.known_regions import REGIONS  # noqa: E402
