"""C10 - opset version conversion yields a valid, equivalent model at the target version."""
from __future__ import annotations

import os

import numpy as np
import onnx
from onnx import helper, numpy_helper

from vf import compare, execs, modelgen, optcommon, wellformed
from vf.hyp import drive, st
from vf.modelgen import F32, F64, Gen, Val, _free_names, _value_info, make_array
from vf.runner import Collector

ID = "C10"
EARLY_ATTRIBUTION = True  # region predicates are cheap scans of the stored case
LEVEL = "exploration"
RULE = ("Hypothesis-generated executable models at source opset s in 18..25 (typed construction by concrete execution, vf.modelgen.Gen) "
        "holding 1-2 planted adapter-op instances - DFT (rank 3/4, axis attribute|input present/absent, onesided/inverse, dft_length), "
        "GridSample (all modes and padding modes incl. defaults, 4-D), GroupNormalization (per-group scale/bias below opset 21, "
        "per-channel from 21; x static/symbolic/intermediate with or without value_info; scale/bias as initializer, Constant, typed or "
        "untyped input) - placed in the main graph, an If branch, a Loop body or a model-local function, plus 0-4 random unchanged nodes "
        "(incl. If/Loop/function calls), an initializer of >1000 elements, names colliding with the converter's fresh names, overridable "
        "initializers; x target t in 18..25 x entry {convert_version(ir.Model), convert_version(ModelProto), ConvertVersionPass, "
        "_version_converter.convert_version} x fallback {None, False, True} x node.version {unset, all set, every other set}. Oracle: the "
        "call raises only for an unsupported direction (t<s without fallback) and then leaves the argument as it was; otherwise the result "
        "declares default-domain opset t in the model, every function and every set node.version - or is left at s, unconverted; it "
        "passes the independent walker + onnx.checker at the declared version, keeps live initializers (names, bytes) and the graph "
        "signature, and is equivalent to the source on >=3 inputs (onnxruntime + onnx.reference decision table). Non-trivial = s != t "
        "and the model holds an adapter op, a subgraph or a function; distinct by (model hash, s, t, entry, fallback, versions).")
ASSUMPTIONS = ["onnxruntime CPU (optimisations off) and onnx.reference implement the ONNX operator semantics of every opset 18..25",
               "two kernels are added to onnx.reference so that it can be the second runtime everywhere: GridSample reading the opset-16 "
               "mode names bilinear/bicubic as the opset-20 linear/cubic kernels (the renaming stated in the opset-20 changelog) and a "
               "numpy GroupNormalization (per-group scale/bias below opset 21, per-channel from 21); a case counts only if onnxruntime "
               "and this evaluator agree on the source",
               "onnx.checker + vf/wellformed.py define validity; the checker's 'GroupNormalization is deprecated' complaint below opset 21 "
               "is tolerated on source and unconverted models (the 20->21 adapter exists for exactly those models)",
               "onnx_ir (site-packages) serialises an ir.Model faithfully (ir.to_proto is the observation of an in-memory model)",
               "'left as it was' is read semantically (declared opset s everywhere, valid, same signature/initializers, equivalent): the "
               "pass inlines functions and removes dead nodes before converting, so byte equality is demanded only of a ModelProto "
               "argument when the call raises"]
FLOOR = {"quick": 300, "thorough": 5000}
TIMEOUT = {"quick": 900, "thorough": 4 * 3600}

# Named regions of confirmed findings (see REGIONS at the bottom).  Development only: names listed here are not generated
# (redirected + counted) resp. not reported (proto_entry_stale_opset_import: the stale import is tolerated, the rest of the
# oracle continues on a copy whose opset_import is patched to t).
EXCLUDE: set = set(filter(None, os.environ.get("VERIF_C10_EXCLUDE", "").split(",")))

IRV = {18: 8, 19: 9, 20: 9, 21: 10, 22: 10, 23: 11, 24: 12, 25: 13}
ENTRIES = ["ir", "ir", "ir", "proto", "proto", "pass", "native"]
FAMILIES = ["DFT", "GridSample", "GroupNormalization"]
SHORT = {"DFT": "DFT", "GridSample": "GS", "GroupNormalization": "GN"}
_DEPRECATED_GN = "GroupNormalization is deprecated"


# ===================================================================================== generator
def plan(tier, seed, budget):
    n = int((4000 if tier == "quick" else 120000) * budget)
    shards = 16 if tier == "quick" else 64
    return [{"n": max(1, n // shards)} for _ in range(shards)]


def _sub(g, parent_vis):
    sub = Gen(g.draw, dict(g.cfg, outer=parent_vis, counter=g.counter, used_names=g.used_names, depth=g.depth + 1,
                           opset=g.opset, overridable=False))
    sub.functions = g.functions
    return sub


def _emit(h, op, ins, n_out=1, domain="", subgraph_free=(), **attrs):
    """Gen.emit, with onnxruntime as second opinion for the concrete evaluation: onnx.reference has no kernel for the
    GridSample-16 mode names (bilinear/bicubic) and cannot expand GroupNormalization inside subgraphs or functions."""
    r = h.emit(op, ins, n_out=n_out, domain=domain, subgraph_free=subgraph_free, **attrs)
    if r is not None:
        return r
    outs = [h.fresh("t") for _ in range(n_out)]
    node = helper.make_node(op, [v.name if v is not None else "" for v in ins], outs, domain=domain, **attrs)
    free, seen = [], set()
    for v in [v for v in ins if v is not None] + list(subgraph_free):
        if v.name not in seen and isinstance(v.arr, np.ndarray):
            seen.add(v.name)
            free.append(v)
    try:
        graph = helper.make_graph([node], "n", [_value_info(v.name, v.arr) for v in free], [helper.make_empty_tensor_value_info(o) for o in outs])
        opsets = [helper.make_opsetid("", h.opset)]
        fl = list(h.functions.values()) if h.functions else []
        for d in sorted({f.domain for f in fl}):
            opsets.append(helper.make_opsetid(d, 1))
        m = helper.make_model(graph, opset_imports=opsets, functions=fl, ir_version=IRV.get(h.opset, 10))
        res = execs.run_ort(m, {v.name: v.arr for v in free})
    except Exception:  # noqa: BLE001
        res = ("err", "")
    if res[0] != "ok" or any(not isinstance(a, np.ndarray) for a in res[1]):
        for o in outs:
            h.used_names.discard(o)
        return None
    vals = []
    for o, a in zip(outs, res[1]):
        h.value_types[o] = (a.dtype, a.shape)
        vals.append(Val(o, a, "node"))
    h.nodes.append(node)
    h.env.extend(vals)
    h.features.add("op:" + op)
    h.features.add("evaluated_by_ort")
    return vals


def _maybe_intermediate(g, x, P):
    """x itself or a shape-preserving unary of it (so the converter sees a value without declared type)."""
    if g.chance(3):
        r = g.emit(g.pick(["Neg", "Identity", "Abs"]), [x])
        if r:
            P["x_kind"] = "intermediate"
            return r[0]
    P["x_kind"] = "input"
    return x


def prep_dft(g, P, col):
    s = g.opset
    rank = g.pick([3, 4, 4])
    last = g.pick([1, 1, 2])
    sig = tuple(g.pick([2, 3, 4]) for _ in range(rank - 2))
    shape = (g.pick([1, 2]),) + sig + (last,)
    dims = list(shape)
    if g.chance(2):
        dims[0] = g.fresh("N")  # symbolic names are never shared between inputs (their sizes are drawn independently)
    x = g.add_input(g.pick([F32, F32, F32, F64]), shape, dims=dims, style=g.pick(["mixed", "smallint", "unit"]))
    x = _maybe_intermediate(g, x, P)
    # (the accepted range is [-r, -2] U [0, r-2]: axis 0, the batch axis, is legal and is the one value that is falsy in Python)
    axis = g.pick([None, None] + list(range(0, rank - 1)) + list(range(-rank, -1)))
    if axis is None and rank == 4 and s <= 19 and "dft_default_axis_rank4" in EXCLUDE:
        col.exclude("dft_default_axis_rank4")
        axis = g.pick([1, 2, -2, -3])
    onesided = g.pick([None, 0, 1]) if last == 1 else g.pick([None, 0])
    # onesided=1 with inverse=1 means something else from opset 20 on (IRFFT of a complex input): outside the convertible domain
    inverse = g.pick([None, 0, 1]) if not onesided else g.pick([None, 0])
    n_ax = shape[1 if axis is None and s <= 19 else (-2 if axis is None else axis)]
    length = g.pick([None, None, None, n_ax, n_ax + 2, max(1, n_ax - 1)])
    P.update(op="DFT", rank=rank, axis=axis, onesided=onesided, inverse=inverse, dft_length=length)

    def finish(h, as_actuals=False):
        dl = h.const_array(np.asarray(length, np.int64), how=h.pick(["node", "init"])) if length is not None else None
        attrs = {}
        if onesided is not None:
            attrs["onesided"] = onesided
        if inverse is not None:
            attrs["inverse"] = inverse
        if s <= 19:
            if axis is not None:
                attrs["axis"] = axis
            ins = [x, dl]
        else:
            ax = h.const_array(np.asarray(axis, np.int64), how=h.pick(["node", "init"])) if axis is not None else None
            ins = [x, dl, ax]
        while ins and ins[-1] is None:
            ins.pop()
        return "DFT", ins, attrs

    return finish


def prep_gridsample(g, P, col):
    s = g.opset
    n, c = g.pick([1, 2]), g.pick([1, 2])
    h_, w_ = g.pick([2, 3, 4]), g.pick([2, 3, 4])
    ho, wo = g.pick([1, 2, 3]), g.pick([1, 2, 3])
    x = g.add_input(F32, (n, c, h_, w_), style=g.pick(["mixed", "smallint", "unit"]))
    x = _maybe_intermediate(g, x, P)
    grid = g.add_input(F32, (n, ho, wo, 2), style="unit")
    if g.chance(4):
        k = g.const_array(np.asarray(g.pick([1.25, 0.5, 2.0]), np.float32))
        r = g.emit("Mul", [grid, k])
        if r:
            grid = r[0]
    mode = g.pick([None, "bilinear", "nearest", "bicubic", "bicubic"] if s <= 19 else [None, "linear", "nearest", "cubic", "cubic"])
    pad = g.pick([None, "zeros", "border", "reflection"])
    ac = g.pick([None, 0, 1])
    P.update(op="GridSample", mode=mode, padding_mode=pad, align_corners=ac)

    def finish(h, as_actuals=False):
        attrs = {}
        if mode is not None:
            attrs["mode"] = mode
        if pad is not None:
            attrs["padding_mode"] = pad
        if ac is not None:
            attrs["align_corners"] = ac
        return "GridSample", [x, grid], attrs

    return finish


def prep_groupnorm(g, P, col):
    s = g.opset
    rank = g.pick([3, 4, 4])
    c = g.pick([2, 4, 4, 6])
    groups = g.pick([d for d in (1, 2, 3, 4, 6) if c % d == 0])
    shape = (g.pick([1, 2]), c) + tuple(g.pick([1, 2, 3]) for _ in range(rank - 2))
    x_decl = g.pick(["static", "static", "static", "sym_all", "sym_but_c", "intermediate", "intermediate"])
    sb_kind = g.pick(["init", "init", "init", "node", "input_static", "input_unknown"])
    fires = s <= 20 and groups != c  # the 20->21 adapter has to rewrite scale/bias
    if s <= 20 and "groupnorm_20_21_not_converted" in EXCLUDE and (x_decl in ("sym_all", "intermediate") or sb_kind in ("node", "input_unknown")):
        col.exclude("groupnorm_20_21_not_converted")
        x_decl = g.pick(["static", "sym_but_c"])
        sb_kind = g.pick(["init", "input_static"])
    sym = [g.fresh("D") for _ in range(rank)]  # symbolic names are never shared between inputs
    dims = {"static": list(shape), "sym_all": sym, "sym_but_c": [sym[0], c] + sym[2:], "intermediate": list(shape)}[x_decl]
    x = g.add_input(F32, shape, dims=dims, style=g.pick(["mixed", "smallint", "unit"]))
    if x_decl == "intermediate":
        r = g.emit(g.pick(["Neg", "Identity", "Relu"]), [x])
        if r:
            x = r[0]
        else:
            x_decl = "static"
    n_sb = groups if s <= 20 else c
    sb_in = None
    if sb_kind.startswith("input"):
        d = [n_sb] if sb_kind == "input_static" else [None]
        sb_in = [g.add_input(F32, (n_sb,), dims=d, style="mixed"), g.add_input(F32, (n_sb,), dims=d, style="smallint")]
    eps = g.pick([None, None, 1e-5, 0.1])
    if eps is not None and fires and "groupnorm_20_21_drops_epsilon" in EXCLUDE:
        col.exclude("groupnorm_20_21_drops_epsilon")
        eps = None
    seeds = (g.seed(), g.seed())
    P.update(op="GroupNormalization", rank=rank, channels=c, num_groups=groups, x_decl=x_decl, sb_kind=sb_kind, x_name=x.name,
             epsilon=eps)

    def finish(h, as_actuals=False):
        if sb_in is not None:
            sc, b = sb_in
        else:
            how = "init" if sb_kind == "init" else "node"
            sc = h.const_array(make_array(seeds[0], F32, (n_sb,), "mixed"), how=how)
            b = h.const_array(make_array(seeds[1], F32, (n_sb,), "smallint"), how=how)
        P["sb_names"] = [sc.name, b.name]
        P["sb_scope"] = "main" if (h.depth == 0) else "sub"
        attrs = {"num_groups": groups}
        if eps is not None:
            attrs["epsilon"] = eps
        return "GroupNormalization", [x, sc, b], attrs

    return finish


PREP = {"DFT": prep_dft, "GridSample": prep_gridsample, "GroupNormalization": prep_groupnorm}


def place(g, finish, placement, P):
    """Emit the planted op at the drawn placement.  Returns the list of new main-graph values or None."""
    if placement == "main":
        op, ins, attrs = finish(g)
        return _emit(g, op, ins, **attrs)
    if placement == "function":
        op, ins, attrs = finish(g)
        present = [v for v in ins if v is not None]
        formal = {v.name: f"a{i}" for i, v in enumerate(present)}
        dom = g.pick(["local", "my.domain"])
        fname = f"P{len(g.functions)}"
        nodes = []
        cur = "r"
        node = helper.make_node(op, [formal[v.name] if v is not None else "" for v in ins], [cur], **attrs)
        ref_attr = None
        use_ref = op == "GroupNormalization" and g.cfg.get("allow_ref_attr") and g.chance(3)
        if (use_ref and g.opset <= 20 and P.get("num_groups") != P.get("channels") and "groupnorm_20_21_drops_epsilon" in EXCLUDE):
            use_ref = False  # an epsilon forwarded through a function attribute is an explicit epsilon after inlining
        if use_ref:
            # epsilon forwarded from a function attribute (inlined by the public entry points before conversion)
            for a in list(node.attribute):
                if a.name == "epsilon":
                    node.attribute.remove(a)
            a = node.attribute.add()
            a.name, a.type, a.ref_attr_name = "epsilon", onnx.AttributeProto.FLOAT, "eps"
            ref_attr = "eps"
            P["ref_attr"] = True
        nodes.append(node)
        if g.chance(5):
            nodes.append(helper.make_node(g.pick(["Neg", "Identity"]), [cur], ["r2"]))
            cur = "r2"
        nodes.append(helper.make_node("Identity", [cur], ["y"]))
        f = helper.make_function(dom, fname, list(formal.values()), ["y"], nodes, [helper.make_opsetid("", g.opset)],
                                 attributes=[ref_attr] if ref_attr else [])
        g.functions[(dom, fname)] = f
        kw = {"eps": float(g.pick([1e-5, 0.25]))} if ref_attr else {}
        if ref_attr:
            P["epsilon"] = kw["eps"]
        r = _emit(g, fname, present, domain=dom, **kw)
        if r is None:
            del g.functions[(dom, fname)]
        else:
            g.features.add("function")
        return r
    parent_vis = g.outer + [v for v in g.env if isinstance(v.arr, np.ndarray)]
    if placement == "if":
        shared = g.chance(4)
        if shared:
            # the operands (scale / bias / axes ...) live in the main graph and BOTH branches apply the operator to them: what an adapter
            # derives from an operand in one branch is not visible in the sibling branch
            op, ins, attrs = finish(g)
            parent_vis = g.outer + [v for v in g.env if isinstance(v.arr, np.ndarray)]
            sub = _sub(g, parent_vis)
            g.features.add("If:both_branches_share_operands")
        else:
            sub = _sub(g, parent_vis)
            op, ins, attrs = finish(sub)
        x = ins[0]
        r = _emit(sub, op, ins, **attrs)
        if not r:
            return None
        if g.chance(5):
            r2 = sub.emit(g.pick(["Neg", "Identity"]), [r[0]])
            r = r2 or r
        other = _sub(g, parent_vis)
        if shared:
            r_o = _emit(other, op, ins, **attrs)
            r_o = r_o and (other.emit("Neg", [r_o[0]]) or r_o)
        else:
            r_o = other.emit(g.pick(["Neg", "Identity", "Abs"]), [x])
        if not r_o:
            return None
        if r_o[0].dtype != r[0].dtype:
            return None
        graphs = []
        for sg, out in ((sub, r[0]), (other, r_o[0])):
            graphs.append(helper.make_graph(sg.nodes, g.fresh("branch"), [], [_value_info(out.name, out.arr, unknown=True)], initializer=sg.inits))
        how = g.pick(["dynamic", "dynamic", "true", "false"])
        if how == "dynamic":
            rs = g.emit("ReduceSum", [x], keepdims=0)
            if not rs:
                return None
            z = g.const_array(np.asarray(0, dtype=rs[0].dtype))
            cnd = g.emit("Greater", [rs[0], z])
            if not cnd:
                return None
            cond = cnd[0]
        else:
            cond = g.const_array(np.asarray(how == "true"), how=g.pick(["node", "init"]))
        swap = g.chance(3)
        tb, eb = (graphs[1], graphs[0]) if swap else (graphs[0], graphs[1])
        P["if_cond"] = how
        g.features.add("If")
        return _emit(g, "If", [cond], subgraph_free=parent_vis, then_branch=tb, else_branch=eb)
    if placement == "loop":
        sub = _sub(g, parent_vis)
        it = Val(g.fresh("iter"), np.asarray(0, dtype=np.int64), "input")
        cin = Val(g.fresh("cond_in"), np.asarray(True), "input")
        sub.env.extend([it, cin])
        op, ins, attrs = finish(sub)
        r = _emit(sub, op, ins, **attrs)
        if not r:
            return None
        y = r[0]
        acc = Val(g.fresh("acc"), np.asarray(0, dtype=y.dtype), "input")
        sub.env.append(acc)
        rs = sub.emit("ReduceSum", [y], keepdims=0)
        if not rs:
            return None
        a2 = sub.emit("Add", [acc, rs[0]])
        co = sub.emit("Identity", [cin])
        trip = g.pick([0, 1, 2, 3])
        # scan output: flattened to 1-D (onnx.reference stacks scan outputs with np.vstack, which is only right for 1-D
        # slices) and only when the loop runs at least once (np.vstack([]) raises)
        sc = None
        if trip > 0 and g.chance(6):
            m1 = sub.const_array(np.asarray([-1], np.int64), how="node")
            sc = sub.emit("Reshape", [y, m1])
        if not (a2 and co):
            return None
        body = helper.make_graph(
            sub.nodes, g.fresh("body"),
            [_value_info(it.name, it.arr), _value_info(cin.name, cin.arr), _value_info(acc.name, acc.arr)],
            [_value_info(co[0].name, co[0].arr), _value_info(a2[0].name, a2[0].arr)]
            + ([_value_info(sc[0].name, sc[0].arr, unknown=True)] if sc else []),
            initializer=sub.inits)
        m = g.const_array(np.asarray(trip, dtype=np.int64), how=g.pick(["node", "init"]))
        # the condition input is always given: onnx.reference treats an omitted condition as False (zero iterations)
        c0 = g.const_array(np.asarray(True), how=g.pick(["node", "init"]))
        a0 = g.const_array(np.asarray(g.pick([0, 1]), dtype=y.dtype), how=g.pick(["node", "init"]))
        P["loop_trip"] = trip
        g.features.add("Loop")
        return _emit(g, "Loop", [m, c0, a0], n_out=2 if sc else 1, subgraph_free=parent_vis, body=body)
    raise ValueError(placement)


@st.composite
def cases(draw, col=None):
    col = col or Collector()
    s = draw(st.sampled_from([18, 18, 19, 19, 19, 20, 20, 20, 21, 21, 22, 23, 24, 25]))
    direction = draw(st.sampled_from(["up"] * 6 + ["down"] * 3 + ["same"]))
    if direction == "up" and s == 25:
        direction = "down"
    if direction == "down" and s == 18:
        direction = "up"
    if direction == "up":
        t = draw(st.integers(s + 1, 25))
    elif direction == "down":
        t = draw(st.integers(18, s - 1))
    else:
        t = s
    entry = draw(st.sampled_from(ENTRIES))
    fallback = draw(st.sampled_from([None, False, True, True]))
    if entry == "pass" and fallback is None:
        fallback = False  # the pass takes a bool; "default" is the same code path as False
    if entry == "native":
        fallback = None
    versions = draw(st.sampled_from(["none", "none", "all", "alt"])) if entry != "proto" else "none"
    cfg = {"opset": s, "overridable": draw(st.integers(0, 3)) == 0, "zero_dims": False,
           "value_info": True, "max_depth": 1, "weird_names": draw(st.integers(0, 4)) == 0,
           "allow_ref_attr": entry != "native"}
    g = Gen(draw, cfg)
    plants = []
    outs = []
    # names the converter's builder would pick itself (val_0, val_1, ...): taken by an initializer up front
    if g.chance(2):
        nm = g.pick(["val_0", "val_1", "val_2"])
        if nm not in g.used_names:
            g.used_names.add(nm)
            arr = make_array(g.seed(), F32, (), "smallint")
            g.inits.append(numpy_helper.from_array(arr, name=nm))
            g.env.append(Val(nm, arr, "const"))
            g.value_types[nm] = (arr.dtype, arr.shape)
            g.features.add("name_collision")
    if "fresh_names_not_unique_across_scopes" in EXCLUDE:
        g.used_names.update(f"val_{i}" for i in range(12))  # never hand the converter's own names to a later main-graph value
    n_plants = g.pick([1, 1, 1, 2, 0])
    for _ in range(n_plants):
        fam = g.pick(FAMILIES)
        P = {"family": fam}
        finish = PREP[fam](g, P, col)
        placement = g.pick(["main", "main", "main", "if", "loop", "function", "function"])
        if (plants and plants[0]["placement"] in ("if", "loop") and placement in ("main", "function")
                and "fresh_names_not_unique_across_scopes" in EXCLUDE):
            col.exclude("fresh_names_not_unique_across_scopes")  # a second rewrite after a rewritten subgraph reuses val_0..: keep it in a sibling scope
            placement = g.pick(["if", "loop"])
        if (placement == "function" and entry == "native" and fam == "GroupNormalization" and s <= 20
                and "groupnorm_20_21_not_converted" in EXCLUDE):
            col.exclude("groupnorm_20_21_not_converted")  # function formals carry no shape: the adapter cannot fire there
            placement = "main"
        P["placement"] = placement
        r = place(g, finish, placement, P)
        if r:
            P["out"] = r[0].name
            plants.append(P)
            outs.append(r[0])
            if len(r) > 1 and isinstance(r[1].arr, np.ndarray):
                outs.append(r[1])
    # a consumer of the planted value + random unchanged nodes
    if outs and g.chance(5):
        v = outs[-1]
        if isinstance(v.arr, np.ndarray) and v.dtype in (F32, F64):
            c = g.const_array(make_array(g.seed(), v.dtype, (), "smallint"))
            r = g.emit(g.pick(["Add", "Mul", "Sub"]), [v, c])
            if r:
                outs.append(r[0])
    if outs and g.chance(3):
        # the planted value captured by a later subgraph (uses inside subgraphs must follow a replaced node's output)
        v = outs[0]
        if isinstance(v.arr, np.ndarray) and v.dtype in (F32, F64):
            parent_vis = g.outer + [w for w in g.env if isinstance(w.arr, np.ndarray)]
            b1, b2 = _sub(g, parent_vis), _sub(g, parent_vis)
            r1 = b1.emit(g.pick(["Neg", "Abs"]), [v])
            r2 = b2.emit("Identity", [v])
            if r1 and r2:
                gs = [helper.make_graph(b.nodes, g.fresh("branch"), [], [_value_info(r[0].name, r[0].arr, unknown=True)], initializer=b.inits)
                      for b, r in ((b1, r1), (b2, r2))]
                rs = g.emit("ReduceSum", [v], keepdims=0)
                z = g.const_array(np.asarray(0, dtype=v.dtype)) if rs else None
                cnd = g.emit("Less", [rs[0], z]) if rs else None
                if cnd:
                    r = _emit(g, "If", [cnd[0]], subgraph_free=parent_vis, then_branch=gs[0], else_branch=gs[1])
                    if r:
                        outs.append(r[0])
                        g.features.add("If")
                        g.features.add("captured_by_subgraph")
    if g.chance(3):  # initializer above the C-API stripping threshold (> 1000 elements)
        shp = g.pick([(1001,), (26, 40), (1100,), (2, 3, 200)])
        big = g.const_array(make_array(g.seed(), F32, shp, "unit"), how=g.pick(["init", "init", "ovinit"] if cfg["overridable"] else ["init"]))
        red = g.emit(g.pick(["ReduceMax", "ReduceSum", "ReduceMin"]), [big], keepdims=0)
        tgt = g.pick_val(lambda v: v.dtype == F32)
        if red and tgt is not None:
            r = g.emit("Add", [tgt, red[0]])
            if r:
                outs.append(r[0])
                g.features.add("big_initializer")
    if not g.env:
        g.add_input()
    extra = g.pick([0, 0, 1, 2, 3, 4])
    if extra:
        if entry == "native":
            g.cfg["disable"] = ("g_function_call", "g_sequence")  # modelgen's functions carry ref attributes: unsupported natively (raises by design)
        else:
            g.cfg["disable"] = ("g_sequence",)
        g.grow(extra)
    gm = modelgen.assemble(g, draw, force_outputs=[o for o in outs if isinstance(o.arr, np.ndarray)][-3:])
    gm.model.ir_version = IRV[s]
    _annotate(gm.model, plants, entry)
    return {"s": s, "t": t, "entry": entry, "fallback": fallback, "versions": versions, "plants": plants, "gm": gm}


def _declared_dims(model, name):
    """Dims the converter can see for a main-graph value (graph input / value_info / initializer) or None."""
    for vi in list(model.graph.input) + list(model.graph.value_info) + list(model.graph.output):
        if vi.name == name and vi.type.HasField("tensor_type") and vi.type.tensor_type.HasField("shape"):
            return [d.dim_value if d.HasField("dim_value") else None for d in vi.type.tensor_type.shape.dim]
    for i in model.graph.initializer:
        if i.name == name:
            return list(i.dims)
    return None


def _annotate(model, plants, entry):
    """Record, from the assembled proto, whether the GroupNormalization 20->21 adapter can see the shapes it needs."""
    for P in plants:
        if P.get("op") != "GroupNormalization":
            continue
        if P["placement"] == "function" and entry == "native":
            P["shapes_visible"] = False  # function formals carry no type
            continue
        xd = _declared_dims(model, P["x_name"])
        ok = xd is not None and len(xd) > 1 and isinstance(xd[1], int) and xd[1] > 0
        for nm in P.get("sb_names", []):
            if P.get("sb_scope") == "sub":
                ok = ok and P["sb_kind"] == "init"  # subgraph initializer: typed by its tensor; Constant node in a subgraph: untyped
            else:
                d = _declared_dims(model, nm)
                ok = ok and d is not None and len(d) == 1 and isinstance(d[0], int) and d[0] > 0
        P["shapes_visible"] = bool(ok)


# ===================================================================================== observation helpers
def _default_versions(opset_imports):
    return sorted({oi.version for oi in opset_imports if oi.domain in ("", "ai.onnx")})


def _walk_ir_nodes(im):
    from onnxscript import ir

    def walk(graph_like):
        for node in graph_like:
            yield node
            for attr in node.attributes.values():
                if attr.is_ref():
                    continue
                if attr.type == ir.AttributeType.GRAPH:
                    yield from walk(attr.as_graph())
                elif attr.type == ir.AttributeType.GRAPHS:
                    for sg in attr.as_graphs():
                        yield from walk(sg)

    yield from walk(im.graph)
    for f in im.functions.values():
        yield from walk(f)


def _set_versions(im, mode, s):
    if mode == "none":
        return
    i = 0
    for node in _walk_ir_nodes(im):
        if node.domain != "":
            continue
        if mode == "all" or i % 2 == 0:
            node.version = s
        i += 1


def _node_versions(im):
    return [(n.op_type, n.version) for n in _walk_ir_nodes(im) if n.domain == "" and n.version is not None]


def _live_initializers(model):
    g = model.graph
    producers = {}
    for n in g.node:
        for o in n.output:
            producers[o] = n
    seen, stack = set(), [o.name for o in g.output]
    while stack:
        nm = stack.pop()
        if nm in seen or not nm:
            continue
        seen.add(nm)
        nd = producers.get(nm)
        if nd is not None:
            stack.extend(nd.input)
            for a in nd.attribute:
                if a.type == onnx.AttributeProto.GRAPH:
                    stack.extend(_free_names(a.g))
                for sg in a.graphs:
                    stack.extend(_free_names(sg))
    inputs = {i.name for i in g.input}
    return {i.name for i in g.initializer if i.name in seen or i.name in inputs}


def _init_map(model):
    out = {}
    for i in model.graph.initializer:
        try:
            a = numpy_helper.to_array(i)
            out[i.name] = (str(a.dtype), tuple(a.shape), a.tobytes())
        except Exception as e:  # noqa: BLE001
            out[i.name] = ("unreadable", (), repr(e).encode())
    return out


def _without_deprecated_gn(model):
    """Copy of model in which every GroupNormalization node is replaced by Identity(x) (same output type and shape), so that
    the checker's refusal of the deprecated GroupNormalization-18 schema does not hide every other diagnosis."""
    m = onnx.ModelProto()
    m.CopyFrom(model)

    def walk(nodes):
        for n in nodes:
            if n.domain == "" and n.op_type == "GroupNormalization":
                x = n.input[0] if n.input else ""
                n.op_type = "Identity"
                del n.input[:]
                n.input.append(x)
                del n.attribute[:]
            for a in n.attribute:
                if a.type == onnx.AttributeProto.GRAPH:
                    walk(a.g.node)
                for sg in a.graphs:
                    walk(sg.node)

    walk(m.graph.node)
    for f in m.functions:
        walk(f.node)
    return m


def _problems(model, declared):
    p = wellformed.check_model(model)
    if declared is not None and declared <= 20 and any(k == "checker" and _DEPRECATED_GN in msg for k, msg in p):
        # GroupNormalization-18 is a deprecated schema in this onnx build: the checker rejects every model holding it below opset 21
        p = wellformed.check_model(_without_deprecated_gn(model))
    return p


_REF_OPS = None


def _ref_ops():
    """Two kernels handed to onnx.reference (new_ops) so that it can be the second runtime for every generated model:
    GridSample that also understands the opset-16 mode names (bilinear = linear, bicubic = cubic: the opset-20 changelog renames
    them), and a numpy GroupNormalization (the stock evaluator expands the schema's context-dependent function, which it
    cannot do inside subgraphs and functions).  Both follow the *declared* opset of the (sub)model they run in."""
    global _REF_OPS
    if _REF_OPS is not None:
        return _REF_OPS
    from onnx.reference.op_run import OpRun
    from onnx.reference.ops.op_grid_sample import GridSample as _RefGridSample

    def _ver(op):
        return int(op.run_params["opsets"].get("", 0))

    class GridSample(_RefGridSample):
        op_domain = ""

        def _run(self, X, grid, mode=None, padding_mode=None, align_corners=None):
            explicit = {a.name for a in self.onnx_node.attribute}
            if "mode" in explicit:
                if _ver(self) < 20:
                    if mode not in ("bilinear", "nearest", "bicubic"):
                        raise ValueError(f"GridSample-16 has no mode {mode!r}")
                    mode = {"bilinear": "linear", "bicubic": "cubic"}.get(mode, mode)
                elif mode not in ("linear", "nearest", "cubic"):
                    raise ValueError(f"GridSample-{_ver(self)} has no mode {mode!r}")
            else:
                mode = "linear"
            if _ver(self) < 20 and X.ndim != 4:
                raise ValueError("GridSample-16 is 4-D only")
            return super()._run(X, grid, mode=mode, padding_mode=padding_mode, align_corners=align_corners)

    class GroupNormalization(OpRun):
        op_domain = ""

        def _run(self, x, scale, bias, epsilon=None, num_groups=None, stash_type=None):
            eps = 1e-5 if epsilon is None else float(epsilon)
            g = int(num_groups)
            if x.ndim < 3:
                raise ValueError("GroupNormalization: rank >= 3 required")
            n, c = x.shape[0], x.shape[1]
            if g <= 0 or c % g:
                raise ValueError("GroupNormalization: channels not divisible by num_groups")
            need = g if _ver(self) < 21 else c
            if scale.shape != (need,) or bias.shape != (need,):
                raise ValueError(f"GroupNormalization-{_ver(self)}: scale/bias must have shape ({need},), got {scale.shape} {bias.shape}")
            xr = x.reshape(n, g, -1).astype(np.float64)
            mean = xr.mean(axis=2, keepdims=True)
            var = ((xr - mean) ** 2).mean(axis=2, keepdims=True)
            y = (xr - mean) / np.sqrt(var + eps)
            if need == g:
                y = y * scale.astype(np.float64).reshape(1, g, 1) + bias.astype(np.float64).reshape(1, g, 1)
                y = y.reshape(x.shape)
            else:
                bshape = (1, c) + (1,) * (x.ndim - 2)
                y = y.reshape(x.shape) * scale.astype(np.float64).reshape(bshape) + bias.astype(np.float64).reshape(bshape)
            return (y.astype(x.dtype),)

    from onnx.reference import ReferenceEvaluator

    class Evaluator(ReferenceEvaluator):
        """Carries the two kernels into the evaluators it creates for subgraphs and model-local functions."""

        def __init__(self, proto, opsets=None, functions=None, verbose=0, new_ops=None, **kw):
            extra = [GridSample, GroupNormalization]
            names = {c.__name__ for c in extra}
            ops = [c for c in (new_ops or []) if c.__name__ not in names] + extra
            super().__init__(proto, opsets=opsets, functions=functions, verbose=verbose, new_ops=ops, **kw)

    _REF_OPS = Evaluator
    return _REF_OPS


def _mk_source(model, use_ort=True):
    """compare.Source whose reference side carries the two extra kernels."""
    src = compare.Source(model, use_ort=use_ort, use_ref=False)
    try:
        src.ev = _ref_ops()(model)
    except Exception as e:  # noqa: BLE001
        src.ev, src.ev_err = None, f"{type(e).__name__}: {str(e)[:200]}"
    return src


_ORT_OK = {}


def _ort_supports(opset):
    if opset not in _ORT_OK:
        g = helper.make_graph([helper.make_node("Relu", ["x"], ["y"])], "g", [helper.make_tensor_value_info("x", 1, [2])],
                              [helper.make_tensor_value_info("y", 1, [2])])
        m = helper.make_model(g, opset_imports=[helper.make_opsetid("", opset)], ir_version=IRV.get(opset, 10))
        _ORT_OK[opset] = execs.run_ort(m, {"x": np.ones((2,), np.float32)})[0] == "ok"
    return _ORT_OK[opset]


def _signature_diffs(before, after):
    out = []
    (bi, bo), (ai, ao) = wellformed.signature(before), wellformed.signature(after)
    for what, b, a in (("inputs", bi, ai), ("outputs", bo, ao)):
        if [x[0] for x in b] != [x[0] for x in a]:
            out.append((f"{what}-names", f"{[x[0] for x in b]} -> {[x[0] for x in a]}"))
            continue
        for (n, et, d), (_, et2, d2) in zip(b, a):
            if et != et2:
                out.append((f"{what}-elemtype", f"{n}: {et} -> {et2}"))
            elif d is not None:
                if d2 is None or len(d2) != len(d):
                    out.append((f"{what}-rank", f"{n}: {d} -> {d2}"))
                else:
                    for x, y in zip(d, d2):
                        if isinstance(x, int) and x != y:
                            out.append((f"{what}-dim", f"{n}: {d} -> {d2}"))
                            break
                        if isinstance(x, str) and y != x:
                            out.append((f"{what}-symdim", f"{n}: {d} -> {d2}"))
                            break
    return out


# ===================================================================================== the call under test
def convert(model, s, t, entry, fallback, versions):
    """Run one entry point on a private copy.  Returns a dict describing what was observed."""
    from onnxscript import ir, version_converter
    from onnxscript.version_converter import _version_converter

    m = onnx.ModelProto()
    m.CopyFrom(model)
    obs = {"raised": None}
    if entry == "proto":
        before = m.SerializeToString(deterministic=True)
        try:
            if fallback is None:
                version_converter.convert_version(m, t)
            else:
                version_converter.convert_version(m, t, fallback=fallback)
        except Exception as e:  # noqa: BLE001
            obs["raised"] = (type(e).__name__, f"{type(e).__name__}: {str(e)[:300]}", optcommon.innermost_frame(e))
        obs["after"] = m
        obs["bytes_equal"] = m.SerializeToString(deterministic=True) == before
        obs["node_versions"] = []
        return obs
    im = ir.from_proto(m)
    _set_versions(im, versions, s)
    before = ir.to_proto(im).SerializeToString(deterministic=True)
    try:
        if entry == "ir":
            if fallback is None:
                version_converter.convert_version(im, t)
            else:
                version_converter.convert_version(im, t, fallback=fallback)
        elif entry == "pass":
            res = version_converter.ConvertVersionPass(target_version=t, fallback=bool(fallback))(im)
            if res.model is not im:
                obs["pass_not_in_place"] = True
                im = res.model
        elif entry == "native":
            _version_converter.convert_version(im, t)
        else:
            raise ValueError(entry)
    except Exception as e:  # noqa: BLE001
        obs["raised"] = (type(e).__name__, f"{type(e).__name__}: {str(e)[:300]}", optcommon.innermost_frame(e))
    try:
        after = ir.to_proto(im)
        obs["after"] = after
        obs["bytes_equal"] = after.SerializeToString(deterministic=True) == before
    except Exception as e:  # noqa: BLE001
        obs["after"] = None
        obs["serialize_error"] = f"{type(e).__name__}: {str(e)[:300]} @{optcommon.innermost_frame(e)}"
    obs["node_versions"] = _node_versions(im)
    return obs


# ===================================================================================== oracle
def family_key(plants, model=None):
    fams = sorted({SHORT[p["family"]] for p in plants})
    if not fams and model is not None:
        ops = {k[1] for k in optcommon.op_multiset(model)}
        fams = sorted(SHORT[f] for f in FAMILIES if f in ops)
    return "+".join(fams) or "plain"


def _consistent_at(src, res, d, node_versions, feeds_list, info, tag=""):
    """All clauses a returned (or supposedly untouched) model has to satisfy at declared version d.
    Returns list[(kind, detail)]."""
    out = []
    # declared version: model, functions, set node versions
    for f in res.functions:
        fv = _default_versions(f.opset_import)
        if fv and fv != [d]:
            out.append(("declared:function_opset", f"function {f.domain}::{f.name} imports default domain {fv}, model declares {d}"))
            break
    bad = sorted({(o, v) for o, v in node_versions if v != d})
    if bad:
        out.append(("declared:node_version", f"node.version values {bad[:6]} in a model declaring opset {d}"))
    probs = _problems(res, d)
    for kind, msg in probs[:2]:
        out.append((f"invalid:{kind}", f"declared opset {d}: {msg}"))
    # initializers
    live = _live_initializers(src)
    bi, ai = _init_map(src), _init_map(res)
    missing = sorted(n for n in live if n not in ai)
    changed = sorted(n for n in bi if n in ai and bi[n] != ai[n])
    if missing:
        out.append(("initializers:missing", f"live initializers {missing[:5]} are gone (result has {sorted(ai)[:8]})"))
    if changed:
        out.append(("initializers:changed", f"initializers {changed[:5]} changed dtype/shape/bytes"))
    for what, det in _signature_diffs(src, res)[:2]:
        out.append((f"signature:{what}", det))
    # equivalence
    s_decl = _default_versions(src.opset_import)
    use_ort = _ort_supports(d) and all(_ort_supports(v) for v in s_decl)
    key = ("src", use_ort)
    source = info.setdefault("_sources", {}).get(key)
    if source is None:
        source = _mk_source(src, use_ort=use_ort)
        info["_sources"][key] = source
    v, det = compare.decide(source, _mk_source(res, use_ort=use_ort), feeds_list)
    info["verdict" + tag] = v
    if v == "violation_values":
        out.append(("values", det))
    elif v == "violation_not_executable":
        out.append(("not_executable", det))
    return out


def check(model, s, t, entry, fallback, versions, feeds_list, plants=()):
    """Oracle on one case.  Returns (list[(bucket, detail)], info)."""
    info = {"excluded": []}
    fam = family_key(plants, model)
    suffix = f"{entry}:fb={fallback}:{fam}"
    verdicts = []

    def add(kind, detail):
        verdicts.append((f"{kind}:{suffix}", detail))

    obs = convert(model, s, t, entry, fallback, versions)
    res = obs.get("after")
    supported = t >= s or (bool(fallback) and entry != "native")
    if res is None:
        add("unserializable_result", obs.get("serialize_error"))
        info["outcome"] = "unserializable"
        return verdicts, info
    dv = _default_versions(res.opset_import)
    if obs["raised"]:
        etype, text, frame = obs["raised"]
        info["outcome"] = "raise:" + etype
        if supported:
            add(f"raise_unexpected:{frame}", f"s={s} t={t}: {text}")
        # the argument must be as it was
        if obs["bytes_equal"]:
            info["raise_state"] = "bytes_equal"
            return verdicts, info
        info["raise_state"] = "changed"
        if entry == "proto":
            add("raise_modified", f"{text}; the ModelProto argument was modified although the call raised")
            return verdicts, info
        if dv != [s]:
            add("raise_modified:declared", f"{text}; model now declares {dv}, was {s}")
            return verdicts, info
        for kind, det in _consistent_at(model, res, s, obs["node_versions"], feeds_list, info):
            add(f"raise_modified:{kind}", f"{text}; {det}")
        return verdicts, info

    if len(dv) != 1:
        add("declared:other", f"default-domain opset imports after conversion: {dv} (s={s}, t={t})")
        info["outcome"] = "declared_other"
        return verdicts, info
    d = dv[0]
    if d == t:
        info["outcome"] = "same" if s == t else "converted"
        for kind, det in _consistent_at(model, res, t, obs["node_versions"], feeds_list, info):
            add(kind, det)
        return verdicts, info
    if d != s:
        add("declared:other", f"declared opset {d} is neither source {s} nor target {t}")
        info["outcome"] = "declared_other"
        return verdicts, info
    # d == s != t : left as it was?
    if obs["bytes_equal"]:
        info["outcome"] = "left:bytes_equal"
        if t > s and entry != "proto":
            add("declared:not_converted", f"supported up-conversion {s}->{t} returned the model unchanged at {s}")
        return verdicts, info
    left_problems = _consistent_at(model, res, s, obs["node_versions"], feeds_list, info, tag="_left")
    if t > s or (entry == "proto" and left_problems):
        # the native path always relabels; a modified result that still declares s is a stale label, not "left as it was"
        if entry == "proto":
            if "proto_entry_stale_opset_import" in EXCLUDE:
                info["excluded"].append("proto_entry_stale_opset_import")
            else:
                add("declared:stale_opset_import", f"convert_version(ModelProto, {t}) rewrote the graph but opset_import still says {dv}"
                    + (f"; as declared: {left_problems[0][0]}: {left_problems[0][1][:300]}" if left_problems else ""))
            patched = onnx.ModelProto()
            patched.CopyFrom(res)
            for oi in patched.opset_import:
                if oi.domain in ("", "ai.onnx"):
                    oi.version = t
            info["outcome"] = "converted:stale_import"
            for kind, det in _consistent_at(model, patched, t, [], feeds_list, info, tag="_patched"):
                if kind.startswith("invalid:") and "opset import" in det:
                    continue  # missing imports of inlined functions' domains: same root cause (only the graph is copied back)
                add(kind, det)
            return verdicts, info
        add("declared:not_converted", f"supported up-conversion {s}->{t} returned a modified model still declaring {s}")
        info["outcome"] = "left:modified"
        return verdicts, info
    info["outcome"] = "left:cleaned"
    for kind, det in left_problems:
        add(f"left_inconsistent:{kind}", det)
    return verdicts, info


# ===================================================================================== shard driver
def _case_json(c, feeds_list):
    gm = c["gm"]
    return {"model": optcommon.model_to_json(gm.model), "s": c["s"], "t": c["t"], "entry": c["entry"], "fallback": c["fallback"],
            "versions": c["versions"], "plants": c["plants"], "feeds": [optcommon.feeds_to_json(f) for f in feeds_list],
            "text": modelgen.model_text(gm.model, 4000)}


def _feeds(gm):
    seeds = gm.seeds(3)
    fl = [gm.sample_feeds, gm.feeds(seeds[0], style="unit"), gm.feeds(seeds[1])]
    if gm.overridable:
        fl.append(gm.feeds(seeds[2], override=True))
    return fl


def run_shard(spec):
    col = Collector()

    def body(c):
        gm = c["gm"]
        s, t, entry, fallback = c["s"], c["t"], c["entry"], c["fallback"]
        if _problems(gm.model, s):
            col.skip("generator_invalid")
            return
        src = _mk_source(gm.model)
        a, b, _ = src.run(gm.sample_feeds)
        if a[0] != "ok" and b[0] != "ok":
            col.skip("source_not_executable")
            return
        feeds_list = _feeds(gm)
        verdicts, info = check(gm.model, s, t, entry, fallback, c["versions"], feeds_list, c["plants"])
        for name in info.get("excluded", []):
            col.exclude(name)
        feats = set(gm.features)
        has_struct = bool(feats & {"If", "Loop", "function"})
        nontrivial = s != t and (bool(c["plants"]) or has_struct)
        classes = [f"entry:{entry}", f"fallback:{fallback}", f"s:{s}", f"t:{t}", "dir:" + ("up" if t > s else "down" if t < s else "same"),
                   "versions:" + c["versions"], "outcome:" + str(info.get("outcome")), "family:" + family_key(c["plants"])]
        if info.get("raise_state"):
            classes.append("raise_state:" + info["raise_state"])
        for k in ("verdict", "verdict_left", "verdict_patched"):
            if info.get(k):
                classes.append(f"{k}:{info[k]}")
        if t < s and fallback and entry != "native":
            classes.append("capi:" + ("converted" if str(info.get("outcome")).startswith("converted") else "failed_or_left"))
        for P in c["plants"]:
            f = SHORT[P["family"]]
            classes.append(f"plant:{f}@{P['placement']}")
            if f == "DFT":
                classes.append("DFT:axis=" + ("absent" if P["axis"] is None else "neg" if P["axis"] < 0 else "pos") + f":rank{P['rank']}")
                classes.append(f"DFT:onesided={P['onesided']}:inverse={P['inverse']}")
                if P["dft_length"] is not None:
                    classes.append("DFT:dft_length")
                if s <= 19 < t:
                    classes.append("adapter_span:DFT")
            elif f == "GS":
                classes.append(f"GS:mode={P['mode']}")
                classes.append(f"GS:padding={P['padding_mode']}")
                if s <= 19 < t:
                    classes.append("adapter_span:GS")
            else:
                classes.append(f"GN:x={P['x_decl']}:sb={P['sb_kind']}")
                classes.append("GN:" + ("per_channel" if P["num_groups"] == P["channels"] or s >= 21 else "per_group"))
                classes.append(f"GN:shapes_visible={P.get('shapes_visible')}")
                if s <= 20 < t:
                    classes.append("adapter_span:GN")
            if P.get("ref_attr"):
                classes.append("function:ref_attr")
        classes += [f for f in sorted(feats) if f in ("If", "If:both_branches_share_operands", "Loop", "function", "big_initializer", "name_collision", "symbolic_dims", "captured_by_subgraph", "evaluated_by_ort",
                                                       "value_info", "value_info:inferred", "function:nested", "Loop:scan")]
        if gm.overridable:
            classes.append("has_overridable")
        if cfg_weird(gm):
            classes.append("weird_or_colliding_names")
        key = (modelgen.model_hash(gm.model), s, t, entry, str(fallback), c["versions"])
        col.case(key, nontrivial, classes, sample={"s": s, "t": t, "entry": entry, "fallback": fallback, "versions": c["versions"],
                                                   "plants": c["plants"], "outcome": info.get("outcome"),
                                                   "model": modelgen.model_text(gm.model, 1200)})
        if verdicts:
            cj = _case_json(c, feeds_list)
            for bucket, detail in verdicts:
                col.violation(bucket, detail, cj, size=gm.n_nodes + 3 * len(c["plants"]))

    drive(cases(col), body, spec["n"], spec["seed"])
    return col.result()


def cfg_weird(gm):
    return any(n in modelgen.NAME_POOL_WEIRD for n in gm.value_types)


def replay(case):
    model = optcommon.model_from_json(case["model"])
    feeds = [optcommon.feeds_from_json(f) for f in case.get("feeds", [])]
    verdicts, _ = check(model, case["s"], case["t"], case["entry"], case["fallback"], case.get("versions", "none"), feeds,
                        case.get("plants", []))
    return verdicts


# ===================================================================================== regions of confirmed findings
def _region_proto_stale(case):
    return case.get("entry") == "proto" and case.get("s") != case.get("t")


def _region_dft_axis(case):
    return case["s"] <= 19 < case["t"] and any(p.get("op") == "DFT" and p.get("axis") is None and p.get("rank", 0) >= 4
                                                for p in case.get("plants", []))


def _region_gn(case):
    # the adapter is skipped (x without shape: VersionConverterError is swallowed; symbolic C / untyped scale: returns None) and the
    # node is relabelled anyway: wrong for per-group scale/bias, and node.version stays behind even when groups == channels
    return case["s"] <= 20 < case["t"] and any(p.get("op") == "GroupNormalization" and not p.get("shapes_visible")
                                                for p in case.get("plants", []))


def _creates_values(p, s, t):
    """Does the adapter fire on this plant *and* insert new nodes/values (named val_0, val_1, ... by the tape builder)?"""
    if p.get("op") == "DFT":
        return s <= 19 < t and p.get("axis") is not None
    if p.get("op") == "GroupNormalization":
        return s <= 20 < t and p.get("num_groups") != p.get("channels") and bool(p.get("shapes_visible"))
    return False


def _fresh_names_shared_between_scopes(case):
    """Semantic form of the finding: convert the stored model and look for a tape-builder name (val_<k>) that is defined both in a
    subgraph and in one of the graphs enclosing it."""
    import re

    try:
        model = optcommon.model_from_json(case["model"])
        after = convert(model, case["s"], case["t"], case["entry"], case.get("fallback"), case.get("versions"))["after"]
    except Exception:  # noqa: BLE001
        return False
    if after is None:
        return False

    def walk(g, outer):
        here = {x for n in g.node for x in n.output if re.fullmatch(r"val_\d+", x)}
        if here & outer:
            return True
        for n in g.node:
            for at in n.attribute:
                if at.type == onnx.AttributeProto.GRAPH and walk(at.g, outer | here):
                    return True
                for sg in at.graphs:
                    if walk(sg, outer | here):
                        return True
        return False

    return walk(after.graph, set())


def _region_fresh_names(case):
    import re

    if _fresh_names_shared_between_scopes(case):
        return True
    s, t, plants = case["s"], case["t"], case.get("plants", [])
    for i, p in enumerate(plants):
        if p.get("placement") in ("if", "loop") and _creates_values(p, s, t):
            if any(_creates_values(q, s, t) and q.get("placement") in ("main", "function") for j, q in enumerate(plants) if j != i):
                return True  # (fresh names of the two conversions collide whichever of them comes first in the graph)
            try:
                model = optcommon.model_from_json(case["model"])
            except Exception:  # noqa: BLE001
                return False
            seen_cf = False
            for n in model.graph.node:
                if seen_cf and any(re.fullmatch(r"val_\d+", o) for o in n.output):
                    return True
                if n.op_type in ("If", "Loop") and p.get("out") in n.output:
                    seen_cf = True
    return False


def _region_gn_eps(case):
    return case["s"] <= 20 < case["t"] and any(p.get("op") == "GroupNormalization" and p.get("num_groups") != p.get("channels")
                                                and p.get("epsilon") is not None for p in case.get("plants", []))


REGIONS = {
    "proto_entry_stale_opset_import": _region_proto_stale,
    "groupnorm_20_21_drops_epsilon": _region_gn_eps,
    "dft_default_axis_rank4": _region_dft_axis,
    "groupnorm_20_21_not_converted": _region_gn,
    "fresh_names_not_unique_across_scopes": _region_fresh_names,
}
