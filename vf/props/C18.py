"""C18 - GraphBuilder/nn.Module graphs compute the trace; parameters named like PyTorch.

Two generated-search parts, both Hypothesis driven and both replayable from a self-contained JSON case:

(a) traced programs.  A program is a JSON list of steps (op calls with Python-literal / None / ir.tensor operands, inputs
    by keyword, explicit ``_outputs`` in every documented form, ``_domain/_version``, ``builder.opset(...)``, push/pop module
    scopes, explicit initializers, If/Loop/Scan bodies built with ``GraphBuilder.subgraph`` or ``build_graph(parent=...)``,
    calls of @script functions and ``build_function`` ir.Functions by ``call`` or ``call_inline`` with attribute arguments).
    The program is generated *by concrete execution*: every step is evaluated at once by the numpy interpreter ``Interp``
    (onnx.reference kernels per op, ONNX-spec control flow written out in Python, the documented literal-promotion rule), so
    only programs that execute are emitted and the interpreter's values are the replay oracle.  ``Driver`` performs the
    same steps on an ``onnxscript.GraphBuilder``.
(b) module trees.  A RuleBasedStateMachine applies JSON ops (new Module / ModuleList / Sequential, Parameter, setattr,
    append, extend, structural slices, iteration styles) to real onnxscript.nn objects; the terminal rule (or teardown)
    builds the graph by calling the root.
"""
from __future__ import annotations

import hashlib
import json
import os

import numpy as np
import onnx
from onnx import TensorProto, helper, numpy_helper

from vf import compare, execs, optcommon, wellformed
from vf.hyp import drive, run_machine, st
from vf.runner import Collector

ID = "C18"
EARLY_ATTRIBUTION = True  # region predicates are cheap scans of the stored case
LEVEL = "exploration"
RULE = (
    "(a) Traces: Hypothesis draws a program = sequence of builder steps over ~60 ONNX ops (+com.microsoft Gelu) with Python "
    "literal operands (int/float/bool scalars, lists, tuples; inf), None operands, inputs by keyword, single attributes by "
    "position, ir.tensor operands, every documented _outputs form, _domain/_version and builder.opset(), push/pop module "
    "scopes, explicit initializers, If/Loop/Scan bodies (subgraph / build_graph(parent), nesting <=2, captured outer values, "
    "typed/untyped declared outputs) and calls of generated @script functions and build_function ir.Functions (attribute "
    "parameters with/without defaults, call vs call_inline, _outputs/_prefix). Each step is executed immediately by a numpy "
    "interpreter (onnx.reference kernels; spec control flow; documented literal promotion rule) - only executing programs are "
    "kept and those values are the oracle. Oracle: the GraphBuilder accepts the trace; the serialized model passes "
    "vf/wellformed (+onnx.checker); all value names and all node names are unique over graph+subgraphs; inferred static "
    "types/shapes agree with the replay; onnxruntime / onnx.reference outputs == numpy replay on the drawn input; the twin "
    "model with every call<->call_inline flipped gives the same outputs. Non-trivial = trace has a literal operand AND a "
    "subgraph or function call; distinct by program hash. Values that may carry runtime rounding noise are never fed to "
    "discontinuous ops, and with a single runtime available non-finite traces are skipped (soundness of the numerical oracle). "
    "The generator stays out of the named regions in EXCLUDE (confirmed findings; redirected draws are counted). "
    "(b) Trees: a RuleBasedStateMachine applies ops (new Module/ModuleList/Sequential, add Parameter named-as-attribute or "
    "unnamed, setattr child, constructor/append/extend, structural slice of a detached list, iteration by for/index/negative "
    "index/slices, call-twice) to real onnxscript.nn objects, height<=4, root named or unnamed; terminal rule calls the root on "
    "a GraphBuilder. Oracle: keys(state_dict)==keys(named_parameters)==the attribute/index path of every parameter; "
    "graph.initializers holds exactly one entry per parameter, it IS the parameter and is named root.name+'.'+key (no prefix "
    "for an unnamed root); value/node names unique; model valid; running it gives x + sum of every parameter times the number "
    "of calls of its module (parameters are distinct powers of 3). Non-trivial = height>=2 and a container; distinct by tree hash.")
ASSUMPTIONS = [
    "onnxruntime CPU (optimisations off) and onnx.reference kernels implement ONNX operator semantics",
    "onnx.checker + vf/wellformed.py define validity; onnx.defs schemas define formal input order and type variables",
    "onnx_ir (site-packages) construction and serialization of ir.Model/ir.Graph is correct",
    "the numpy interpreter in this module encodes If/Loop/Scan/function-call semantics of the ONNX spec and the literal "
    "promotion rule of docs/tutorial/builder/graph_builder.md (cast to the dtype bound to the shared type variable, else "
    "int->INT64, float->FLOAT, bool->BOOL)",
    "the harness, like the tutorial's Setup section, declares every opset import (function domains, com.microsoft) on the "
    "ir.Graph up front, assembles ir.Model(graph, functions=builder.functions.values()) and types graph outputs the builder "
    "left untyped",
]
FLOOR = {"quick": 200, "thorough": 5000}
TIMEOUT = {"quick": 1500, "thorough": 5 * 3600}

# Named regions of confirmed findings the generator stays out of (see REGIONS at the bottom for the predicates).
# VERIF_C18_EXCLUDE="" (empty) switches all exclusions off; VERIF_C18_EXCLUDE="a,b" selects some.
# Region names (predicates in REGIONS): subgraph_autonames, inline_py_attr, inline_default_attr, inline_literal_arg, nested_function,
# nan_literal, negzero_literal, unnamed_tensor_operand, body_dup_return, kw_input_after_gap, rehomed_in_unnamed_sequential.
# By default the generator stays out of exactly the regions of the committed *known* findings of this property
# (known_findings.json, read-only); fixed findings are searched again.
def _known_regions():
    try:
        from vf.runner import load_known

        return {e.get("region") for e in load_known("C18") if e.get("status") == "known" and e.get("region")}
    except Exception:  # noqa: BLE001
        return set()


EXCLUDE = _known_regions()
_env_ex = os.environ.get("VERIF_C18_EXCLUDE")
if _env_ex is not None:
    EXCLUDE = {x for x in _env_ex.split(",") if x}


def _hash(obj):
    return hashlib.sha1(json.dumps(obj, sort_keys=True, default=str).encode()).hexdigest()[:16]


def _frame(e):
    return optcommon.innermost_frame(e)


class CutError(Exception):
    """An exception raised by the code under test on an in-domain call."""

    def __init__(self, api, exc):
        super().__init__(f"{api}: {type(exc).__name__}: {str(exc)[:300]}")
        self.api, self.exc = api, exc

    def bucket(self):
        return f"raise:{self.api}:{_frame(self.exc)}"


# =====================================================================================================================
# shared model checks
# =====================================================================================================================
def name_problems(model):
    """Uniqueness of value names and node names over the main graph and all nested subgraphs (property clause
    'all value and node names are unique').  Returns [(bucket, detail)]."""
    out = []
    vals, nodes = {}, {}

    def walk(g, path, outer):
        local = set()

        def define(n, what):
            if not n:
                return
            if n in local:
                out.append(("names:value:dup-in-graph", f"{path}: value '{n}' defined twice ({what})"))
            elif n in outer:
                out.append(("names:value:shadows-outer", f"{path}: value '{n}' ({what}) repeats an enclosing-scope value name"))
            elif n in vals:
                out.append(("names:value:dup-across-subgraphs", f"{path}: value '{n}' ({what}) also defined in {vals[n]}"))
            local.add(n)
            vals.setdefault(n, path)

        ins = {i.name for i in g.input}
        for i in g.input:
            define(i.name, "input")
        for t in g.initializer:
            if t.name not in ins:
                define(t.name, "initializer")
        for k, nd in enumerate(g.node):
            if nd.name:
                if nd.name in nodes:
                    kind = "dup-in-graph" if nodes[nd.name] == path else "dup-across-graphs"
                    out.append((f"names:node:{kind}", f"{path}: node name '{nd.name}' ({nd.op_type}) also used in {nodes[nd.name]}"))
                nodes.setdefault(nd.name, path)
            else:
                out.append(("names:node:empty", f"{path}: node #{k} {nd.op_type} has no name"))
            for a in nd.attribute:
                subs = [a.g] if a.type == onnx.AttributeProto.GRAPH else list(a.graphs)
                for sg in subs:
                    walk(sg, f"{path}/{nd.op_type}#{k}.{a.name}", outer | local)
            for y in nd.output:
                define(y, f"output of {nd.op_type}#{k}")

    walk(model.graph, "graph", set())
    seen = set()
    res = []
    for b, d in out:  # one detail per bucket is enough
        if b not in seen:
            seen.add(b)
            res.append((b, d))
    return res


def run_both(model, feeds, use_ref=True):
    a = execs.run_ort(model, feeds)
    b = execs.run_ref(model, feeds) if use_ref else ("err", "reference evaluator not used for this case")
    return a, b


def judge_outputs(tag, a, b, expected, scale):
    """Three-way decision between ort (a), reference (b) and the numpy replay (expected).
    Returns (verdict, bucket_suffix, detail)."""
    scale = max(scale, 1.0)
    tol = dict(rel=2e-5, abs_=2e-6 * scale)
    if a[0] != "ok" or b[0] != "ok":
        # one runtime only: its kernels' rounding (denormals, fused ops) cannot be cross-checked, and the defects this property is
        # about change results grossly - a looser tolerance keeps the verdict sound
        tol = dict(rel=1e-3, abs_=1e-4 * scale)
    if a[0] != "ok" and b[0] != "ok":
        if "NOT_IMPLEMENTED" in a[1] or "Could not find an implementation" in a[1]:
            return ("skip_no_kernel", "", a[1])      # onnxruntime has no kernel for this op/type combination
        return ("violation", f"not-executable:{tag}", f"ort: {a[1]} | ref: {b[1]}")
    ca = compare.same_outputs(expected, a[1], **tol) if a[0] == "ok" else None
    cb = compare.same_outputs(expected, b[1], **tol) if b[0] == "ok" else None
    comps = [c for c, r in ((ca, a), (cb, b)) if r[0] == "ok"]
    if all(c is None for c in comps):
        return ("ok", "", "")
    if all(c is not None for c in comps):
        return ("violation", f"values:{tag}", f"replay vs ort: {ca} | replay vs ref: {cb} (ort {a[0]}, ref {b[0]})")
    return ("split", "", f"replay vs ort: {ca} | replay vs ref: {cb}")


# =====================================================================================================================
# part (b): module trees
# =====================================================================================================================
THEN_NOOPS = ["Identity", "Max", "Min", "Sum", "Mean"]  # identity functions (variadic operators with one operand) without constants
ELSE_OPS = ["Neg", "Abs", "Floor", "Ceil", "Sign", "Exp", "Tanh", "Sin", "Cos", "Round"]
ATTRS = ["a", "b", "c", "d", "layers", "blocks", "fc", "norm"]
PATTRS = ["w", "bias", "scale", "g"]


class TreeSim:
    """Applies JSON ops to real onnxscript.nn objects and keeps an independent structural record (the spec)."""

    MAXH = 4

    def __init__(self, exclude=()):
        from onnxscript import nn

        self.exclude = set(exclude)
        self.redirected = 0
        self.rehomed_in_seq = False   # a module taken out of a retired ModuleList was put into a Sequential
        self.nn = nn
        self.nodes = []   # dict(kind M|L|S, obj, parent, key, kids:list[(key,id)], params:list[(attr,pid)], name, style, twice, dead)
        self.params = []  # dict(obj, value)
        self.history = []
        self.done = None
        self.bodies = 0
        self.noops = 0
        self.in_body_done = set()

        class _Probe(Exception):
            """Raised by a fallible child's forward on request; the parent catches it and calls the child again (fallback idiom)."""

        class Node(nn.Module):
            def forward(self, op, x):
                mode = self.__dict__.pop("_vf_raise", None)
                if mode == "start":
                    raise _Probe()
                for p in self._parameters.values():  # noqa: SLF001
                    x = op.Add(x, p)
                if mode == "after_params":
                    raise _Probe()
                for child in self._modules.values():  # noqa: SLF001
                    x = call_child(op, child, x)
                return x

        def call_child(op, child, x):
            reps = 2 if getattr(child, "_vf_twice", False) else 1
            for _ in range(reps):
                if isinstance(child, nn.Sequential):
                    x = child(op, x)
                elif isinstance(child, nn.ModuleList):
                    for m in iterate(child):
                        x = call_child(op, m, x)
                elif getattr(child, "_vf_in_body", False) and id(child) not in sim.in_body_done:
                    # (only the FIRST call of such a child happens inside a branch: a second If with the same scope would repeat the
                    # auto-generated names of the first - the recorded sub-builder auto-name finding, not what this flag is about)
                    sim.in_body_done.add(id(child))
                    x = call_in_body(op, child, x)
                else:
                    mode = getattr(child, "_vf_fallible", None)
                    if mode:  # a forward that raises while tracing and is caught: the module scope must be left as it was found
                        child.__dict__["_vf_raise"] = mode
                        try:
                            child(op, x)
                        except _Probe:
                            pass
                    x = child(op, x)
            return x

        sim = self

        def call_in_body(op, child, x):
            """The child is called inside the then-branch of an If (condition true) built with GraphBuilder.subgraph: its parameters
            must still be initializers of the main graph, named by the dotted module path.  The else-branch applies a unary
            operator of its own kind so that no auto-generated name repeats (sub-builder auto names are a recorded finding)."""
            import onnx_ir as ir
            from onnxscript._internal import builder as B
            from onnxscript.onnx_types import DOUBLE

            k = sim.bodies
            sim.bodies += 1
            def then_fn(op2):
                y = child(op2, x)
                if y is x:  # a child without parameters returns its argument: a branch output must be produced inside the branch
                    y = getattr(op2, THEN_NOOPS[sim.noops % len(THEN_NOOPS)])(x)
                    sim.noops += 1
                return y

            tb = op.builder.subgraph(then_fn, inputs=[], outputs=[B.make_value(f"then_out_{k}", DOUBLE[2])], name=f"then_{k}")
            eb = op.builder.subgraph(lambda op2: getattr(op2, ELSE_OPS[k % len(ELSE_OPS)])(x), inputs=[], outputs=[B.make_value(f"else_out_{k}", DOUBLE[2])],
                                     name=f"else_{k}")
            cond = op.Constant(value=ir.tensor(np.array(True)))
            return op.If(cond, then_branch=tb, else_branch=eb)

        def iterate(ml):
            style = getattr(ml, "_vf_style", "iter")
            n = len(ml)
            if style == "index":
                return [ml[i] for i in range(n)]
            if style == "negindex":
                return [ml[i - n] for i in range(n)]
            if style == "slices":
                k = n // 2
                return list(ml[:k]) + list(ml[k:])
            if style == "slice_step":
                return list(ml[::2]) + list(ml[1::2]) if n else []
            return list(ml)

        self.Node = Node

    # ---- helpers over the spec
    def height(self, i):
        n = self.nodes[i]
        return 0 if not n["kids"] else 1 + max(self.height(k) for _, k in n["kids"])

    def depth(self, i):
        d = 0
        while self.nodes[i]["parent"] is not None:
            i = self.nodes[i]["parent"]
            d += 1
        return d

    def root_of(self, i):
        while self.nodes[i]["parent"] is not None:
            i = self.nodes[i]["parent"]
        return i

    def detached(self, kinds="MLS", unnamed_only=False):
        return [i for i, n in enumerate(self.nodes) if n["parent"] is None and not n["dead"] and n["kind"] in kinds
                and (not unnamed_only or n["name"] is None)]

    def alive(self, kinds="MLS"):
        return [i for i, n in enumerate(self.nodes) if not n["dead"] and n["kind"] in kinds]

    def _new(self, kind, obj, name=None):
        self.nodes.append(dict(kind=kind, obj=obj, parent=None, key=None, kids=[], params=[], name=name, style="iter", twice=False, dead=False,
                               rehomed=False, fallible=None))
        return len(self.nodes) - 1

    def can_attach(self, parent, child):
        if self.nodes[child]["parent"] is not None or self.nodes[child]["dead"] or self.nodes[parent]["dead"]:
            return False
        if self.root_of(parent) == child:
            return False
        return self.depth(parent) + 1 + self.height(child) <= self.MAXH

    def _link(self, parent, child, key):
        self.nodes[child]["parent"] = parent
        self.nodes[child]["key"] = key
        self.nodes[parent]["kids"].append((key, child))

    # ---- ops (each returns True when applied; invalid combinations are no-ops so that any history replays)
    def apply(self, o):
        for k in ("parent", "child", "mod", "list"):
            if k in o and not (isinstance(o[k], int) and 0 <= o[k] < len(self.nodes)):
                return False
        for k in ("children",):
            if k in o:
                o[k] = [c for c in o[k] if isinstance(c, int) and 0 <= c < len(self.nodes)]
        ok = getattr(self, "op_" + o["op"])(o)
        if ok:
            self.history.append(o)
        return ok

    def op_new_module(self, o):
        self._new("M", self.Node(o.get("name")), o.get("name"))
        return True

    def op_new_list(self, o):
        kids = list(dict.fromkeys(o.get("children", [])))
        kids = [k for k in kids if k in self.detached("MLS", unnamed_only=True)]
        if kids and 1 + max(self.height(k) for k in kids) > self.MAXH:
            return False
        o["children"] = kids
        form = o.get("form", "list")
        if not kids and form == "none":
            obj = self.nn.ModuleList()
        else:
            obj = self.nn.ModuleList([self.nodes[k]["obj"] for k in kids])
        i = self._new("L", obj)
        self.nodes[i]["style"] = o.get("style", "iter")
        obj._vf_style = self.nodes[i]["style"]  # noqa: SLF001
        for j, k in enumerate(kids):
            self._link(i, k, str(j))
        return True

    def op_new_seq(self, o):
        kids = list(dict.fromkeys(o.get("children", [])))
        kids = [k for k in kids if k in self.detached("MS", unnamed_only=True)]
        kids = self._no_rehomed(kids)
        if kids and 1 + max(self.height(k) for k in kids) > self.MAXH:
            return False
        o["children"] = kids
        i = self._new("S", self.nn.Sequential(*[self.nodes[k]["obj"] for k in kids]))
        for j, k in enumerate(kids):
            self._link(i, k, str(j))
        return True

    def _no_rehomed(self, kids):
        """Region rehomed_in_unnamed_sequential: a module that was a child of a (retired) ModuleList keeps the name that list
        gave it; inside a Sequential nobody refreshes it.  Excluded -> such modules are not put into a Sequential."""
        bad = [k for k in kids if self.nodes[k]["rehomed"]]
        if bad and "rehomed_in_unnamed_sequential" in self.exclude:
            self.redirected += 1
            return [k for k in kids if k not in bad]
        if bad:
            self.rehomed_in_seq = True
        return kids

    def op_attach(self, o):
        p, c = o["parent"], o["child"]
        if p >= len(self.nodes) or c >= len(self.nodes) or self.nodes[p]["kind"] != "M" or not self.can_attach(p, c):
            return False
        if self.nodes[c]["name"] == "":
            return False                             # Module(name="") can only be a root
        attr = self.nodes[c]["name"] or o["attr"]   # an explicit name is only claimed when it equals the attribute name
        used = {k for k, _ in self.nodes[p]["kids"]} | {a for a, _ in self.nodes[p]["params"]}
        if attr in used:
            return False
        o["attr"] = attr
        setattr(self.nodes[p]["obj"], attr, self.nodes[c]["obj"])
        self._link(p, c, attr)
        if o.get("twice"):
            self.nodes[c]["twice"] = True
            self.nodes[c]["obj"]._vf_twice = True  # noqa: SLF001
        if o.get("fallible") and self.nodes[c]["kind"] == "M":
            self.nodes[c]["fallible"] = o["fallible"]
            self.nodes[c]["obj"].__dict__["_vf_fallible"] = o["fallible"]
        n_in_body = sum(1 for n in self.nodes if n.get("in_body"))
        if o.get("in_body") and self.nodes[c]["kind"] == "M" and not o.get("twice") and not o.get("fallible") and n_in_body < len(ELSE_OPS):
            self.nodes[c]["in_body"] = True
            self.nodes[c]["obj"].__dict__["_vf_in_body"] = True
        return True

    def _appendable(self, p, c):
        if p >= len(self.nodes) or c >= len(self.nodes):
            return False
        pk, ck = self.nodes[p]["kind"], self.nodes[c]["kind"]
        if pk not in "LS" or (pk == "S" and ck == "L"):   # a ModuleList is not callable, so it cannot sit in a Sequential
            return False
        return self.nodes[c]["name"] is None and self.can_attach(p, c)

    def op_append(self, o):
        p, c = o["parent"], o["child"]
        if not self._appendable(p, c):
            return False
        if self.nodes[p]["kind"] == "S" and not self._no_rehomed([c]):
            return False
        self.nodes[p]["obj"].append(self.nodes[c]["obj"])
        self._link(p, c, str(len(self.nodes[p]["kids"])))
        return True

    def op_extend(self, o):
        p = o["parent"]
        kids = []
        for c in dict.fromkeys(o["children"]):
            if self._appendable(p, c) and c != p:
                kids.append(c)
        if kids and self.nodes[p]["kind"] == "S":
            kids = self._no_rehomed(kids)
        if not kids:
            return False
        o["children"] = kids
        self.nodes[p]["obj"].extend([self.nodes[c]["obj"] for c in kids])
        for c in kids:
            self._link(p, c, str(len(self.nodes[p]["kids"])))
        return True

    def op_param(self, o):
        m = o["mod"]
        if m >= len(self.nodes) or self.nodes[m]["kind"] != "M" or self.nodes[m]["dead"]:
            return False
        attr = o["attr"]
        used = {k for k, _ in self.nodes[m]["kids"]} | {a for a, _ in self.nodes[m]["params"]}
        if attr in used or len(self.params) >= 30:
            return False
        import onnx_ir as ir

        value = float(3 ** len(self.params))
        data = ir.tensor(np.array([value, -value], dtype=np.float64)) if o.get("data", True) else None
        p = self.nn.Parameter([2], dtype=ir.DataType.DOUBLE, name=attr if o.get("named") else None, data=data)
        setattr(self.nodes[m]["obj"], attr, p)
        self.params.append(dict(obj=p, value=value, data=data is not None))
        self.nodes[m]["params"].append((attr, len(self.params) - 1))
        return True

    def op_slice(self, o):
        """Structural slice of a *detached, never attached* ModuleList: the pieces replace it (old list is retired)."""
        i = o["list"]
        if i >= len(self.nodes) or self.nodes[i]["kind"] != "L" or i not in self.detached("L"):
            return False
        kids = self.nodes[i]["kids"]
        if not kids:
            return False
        cut = o["cut"] % (len(kids) + 1)
        o["cut"] = cut
        old = self.nodes[i]["obj"]
        pieces = [(old[:cut], kids[:cut], o.get("as0", "L")), (old[cut:], kids[cut:], o.get("as1", "L"))]
        self.nodes[i]["dead"] = True
        for _, k in kids:
            self.nodes[k]["rehomed"] = True
        for sl, ks, as_ in pieces:
            if not ks:
                continue
            if as_ == "S" and all(self.nodes[k]["kind"] in "MS" for _, k in ks) and self._no_rehomed([k for _, k in ks]):
                j = self._new("S", self.nn.Sequential(*sl))
            else:
                j = self._new("L", sl)
                self.nodes[j]["style"] = self.nodes[i]["style"]
                sl._vf_style = self.nodes[j]["style"]  # noqa: SLF001
            for n, (_, k) in enumerate(ks):
                self.nodes[k]["parent"] = None
                self._link(j, k, str(n))
        return True

    def op_build(self, o):
        roots = self.detached("MS")
        if not roots:   # only lists around: a ModuleList is not callable, so wrap the biggest one in a Module
            lists = self.detached("L")
            if not lists:
                return False
            n = len(self.nodes)
            self.apply({"op": "new_module", "name": None})
            if not self.apply({"op": "attach", "parent": n, "child": max(lists, key=lambda i: (self.size(i), -i)), "attr": "layers"}):
                self.nodes[n]["dead"] = True
                return False
            roots = [n]
        r = o.get("root")
        if r not in roots:
            r = max(roots, key=lambda i: (self.size(i), -i))
            if "pick" in o:
                r = roots[o["pick"] % len(roots)]
        o["root"] = r
        o.pop("pick", None)
        # Sequential.forward raises on an empty container (documented): give every empty one a leaf first
        for j in _subtree(self, r):
            if self.nodes[j]["kind"] == "S" and not self.nodes[j]["kids"]:
                n = len(self.nodes)
                self.apply({"op": "new_module", "name": None})
                self.apply({"op": "param", "mod": n, "attr": "w", "named": bool(j % 2), "data": True})
                if not self.apply({"op": "append", "parent": j, "child": n}):   # height limit: cannot be filled
                    return False
        self.done = r
        return True

    def size(self, i):
        return 1 + len(self.nodes[i]["params"]) + sum(self.size(k) for _, k in self.nodes[i]["kids"])

    # ---- spec-side expectations
    def spec_paths(self, i, prefix=""):
        """{dotted attribute/index path: param id} straight from the recorded structure."""
        out = {}
        n = self.nodes[i]
        for attr, pid in n["params"]:
            out[prefix + attr] = pid
        for key, k in n["kids"]:
            out.update(self.spec_paths(k, prefix + key + "."))
        return out

    def spec_total(self, i):
        n = self.nodes[i]
        t = sum(self.params[pid]["value"] for _, pid in n["params"])
        for _, k in n["kids"]:
            t += (2 if self.nodes[k]["twice"] else 1) * self.spec_total(k)
        return t

    def text(self, i, ind=0):
        n = self.nodes[i]
        kind = {"M": "Module", "L": "ModuleList", "S": "Sequential"}[n["kind"]]
        extra = (f" name={n['name']!r}" if n["name"] else "") + (f" iter={n['style']}" if n["kind"] == "L" else "") + (" x2" if n["twice"] else "") + (f" fallible@{n['fallible']}" if n.get("fallible") else "") + (" in-If-body" if n.get("in_body") else "")
        s = "  " * ind + f"({n['key']}) " * (n["key"] is not None) + kind + extra + "".join(f" P:{a}" for a, _ in n["params"]) + "\n"
        return s + "".join(self.text(k, ind + 1) for _, k in n["kids"])

    def shape_sig(self, i):
        n = self.nodes[i]
        return [n["kind"], n["key"], bool(n["name"]), n["style"] if n["kind"] == "L" else "", n["twice"], n.get("fallible"), bool(n.get("in_body")), [a for a, _ in n["params"]],
                [self.shape_sig(k) for _, k in n["kids"]]]


def tree_finish(sim):
    """Build the graph by calling the root and evaluate the oracle.  Returns (verdicts, info)."""
    import onnx_ir as ir
    from onnxscript._internal import builder as B

    r = sim.done
    root = sim.nodes[r]["obj"]
    info = dict(height=sim.height(r), size=sim.size(r), container=_has_container(sim, r), nparams=len(sim.spec_paths(r)),
                kinds=sorted({sim.nodes[i]["kind"] for i in _subtree(sim, r)}), root_named=bool(sim.nodes[r]["name"]), root_kind=sim.nodes[r]["kind"])
    verdicts = []
    spec = sim.spec_paths(r)
    try:
        named = dict(root.named_parameters())
        sd = root.state_dict()
    except Exception as e:  # noqa: BLE001
        return [(f"raise:named_parameters:{_frame(e)}", f"{type(e).__name__}: {e}")], info
    pid_of = {id(p["obj"]): i for i, p in enumerate(sim.params)}
    if set(named) != set(sd):
        verdicts.append(("keys:state_dict!=named_parameters", f"state_dict {sorted(sd)} vs named_parameters {sorted(named)}"))
    got_paths = {k: pid_of.get(id(v)) for k, v in named.items()}
    if got_paths != spec:
        verdicts.append(("keys:named_parameters!=attribute-path", f"named_parameters {sorted(got_paths.items())} vs structure {sorted(spec.items())}"))

    graph = ir.Graph(name="tree", inputs=[], outputs=[], nodes=[], opset_imports={"": 21})
    gb = B.GraphBuilder(graph)
    x = gb.input("x", ir.DataType.DOUBLE, [2])
    try:
        y = root(gb.op, x)
    except Exception as e:  # noqa: BLE001
        verdicts.append((f"raise:Module.__call__:{_frame(e)}", f"{type(e).__name__}: {str(e)[:300]}"))
        return verdicts, info
    if y is x:
        y = gb.op.Identity(x)
    prefix = (root.name + ".") if root.name else ""
    expected = {prefix + k: pid for k, pid in spec.items()}
    inits = dict(graph.initializers)
    param_inits = {k: v for k, v in inits.items() if isinstance(v, sim.nn.Parameter)}
    got = {k: pid_of.get(id(v)) for k, v in param_inits.items()}
    if got != expected:
        missing = sorted(set(expected) - set(got))
        extra = sorted(set(got) - set(expected))
        swapped = sorted(k for k in set(got) & set(expected) if got[k] != expected[k])
        kind = "missing+extra" if missing and extra else "missing" if missing else "extra" if extra else "wrong-object"
        if len(got) < len(expected):
            kind += ":collision"   # two parameters realised under one name: one overwrote the other
        verdicts.append((f"initializers:{kind}", f"missing {missing} extra {extra} wrong-object {swapped}; root.name={root.name!r}; "
                         f"initializers={sorted(inits)}; expected={sorted(expected)}"))
    for k, v in param_inits.items():
        if v.name != k:
            verdicts.append(("initializers:key!=value.name", f"initializers[{k!r}].name == {v.name!r}"))
    # numerical check: every parameter contributes exactly (number of calls) times
    if all(sim.params[pid]["data"] for pid in spec.values()) and isinstance(y, ir.Value):
        gb.add_output(y, "y")
        if y.type is None:
            y.type = ir.TensorType(ir.DataType.DOUBLE)
        if y.shape is None:
            y.shape = ir.Shape([2])
        try:
            mp = ir.serde.serialize_model(ir.Model(graph, ir_version=10))
        except Exception as e:  # noqa: BLE001
            verdicts.append((f"raise:serialize:{_frame(e)}", f"{type(e).__name__}: {str(e)[:300]}"))
            return verdicts, info
        verdicts += name_problems(mp)
        for kind, msg in wellformed.check_model(mp)[:2]:
            verdicts.append((f"invalid:tree:{kind}", msg))
        total = sim.spec_total(r)
        x0 = np.array([0.5, -1.0], dtype=np.float64)
        exp = [x0 + np.array([total, -total], dtype=np.float64)]
        a, b = run_both(mp, {"x": x0})
        v, suffix, detail = judge_outputs("tree", a, b, exp, abs(total))
        info["verdict"] = v
        info["ran"] = True
        if v == "violation":
            verdicts.append((suffix, detail + f"; expected {exp[0].tolist()}"))
    return _dedup(verdicts), info


def _dedup(verdicts):
    seen, out = set(), []
    for b, d in verdicts:
        if b not in seen:
            seen.add(b)
            out.append((b, d))
    return out


def _subtree(sim, i):
    out = [i]
    for _, k in sim.nodes[i]["kids"]:
        out += _subtree(sim, k)
    return out


def _has_container(sim, i):
    return any(sim.nodes[j]["kind"] in "LS" for j in _subtree(sim, i))


def tree_record(col, sim, verdicts, info):
    r = sim.done
    sig = [sim.shape_sig(r), sim.nodes[r]["name"]]
    nontrivial = info["height"] >= 2 and info["container"]
    classes = [f"tree:height={info['height']}", f"tree:root={info['root_kind']}:{'named' if info['root_named'] else 'unnamed'}",
               f"tree:params={min(info['nparams'], 8)}{'+' if info['nparams'] > 8 else ''}"]
    classes += [f"tree:has:{k}" for k in info["kinds"]]
    ops = {o["op"] for o in sim.history}
    classes += [f"tree:op:{o}" for o in sorted(ops)]
    styles = {sim.nodes[i]["style"] for i in _subtree(sim, r) if sim.nodes[i]["kind"] == "L"}
    classes += [f"tree:iter:{s}" for s in sorted(styles)]
    if any(sim.nodes[i]["twice"] for i in _subtree(sim, r)):
        classes.append("tree:called-twice")
    if any(sim.nodes[i].get("fallible") for i in _subtree(sim, r)):
        classes.append("tree:fallible-child")
    if any(sim.nodes[i].get("in_body") for i in _subtree(sim, r)):
        classes.append("tree:child-called-inside-If-body")
    if info.get("ran"):
        classes.append("tree:executed:" + info.get("verdict", "?"))
    if _nested_containers(sim, r):
        classes.append("tree:container-in-container")
    col.case(("tree", _hash(sig)), nontrivial, classes,
             sample={"part": "tree", "root_name": sim.nodes[r]["name"], "tree": sim.text(r)} if info["nparams"] >= 3 and info["height"] >= 3 else None)
    for bucket, detail in verdicts:
        col.violation("tree:" + bucket, detail, {"part": "tree", "history": sim.history, "text": sim.text(r), "exclude": sorted(sim.exclude),
                                                 "rehomed_in_seq": sim.rehomed_in_seq}, size=len(sim.history))


def _nested_containers(sim, r):
    for i in _subtree(sim, r):
        if sim.nodes[i]["kind"] in "LS" and any(sim.nodes[k]["kind"] in "LS" for _, k in sim.nodes[i]["kids"]):
            return True
    return False


def tree_replay(case):
    sim = TreeSim(case.get("exclude", ()))
    for o in case["history"]:
        sim.apply(dict(o))
    if sim.done is None:
        return []
    verdicts, _ = tree_finish(sim)
    return [("tree:" + b, d) for b, d in verdicts]


def make_tree_machine(col):
    from hypothesis.stateful import RuleBasedStateMachine, initialize, precondition, rule

    ints = st.integers(0, 1000)

    class TreeMachine(RuleBasedStateMachine):
        def __init__(self):
            super().__init__()
            self.sim = TreeSim(EXCLUDE)

        def _pick(self, lst, k):
            return lst[k % len(lst)] if lst else None

        @initialize(name=st.sampled_from([None, None, "model", "m", ""]), kind=st.sampled_from("MMMS"))
        def start(self, name, kind):
            if kind == "M":
                self.sim.apply({"op": "new_module", "name": name})
            else:
                self.sim.apply({"op": "new_seq", "children": []})

        @precondition(lambda self: self.sim.done is None)
        @rule(name=st.sampled_from([None, None, None, "a", "b", "model", "layers", ""]))
        def new_module(self, name):
            self.sim.apply({"op": "new_module", "name": name})

        @precondition(lambda self: self.sim.done is None)
        @rule(ks=st.lists(ints, max_size=3), style=st.sampled_from(["iter", "iter", "index", "negindex", "slices", "slice_step"]),
              form=st.sampled_from(["list", "list", "none"]))
        def new_list(self, ks, style, form):
            det = self.sim.detached("MLS", unnamed_only=True)
            kids = [self._pick(det, k) for k in ks] if det else []
            self.sim.apply({"op": "new_list", "children": kids, "style": style, "form": form})

        @precondition(lambda self: self.sim.done is None)
        @rule(ks=st.lists(ints, max_size=3))
        def new_seq(self, ks):
            det = self.sim.detached("MS", unnamed_only=True)
            kids = [self._pick(det, k) for k in ks] if det else []
            self.sim.apply({"op": "new_seq", "children": kids})

        @precondition(lambda self: self.sim.done is None and self.sim.alive("M"))
        @rule(m=ints, attr=st.sampled_from(PATTRS), named=st.booleans(), data=st.sampled_from([True, True, True, True, False]))
        def param(self, m, attr, named, data):
            self.sim.apply({"op": "param", "mod": self._pick(self.sim.alive("M"), m), "attr": attr, "named": named, "data": data})

        @precondition(lambda self: self.sim.done is None and self.sim.alive("M") and self.sim.detached())
        @rule(p=ints, c=ints, attr=st.sampled_from(ATTRS), twice=st.sampled_from([False] * 7 + [True]),
              fallible=st.sampled_from([None] * 6 + ["start", "after_params"]), in_body=st.sampled_from([False] * 4 + [True]))
        def attach(self, p, c, attr, twice, fallible, in_body):
            self.sim.apply({"op": "attach", "parent": self._pick(self.sim.alive("M"), p), "child": self._pick(self.sim.detached(), c), "attr": attr, "twice": twice,
                            "fallible": fallible, "in_body": in_body})

        @precondition(lambda self: self.sim.done is None and self.sim.alive("LS") and self.sim.detached())
        @rule(p=ints, c=ints)
        def append(self, p, c):
            self.sim.apply({"op": "append", "parent": self._pick(self.sim.alive("LS"), p), "child": self._pick(self.sim.detached(unnamed_only=True) or [0], c)})

        @precondition(lambda self: self.sim.done is None and self.sim.alive("LS") and self.sim.detached())
        @rule(p=ints, cs=st.lists(ints, min_size=1, max_size=3))
        def extend(self, p, cs):
            det = self.sim.detached(unnamed_only=True) or [0]
            self.sim.apply({"op": "extend", "parent": self._pick(self.sim.alive("LS"), p), "children": [self._pick(det, c) for c in cs]})

        @precondition(lambda self: self.sim.done is None and self.sim.detached("L"))
        @rule(i=ints, cut=ints, as0=st.sampled_from(["L", "L", "S"]), as1=st.sampled_from(["L", "L", "S"]))
        def slice_(self, i, cut, as0, as1):
            self.sim.apply({"op": "slice", "list": self._pick(self.sim.detached("L"), i), "cut": cut, "as0": as0, "as1": as1})

        @precondition(lambda self: self.sim.done is None and self.sim.alive())
        @rule(p=ints, kind=st.sampled_from("MMMLLSS"), explicit=st.booleans(), attr=st.sampled_from(ATTRS),
              pattrs=st.lists(st.tuples(st.sampled_from(PATTRS), st.booleans()), max_size=2, unique_by=lambda t: t[0]),
              style=st.sampled_from(["iter", "index", "negindex", "slices", "slice_step"]))
        def grow(self, p, kind, explicit, attr, pattrs, style):
            """Top-down growth: create a node and hang it under an existing one at once."""
            sim = self.sim
            parent = self._pick(sim.alive(), p)
            pk = sim.nodes[parent]["kind"]
            if pk == "S" and kind == "L":
                kind = "M"
            n = len(sim.nodes)
            if kind == "M":
                sim.apply({"op": "new_module", "name": attr if (explicit and pk == "M") else None})
                for a, named in pattrs:
                    sim.apply({"op": "param", "mod": n, "attr": a, "named": named, "data": True})
            elif kind == "L":
                sim.apply({"op": "new_list", "children": [], "style": style, "form": "list"})
            else:
                sim.apply({"op": "new_seq", "children": []})
            if pk == "M":
                sim.apply({"op": "attach", "parent": parent, "child": n, "attr": attr, "twice": False})
            else:
                sim.apply({"op": "append", "parent": parent, "child": n})

        @precondition(lambda self: self.sim.done is None and len(self.sim.history) >= 8)
        @rule(pick=ints, biggest=st.sampled_from([True, True, True, False]))
        def build(self, pick, biggest):
            o = {"op": "build"}
            if not biggest:
                o["pick"] = pick
            self.sim.apply(o)

        @precondition(lambda self: self.sim.done is not None)
        @rule()
        def idle(self):
            """After the terminal rule nothing else may happen (realised Parameters cannot be re-used)."""

        def teardown(self):
            sim = self.sim
            if sim.done is None:
                sim.apply({"op": "build"})
            if sim.done is None:
                col.skip("tree:no-buildable-root")
                return
            verdicts, info = tree_finish(sim)
            for _ in range(sim.redirected):
                col.exclude("rehomed_in_unnamed_sequential")
            tree_record(col, sim, verdicts, info)

    return TreeMachine


# =====================================================================================================================
# part (a): traced programs - numpy interpreter (the replay oracle)
# =====================================================================================================================
NP = {"FLOAT": np.float32, "DOUBLE": np.float64, "INT64": np.int64, "INT32": np.int32, "BOOL": np.bool_}
ENUM = {"FLOAT": 1, "DOUBLE": 11, "INT64": 7, "INT32": 6, "BOOL": 9}
NAME_OF = {np.dtype(v): k for k, v in NP.items()}


def dtn(a):
    return NAME_OF[np.asarray(a).dtype]


class ReplayError(Exception):
    """The program is outside the domain of the numpy interpreter (generator drops the step / case is skipped)."""


def _lit_value(o):
    v = o["lit"]
    if isinstance(v, str):   # non-finite floats are stored as strings to keep the case strict-JSON
        return {"inf": float("inf"), "-inf": float("-inf"), "nan": float("nan"), "-0.0": -0.0}[v]
    if isinstance(v, list):
        return [_lit_value({"lit": x}) for x in v]
    return v


def default_lit_dtype(v):
    e = v[0] if isinstance(v, (list, tuple)) else v
    if isinstance(e, bool):
        return np.bool_
    if isinstance(e, int):
        return np.int64
    if isinstance(e, float):
        return np.float32
    raise ReplayError(f"literal {v!r}")


def schema_of(op, dom, opset):
    if dom not in ("", "ai.onnx"):
        return None
    try:
        return onnx.defs.get_schema(op, opset, "")
    except Exception:  # noqa: BLE001
        return None


def arrange(step, schema):
    """Operands in formal order.  Inputs given by keyword go to the position of the formal parameter of that name
    (what 'placed in schema order' in builder_test means); skipped optional inputs in between are absent (None)."""
    ops = list(step["ins"])
    kw = step.get("kwins") or {}
    if kw:
        if schema is None:
            raise ReplayError("keyword inputs need a schema")
        names = [i.name for i in schema.inputs]
        for k, v in kw.items():
            idx = names.index(k)
            while len(ops) <= idx:
                ops.append({"none": 1})
            ops[idx] = v
    return ops


def typevars(schema, n):
    out = []
    for i in range(n):
        if schema is None:
            out.append(None)
        elif i < len(schema.inputs):
            out.append(schema.inputs[i].type_str)
        elif schema.inputs and schema.inputs[-1].option == onnx.defs.OpSchema.FormalParameterOption.Variadic:
            out.append(schema.inputs[-1].type_str if schema.inputs[-1].is_homogeneous else None)
        else:
            raise ReplayError("too many operands")
    return out


def _attr_to_onnx(v):
    if isinstance(v, dict) and "tensor" in v:
        return numpy_helper.from_array(optcommon.arr_from_json(v["tensor"]))
    return v


def contrib_kernel(op, ins, attrs):
    from math import erf, sqrt

    x = ins[0]
    if op == "Gelu":
        e = np.vectorize(erf, otypes=[np.float64])(x.astype(np.float64) / sqrt(2.0))
        return [(0.5 * x.astype(np.float64) * (1.0 + e)).astype(x.dtype)]
    if op == "QuickGelu":
        al = np.float32(attrs.get("alpha", 1.702))
        z = x.astype(np.float64) * float(al)
        return [(x.astype(np.float64) / (1.0 + np.exp(-z))).astype(x.dtype)]
    raise ReplayError(f"contrib op {op}")


def run_kernel(op, dom, opset, ins, attrs, nout):
    if dom == "com.microsoft":
        return contrib_kernel(op, ins, attrs)
    from onnx.reference import ReferenceEvaluator

    names = [f"i{k}" if a is not None else "" for k, a in enumerate(ins)]
    while names and names[-1] == "":
        names.pop()
    node = helper.make_node(op, names, [f"o{k}" for k in range(nout)], **{k: _attr_to_onnx(v) for k, v in attrs.items()})
    gin = [helper.make_tensor_value_info(n, helper.np_dtype_to_tensor_dtype(np.asarray(a).dtype), None) for n, a in zip(names, ins) if n]
    gout = [helper.make_empty_tensor_value_info(f"o{k}") for k in range(nout)]
    m = helper.make_model(helper.make_graph([node], "k", gin, gout), opset_imports=[helper.make_opsetid("", opset)], ir_version=10)
    try:
        res = ReferenceEvaluator(m).run(None, {n: np.asarray(a) for n, a in zip(names, ins) if n})
    except Exception as e:  # noqa: BLE001
        raise ReplayError(f"{op}: {type(e).__name__}: {str(e)[:120]}") from None
    out = []
    for r in res:
        r = np.asarray(r)
        if r.dtype not in NAME_OF:
            raise ReplayError(f"{op}: dtype {r.dtype}")
        out.append(r)
    return out


class Interp:
    """Executes a program on numpy arrays.  env: var id -> array."""

    def __init__(self, prog):
        self.prog = prog
        self.opset = prog["opset"]
        self.funcs = prog.get("funcs", [])
        self.frec = {}     # function name -> argument arrays of its first call (types of build_function inputs)
        self.fvals = []    # every value computed inside function bodies (magnitude / finiteness of the whole trace)

    # ---- operands
    def operand_arrays(self, step, env, schema):
        ops = arrange(step, schema)
        tvs = typevars(schema, len(ops))
        bind = {}
        for o, t in zip(ops, tvs):
            if t is not None and "(" not in t and t not in bind and "v" in o:
                bind[t] = np.asarray(env[o["v"]]).dtype
        arrs = []
        for o, t in zip(ops, tvs):
            if "none" in o:
                arrs.append(None)
            elif "v" in o:
                arrs.append(env[o["v"]])
            elif "lit" in o:
                v = _lit_value(o)
                dt = bind.get(t) if (t is not None and "(" not in t) else None
                arrs.append(np.array(v, dtype=dt if dt is not None else default_lit_dtype(v)))
            elif "tensor" in o:
                arrs.append(optcommon.arr_from_json(o["tensor"]))
            else:
                raise ReplayError(f"operand {o}")
        return arrs

    def attrs_of(self, step, attrenv):
        out = {}
        for k, v in (step.get("attrs") or {}).items():
            if isinstance(v, dict) and "ref" in v:
                if v["ref"] not in attrenv:
                    raise ReplayError(f"unbound attribute {v['ref']}")
                out[k] = attrenv[v["ref"]]
            else:
                out[k] = v
        return out

    # ---- steps
    def run_steps(self, steps, env, attrenv):
        for s in steps:
            self.step(s, env, attrenv)

    def step(self, s, env, attrenv=None):
        attrenv = attrenv or {}
        k = s["k"]
        if k == "op":
            schema = schema_of(s["op"], s.get("dom", ""), self.opset)
            arrs = self.operand_arrays(s, env, schema)
            res = run_kernel(s["op"], s.get("dom", ""), self.opset, arrs, self.attrs_of(s, attrenv), len(s["outs"]))
            for i, r in zip(s["outs"], res):
                env[i] = r
        elif k in ("push", "pop"):
            pass
        elif k == "init":
            env[s["out"]] = optcommon.arr_from_json(s["arr"])
        elif k == "if":
            c = self._scalar(s["cond"], env, np.bool_)
            body = s["then"] if bool(c) else s["else"]
            rets = self.run_body(body, env, [], attrenv)
            if isinstance(env, RecEnv):   # the driver declares body outputs of both branches: learn the other branch's types too
                try:
                    self.run_body(s["else"] if bool(c) else s["then"], env, [], attrenv)
                except Exception:  # noqa: BLE001
                    pass
            for i, r in zip(s["outs"], rets):
                env[i] = r
        elif k == "loop":
            self.loop(s, env, attrenv)
        elif k == "scan":
            self.scan(s, env, attrenv)
        elif k == "call":
            f = self.funcs[s["fn"]]
            args = []
            for o in s["args"]:
                if "v" in o:
                    args.append(env[o["v"]])
                else:
                    v = _lit_value(o)
                    args.append(np.array(v, dtype=default_lit_dtype(v)))   # functions have no schema: Python default dtype
            rets = self.call(f, args, s.get("attrs") or {})
            for i, r in zip(s["outs"], rets):
                env[i] = r
        else:
            raise ReplayError(f"step kind {k}")

    def _scalar(self, o, env, dt):
        if "v" in o:
            a = np.asarray(env[o["v"]])
        else:
            a = np.array(_lit_value(o), dtype=dt)
        if a.size != 1:
            raise ReplayError("scalar expected")
        return a.reshape(()).astype(dt)

    def run_body(self, body, env, params, attrenv):
        benv = RecEnv(env, sink=env.all) if isinstance(env, RecEnv) else dict(env)
        for i, a in zip(body.get("params", []), params):
            benv[i] = a
        self.run_steps(body["steps"], benv, attrenv)
        return [benv[r] for r in body["ret"]]

    def loop(self, s, env, attrenv):
        trip = None if s.get("trip") is None else int(self._scalar(s["trip"], env, np.int64))
        cond = True if s.get("cond") is None else bool(self._scalar(s["cond"], env, np.bool_))
        carried = [env[o["v"]] for o in s["init"]]
        nc = len(carried)
        nscan = len(s["outs"]) - nc
        scans = [[] for _ in range(nscan)]
        i = 0
        while (trip is None or i < trip) and cond:
            if i > 16:
                raise ReplayError("loop too long")
            rets = self.run_body(s["body"], env, [np.array(i, dtype=np.int64), np.array(cond, dtype=np.bool_)] + carried, attrenv)
            c = np.asarray(rets[0])
            if c.dtype != np.bool_ or c.size != 1:
                raise ReplayError("loop condition must be a bool scalar")
            cond = bool(c)
            new = rets[1:1 + nc]
            for a, b in zip(carried, new):
                if np.asarray(a).dtype != np.asarray(b).dtype or np.asarray(a).shape != np.asarray(b).shape:
                    raise ReplayError("loop-carried value changes type/shape")
            carried = new
            for lst, r in zip(scans, rets[1 + nc:]):
                lst.append(np.asarray(r))
            i += 1
        if nscan and i == 0:
            raise ReplayError("zero iterations with scan outputs")
        outs = list(carried) + [np.stack(lst) for lst in scans]
        for i_, r in zip(s["outs"], outs):
            env[i_] = r

    def scan(self, s, env, attrenv):
        state = [env[o["v"]] for o in s["init"]]
        xs = [np.asarray(env[o["v"]]) for o in s["xs"]]
        n = xs[0].shape[0]
        if any(x.ndim < 1 or x.shape[0] != n for x in xs) or n == 0:
            raise ReplayError("scan inputs")
        ns = len(state)
        scans = [[] for _ in range(len(s["outs"]) - ns)]
        for t in range(n):
            rets = self.run_body(s["body"], env, list(state) + [x[t] for x in xs], attrenv)
            new = rets[:ns]
            for a, b in zip(state, new):
                if np.asarray(a).dtype != np.asarray(b).dtype or np.asarray(a).shape != np.asarray(b).shape:
                    raise ReplayError("scan state changes type/shape")
            state = new
            for lst, r in zip(scans, rets[ns:]):
                lst.append(np.asarray(r))
        outs = list(state) + [np.stack(lst) for lst in scans]
        for i_, r in zip(s["outs"], outs):
            env[i_] = r

    def call(self, f, args, given):
        attrenv = {}
        for a in f["attrs"]:
            if a["name"] in given:
                attrenv[a["name"]] = given[a["name"]]
            elif a.get("default") is not None:
                attrenv[a["name"]] = a["default"]
            else:
                raise ReplayError(f"required attribute {a['name']} missing")
        self.frec.setdefault(f["name"], list(args))
        fenv = {i: a for i, a in zip(f["params"], args)}
        inner = Interp({"opset": self.opset, "funcs": self.funcs})
        inner.fvals = self.fvals
        for s in f["body"]:
            if s["k"] == "call":   # nested script call: attribute values may forward the caller's attributes
                s = dict(s, attrs={k: (attrenv[v["ref"]] if isinstance(v, dict) and "ref" in v else v) for k, v in (s.get("attrs") or {}).items()})
            inner.step(s, fenv, attrenv)
        self.fvals.extend(fenv.values())
        return [fenv[r] for r in f["ret"]]


# =====================================================================================================================
# part (a): the same program performed on an onnxscript.GraphBuilder
# =====================================================================================================================
def _steps_walk(steps):
    for s in steps:
        yield s
        if s["k"] == "if":
            yield from _steps_walk(s["then"]["steps"])
            yield from _steps_walk(s["else"]["steps"])
        elif s["k"] in ("loop", "scan"):
            yield from _steps_walk(s["body"]["steps"])


def prog_steps(prog, with_funcs=True):
    yield from _steps_walk(prog["steps"])
    if with_funcs:
        for f in prog.get("funcs", []):
            yield from _steps_walk(f["body"])


def func_source(f, idx, funcs):
    """Python text of an @script function for a straight-line function body."""

    def operand(o):
        if "v" in o:
            return f"t{o['v']}"
        if "none" in o:
            return "None"
        return repr(_lit_value(o))

    def attrval(v):
        if isinstance(v, dict) and "ref" in v:
            return v["ref"]
        return repr(v)

    params = [f"t{i}" for i in f["params"]]
    for a in sorted(f["attrs"], key=lambda a: a.get("default") is not None):
        ann = {"f": "float", "i": "int"}[a["type"]]
        params.append(f"{a['name']}: {ann}" + (f" = {a['default']!r}" if a.get("default") is not None else ""))
    lines = [f"@script(fdom{idx}, default_opset=op)" if f["kind"] != "script_opb" else "@script(default_opset=op)",
             f"def {f['name']}({', '.join(params)}):"]
    for s in f["body"]:
        outs = ", ".join(f"t{i}" for i in s["outs"])
        if s["k"] == "op":
            args = [operand(o) for o in s["ins"]] + [f"{k}={attrval(v)}" for k, v in (s.get("attrs") or {}).items()]
            if s.get("pyop"):     # python operator form: t = a * 2.0
                lines.append(f"    {outs} = {operand(s['ins'][0])} {s['pyop']} {operand(s['ins'][1])}")
            else:
                lines.append(f"    {outs} = op.{s['op']}({', '.join(args)})")
        elif s["k"] == "call":
            g = funcs[s["fn"]]
            args = [operand(o) for o in s["args"]] + [f"{k}={attrval(v)}" for k, v in (s.get("attrs") or {}).items()]
            lines.append(f"    {outs} = {g['name']}({', '.join(args)})")
        else:
            raise ReplayError("script bodies are straight-line")
    lines.append("    return " + ", ".join(f"t{i}" for i in f["ret"]))
    return "\n".join(lines) + "\n"


class Driver:
    """Performs a program on a GraphBuilder.  flip=True swaps call <-> call_inline on every function-call step."""

    def __init__(self, prog, arrays, exclude=(), flip=False):
        self.prog, self.arr, self.exclude, self.flip = prog, arrays, set(exclude), flip
        self.opset = prog["opset"]
        self.vals = {}          # var id -> ir.Value of the main scope (for the inference check)
        self.uid = 0
        self.fobjs = {}

    def cut(self, api, fn, *a, **kw):
        try:
            return fn(*a, **kw)
        except CutError:
            raise
        except ReplayError:
            raise
        except Exception as e:  # noqa: BLE001
            raise CutError(api, e) from e

    # ---- values
    def ir_type(self, arr, how="full"):
        import onnx_ir as ir

        a = np.asarray(arr)
        t = ir.TensorType(ir.DataType(ENUM[dtn(a)]))
        if how == "untyped":
            return None, None
        if how == "dtype":
            return t, None
        return t, ir.Shape(list(a.shape))

    def make_value(self, name, arr, how="full", spec=False):
        import onnx_ir as ir
        import onnxscript
        from onnxscript._internal import builder as B

        a = np.asarray(arr)
        if how == "untyped":
            return B.make_value(name) if spec else ir.Value(name=name)
        if spec and how == "full":   # TypeSpec form FLOAT[2, 3]
            ts = getattr(onnxscript, dtn(a))
            return B.make_value(name, ts[tuple(a.shape)] if a.ndim else ts)
        t, sh = self.ir_type(a, how)
        return ir.Value(name=name, type=t, shape=sh)

    def conv(self, o, vals):
        import onnx_ir as ir

        if "v" in o:
            return vals[o["v"]]
        if "none" in o:
            return None
        if "lit" in o:
            v = _lit_value(o)
            return tuple(v) if o.get("tuple") and isinstance(v, list) else v
        if "tensor" in o:
            a = optcommon.arr_from_json(o["tensor"])
            if o.get("as") == "numpy":
                return a
            return ir.tensor(a, name=o.get("name"))
        raise ReplayError(f"operand {o}")

    def attr_value(self, k, v, fdef):
        import onnx_ir as ir

        if isinstance(v, dict) and "ref" in v:
            t = next(a["type"] for a in fdef["attrs"] if a["name"] == v["ref"])
            return ir.RefAttr(k, v["ref"], {"f": ir.AttributeType.FLOAT, "i": ir.AttributeType.INT}[t])
        if isinstance(v, dict) and "tensor" in v:
            return ir.tensor(optcommon.arr_from_json(v["tensor"]))
        return v

    # ---- steps
    def run_steps(self, op, steps, vals, fdef=None):
        for s in steps:
            self.step(op, s, vals, fdef)

    def outputs_kw(self, s, n):
        import onnx_ir as ir

        m = s.get("omode", "default")
        if m == "default":
            return {} if n == 1 else {"_outputs": n}
        if m == "int":
            return {"_outputs": n}
        if m == "names":
            return {"_outputs": list(s["onames"])}
        if m == "values":
            return {"_outputs": [ir.Value(name=x) for x in s["onames"]]}
        raise ReplayError(m)

    def step(self, op, s, vals, fdef=None):
        k = s["k"]
        gb = op.builder
        if k == "op":
            args = [self.conv(o, vals) for o in s["ins"]]
            kw = {n: self.conv(o, vals) for n, o in (s.get("kwins") or {}).items()}
            attrs = {n: self.attr_value(n, v, fdef) for n, v in (s.get("attrs") or {}).items()}
            dom = s.get("dom", "")
            ver = self.opset if dom == "" else 1
            if s.get("posattr"):
                args += list(attrs.values())
                attrs = {}
            kw.update(attrs)
            kw.update(self.outputs_kw(s, len(s["outs"])))
            target = op
            if s.get("via") == "opset":
                target = self.cut("GraphBuilder.opset", gb.opset, dom, ver)
            elif s.get("via") == "domkw":
                kw["_domain"] = dom
                kw["_version"] = ver
            elif s.get("via") == "verkw":
                kw["_version"] = ver
            r = self.cut(f"op.{s['op']}", getattr(target, s["op"]), *args, **kw)
            self.bind(s["outs"], r, vals, f"op.{s['op']}")
        elif k == "push":
            self.cut("push_module", gb.push_module, s["name"], s.get("cls", ""))
        elif k == "pop":
            self.cut("pop_module", gb.pop_module)
        elif k == "init":
            import onnx_ir as ir

            t = ir.tensor(optcommon.arr_from_json(s["arr"]), name=s["name"])
            if s.get("via") == "op":
                r = self.cut("op.initializer", op.initializer, t)
            elif s.get("via") == "rename":
                r = self.cut("builder.initializer", gb.initializer, ir.tensor(optcommon.arr_from_json(s["arr"]), name="tmp_" + s["name"]), name=s["name"])
            else:
                r = self.cut("builder.initializer", gb.initializer, t)
            vals[s["out"]] = r
        elif k == "if":
            tb = self.body_graph(op, s["then"], vals, [], fdef, s.get("api", "subgraph"))
            eb = self.body_graph(op, s["else"], vals, [], fdef, s.get("api", "subgraph"))
            kw = self.outputs_kw(s, len(s["outs"]))
            r = self.cut("op.If", op.If, self.conv(s["cond"], vals), then_branch=tb, else_branch=eb, **kw)
            self.bind(s["outs"], r, vals, "op.If")
        elif k == "loop":
            nc = len(s["init"])
            carried = [self.arr[o["v"]] for o in s["init"]]
            b = self.body_graph(op, s["body"], vals, [np.array(0, np.int64), np.array(True, np.bool_)] + carried, fdef, s.get("api", "subgraph"))
            args = [None if s.get("trip") is None else self.conv(s["trip"], vals), None if s.get("cond") is None else self.conv(s["cond"], vals)]
            args += [vals[o["v"]] for o in s["init"]]
            r = self.cut("op.Loop", op.Loop, *args, body=b, **self.outputs_kw(s, len(s["outs"])))
            self.bind(s["outs"], r, vals, "op.Loop")
            del nc
        elif k == "scan":
            st_ = [self.arr[o["v"]] for o in s["init"]]
            xs = [np.asarray(self.arr[o["v"]])[0] for o in s["xs"]]
            b = self.body_graph(op, s["body"], vals, st_ + xs, fdef, s.get("api", "subgraph"))
            args = [vals[o["v"]] for o in s["init"]] + [vals[o["v"]] for o in s["xs"]]
            r = self.cut("op.Scan", op.Scan, *args, body=b, num_scan_inputs=len(xs), **self.outputs_kw(s, len(s["outs"])))
            self.bind(s["outs"], r, vals, "op.Scan")
        elif k == "call":
            self.call(op, s, vals)
        else:
            raise ReplayError(k)

    def bind(self, outs, r, vals, api):
        import onnx_ir as ir

        if isinstance(r, ir.Value):
            r = [r]
        r = list(r)
        if len(r) != len(outs) or not all(isinstance(v, ir.Value) for v in r):
            raise CutError(api, TypeError(f"returned {len(r)} values ({[type(v).__name__ for v in r]}) for {len(outs)} outputs"))
        for i, v in zip(outs, r):
            vals[i] = v

    def body_graph(self, op, body, vals, param_arrays, fdef, api):
        from onnxscript._internal import builder as B

        gb = op.builder
        ins = [self.make_value(n, a, h, spec=body.get("spec", False)) for n, a, h in zip(body["pnames"], param_arrays, body["ptyped"])]
        outs = []
        for n, r, h in zip(body["onames"], body["ret"], body["otyped"]):
            outs.append(self.make_value(n, self.arr_of_ret(body, r), h, spec=body.get("spec", False)))
        scope = body.get("scope")
        if scope is None and "subgraph_autonames" in self.exclude:
            scope = body["auto_scope"]       # redirected: a unique module scope keeps the auto-generated names apart

        def trace(bop, *params):
            local = dict(vals)
            for i, v in zip(body.get("params", []), params):
                local[i] = v
            if scope:
                bop.builder.push_module(scope)
            self.run_steps(bop, body["steps"], local, fdef)
            if scope:
                bop.builder.pop_module()
            rets = [local[r] for r in body["ret"]]
            return rets[0] if (len(rets) == 1 and body.get("single_ret", True)) else (tuple(rets) if body.get("ret_tuple") else rets)

        if api == "build_graph":
            return self.cut("build_graph", B.build_graph, trace, ins, outs, opset_imports=dict(gb.graph.opset_imports), name=body["name"], parent=gb)
        return self.cut("GraphBuilder.subgraph", gb.subgraph, trace, ins, outs, name=body["name"])

    def arr_of_ret(self, body, r):
        return body["_ret_arrays"][r] if "_ret_arrays" in body else self.arr[r]

    # ---- functions
    def function(self, idx, op):
        if idx in self.fobjs:
            return self.fobjs[idx]
        import onnx_ir as ir
        import onnxscript
        from onnxscript._internal import builder as B

        from vf import scriptgen

        f = self.prog["funcs"][idx]
        if f["kind"] in ("script", "script_opb"):
            g = {f"fdom{idx}": onnxscript.values.Opset(f["domain"], 1)}
            for s in f["body"]:
                if s["k"] == "call":
                    callee = self.prog["funcs"][s["fn"]]
                    g[callee["name"]] = self.function(s["fn"], op)
            if f["kind"] == "script_opb":
                g["op"] = op
            src = func_source(f, idx, self.prog["funcs"])
            try:
                mod = scriptgen.compile_source(src, self.opset, g)
            except Exception as e:  # noqa: BLE001  (the converter is C01/C02's subject, not this property's)
                raise ReplayError(f"script compile: {type(e).__name__}: {str(e)[:200]}") from None
            obj = getattr(mod, f["name"])
        else:
            ins = [B.make_value(f"p{i}") if not f.get("typed") else self.make_value(f"p{i}", a, "dtype") for i, a in zip(f["params"], self.frec[f["name"]])]
            attrs = [ir.Attr(a["name"], {"f": ir.AttributeType.FLOAT, "i": ir.AttributeType.INT}[a["type"]], a.get("default")) for a in f["attrs"]]
            if f.get("attrs_as") == "dict":
                attrs = {a.name: a for a in attrs}

            def trace(fop, *params):
                local = {i: v for i, v in zip(f["params"], params)}
                self.run_steps(fop, f["body"], local, f)
                rets = [local[r] for r in f["ret"]]
                return rets[0] if len(rets) == 1 else rets

            obj = self.cut("build_function", B.build_function, trace, ins, domain=f["domain"], name=f["name"], attributes=attrs or None,
                           opset_imports={"": self.opset})
        self.fobjs[idx] = obj
        return obj

    def call(self, op, s, vals):
        import onnx_ir as ir

        f = self.prog["funcs"][s["fn"]]
        fn = self.function(s["fn"], op)
        mode = s["mode"]
        if self.flip:
            mode = "inline" if mode == "call" else "call"
        args = [self.conv(o, vals) for o in s["args"]]
        given = dict(s.get("attrs") or {})
        form = s.get("aform", "py")
        if mode == "inline":
            if "inline_default_attr" in self.exclude:
                for a in f["attrs"]:
                    if a["name"] not in given and a.get("default") is not None:
                        given[a["name"]] = a["default"]
            if "inline_py_attr" in self.exclude:
                form = "attr"
        if form == "attr":
            tp = {a["name"]: a["type"] for a in f["attrs"]}
            given = {k: (ir.AttrFloat32(k, v) if tp[k] == "f" else ir.AttrInt64(k, v)) for k, v in given.items()}
        kw = dict(given)
        m = s.get("omode", "default")
        if m == "names":
            kw["_outputs"] = list(s["onames"])
        elif m == "int" and mode == "call":
            kw["_outputs"] = len(s["outs"])
        if mode == "inline" and s.get("prefix"):
            kw["_prefix"] = s["prefix"]
        if mode == "call":
            r = self.cut("op.call", op.call, fn, *args, **kw)
        else:
            r = self.cut("op.call_inline", op.call_inline, fn, *args, **kw)
        self.bind(s["outs"], r, vals, "op." + ("call" if mode == "call" else "call_inline"))

    # ---- whole program
    def build(self):
        import onnx_ir as ir
        from onnxscript._internal import builder as B

        prog = self.prog
        imports = {"": self.opset}
        for s in prog_steps(prog):
            if s["k"] == "op" and s.get("dom"):
                imports[s["dom"]] = 1
        for f in prog.get("funcs", []):
            imports["this" if f["kind"] == "script_opb" else f["domain"]] = 1
        graph = ir.Graph(name="trace", inputs=[], outputs=[], nodes=[], opset_imports=imports)
        gb = self.cut("GraphBuilder", B.GraphBuilder, graph)
        op = gb.op
        vals = self.vals
        for inp in prog["inputs"]:
            a = self.arr[inp["id"]]
            if inp.get("via") == "value":
                v = self.make_value(inp["name"], a)
                graph.inputs.append(v)
            else:
                v = self.cut("GraphBuilder.input", gb.input, inp["name"], ir.DataType(ENUM[dtn(a)]), list(np.asarray(a).shape))
            vals[inp["id"]] = v
        self.run_steps(op, prog["steps"], vals)
        self.inferred = []
        for i, v in vals.items():
            a = np.asarray(self.arr[i])
            if v.type is not None and hasattr(v.type, "dtype") and int(v.type.dtype) != ENUM[dtn(a)]:
                self.inferred.append((i, f"value '{v.name}': builder type {v.type} but the trace computes {a.dtype}"))
            elif v.shape is not None:
                dims = list(v.shape)
                if len(dims) != a.ndim or any(isinstance(d, int) and d != n for d, n in zip(dims, a.shape)):
                    self.inferred.append((i, f"value '{v.name}': builder shape {v.shape} but the trace computes {list(a.shape)}"))
        for n, i in enumerate(prog["outputs"]):
            v = vals[i]
            a = np.asarray(self.arr[i])
            if prog.get("out_via") == "append":
                v.name = f"y{n}"
                graph.outputs.append(v)
            else:
                self.cut("GraphBuilder.add_output", gb.add_output, v, f"y{n}")
            if v.type is None:
                v.type = ir.TensorType(ir.DataType(ENUM[dtn(a)]))
            if v.shape is None:
                v.shape = ir.Shape([None] * a.ndim)
        self.graph, self.gb = graph, gb
        funcs = list(gb.functions.values())
        model = ir.Model(graph, ir_version=10, functions=funcs)
        return self.cut("serialize_model", ir.serde.serialize_model, model)


# =====================================================================================================================
# part (a): program generator (by concrete execution)
# =====================================================================================================================
# opsets of a trace: mostly the current ones; older ones (operator signatures and type variables differ: Pow, ReduceSum, Squeeze, Split, Clip ...)
# often enough that one worker process builds the same operator under several opsets, older and newer in both orders
OPSETS = [18, 19, 20, 21, 21, 22, 23, 15, 17]
F_POOL = [-3.0, -2.0, -1.5, -1.0, -0.5, 0.0, 0.25, 0.5, 1.0, 1.5, 2.0, 3.0, 4.0]
I_POOL = [-3, -2, -1, 0, 1, 2, 3, 4, 5]
SHAPES = [(), (1,), (2,), (3,), (4,), (2, 3), (3, 2), (1, 3), (2, 2), (3, 1), (2, 1, 3), (2, 3, 2), (1, 2, 2), (5,), (2, 5)]
UNARY_F = ["Relu", "Sigmoid", "Tanh", "Abs", "Neg", "Exp", "Sqrt", "Floor", "Ceil", "Erf", "Sign", "Reciprocal", "Identity", "Sin", "Cos",
           "Softsign", "Round", "Selu"]
UNARY_I = ["Abs", "Neg", "Identity", "Sign"]
UNARY_ATTR = {"LeakyRelu": {"alpha": [0.1, 0.5, 0.25]}, "Elu": {"alpha": [0.5, 2.0]}, "HardSigmoid": {"alpha": [0.5, 0.25], "beta": [0.25, 0.5]},
              "ThresholdedRelu": {"alpha": [0.5, 1.5]}, "Celu": {"alpha": [0.5, 2.0]}}
BINARY_F = ["Add", "Sub", "Mul", "Div", "Add", "Mul", "Pow", "PRelu"]
BINARY_I = ["Add", "Sub", "Mul"]
PYOP = {"Add": "+", "Sub": "-", "Mul": "*", "Div": "/"}
COMPARE = ["Less", "Greater", "Equal", "LessOrEqual", "GreaterOrEqual"]
# Ops whose float result may differ by rounding between onnxruntime and numpy.  Values derived from them ("inexact") are never fed
# to a discontinuous op (comparison, Floor/Ceil/Round/Sign, Cast to int/bool, ArgMax/TopK, conditions): a 1-ulp difference would
# flip the result and look like a builder defect.
INEXACT_OPS = {"Sigmoid", "Tanh", "Exp", "Sqrt", "Erf", "Reciprocal", "Sin", "Cos", "Softsign", "Selu", "Elu", "HardSigmoid", "Celu", "Softmax", "LogSoftmax",
               "Div", "Pow", "Mean", "ReduceMean", "ReduceSum", "MatMul", "Gemm", "CumSum", "Gelu", "QuickGelu", "LeakyRelu", "PRelu", "Sum"}
STEP_UNARY = ["Floor", "Ceil", "Sign", "Round"]


class TraceGen:
    def __init__(self, draw, exclude, note):
        self.draw, self.ex, self.note = draw, set(exclude), note
        self.nid = 0
        self.uid = 0
        self.opset = draw(st.sampled_from([int(x) for x in os.environ["VERIF_C18_OPSETS"].split(",")] if os.environ.get("VERIF_C18_OPSETS") else OPSETS))
        self.prog = {"opset": self.opset, "inputs": [], "funcs": [], "steps": [], "outputs": [], "out_via": draw(st.sampled_from(["add_output", "add_output", "append"]))}
        self.interp = Interp(self.prog)
        self.env = {}
        self.cur = self.prog["steps"]
        self.feat = set()
        self.depth = 0
        self.fmode = None          # function-body mode: dict(attrs=[...], values={}, kind=...)
        self.local = None          # ids produced inside the current body (bodies return values produced inside)
        self.dropped = 0
        self.scopes = 0
        self.inexact = set()

    # ---- small helpers
    def d(self, strat):
        return self.draw(strat)

    def chance(self, num, den=10):
        return self.d(st.integers(0, den - 1)) < num

    def fresh(self):
        self.nid += 1
        return self.nid

    def uname(self, p):
        self.uid += 1
        return f"{p}{self.uid}"

    def region(self, name):
        """True if the generator may enter the named region; counts the redirect otherwise."""
        if name in self.ex:
            self.note(name)
            return False
        return True

    def cands(self, pred, exact=False):
        return [i for i, a in self.env.items() if np.asarray(a).size > 0 and pred(np.asarray(a)) and not (exact and i in self.inexact)]   # zero-size values are never operands

    def pick(self, pred, exact=False):
        c = self.cands(pred, exact)
        if not c:
            return None
        c.sort()
        k = self.d(st.integers(0, min(len(c), 6) - 1)) if self.chance(7) else self.d(st.integers(0, len(c) - 1))
        return c[-1 - k] if k < len(c) else c[0]

    @staticmethod
    def is_f(a):
        return a.dtype in (np.float32, np.float64)

    @staticmethod
    def is_f32(a):
        return a.dtype == np.float32

    @staticmethod
    def is_num(a):
        return a.dtype in (np.float32, np.float64, np.int64, np.int32)

    def like(self, a, exact=False):
        """A different visible value with the same dtype and a broadcast-compatible simple shape."""
        a = np.asarray(a)
        return self.pick(lambda b: b.dtype == a.dtype and (b.shape == a.shape or b.shape == () or (a.ndim >= 1 and b.shape == a.shape[-1:])), exact)

    # ---- literals
    def scalar_lit(self, kind):
        if kind == "b":
            self.feat.add("lit:bool")
            return self.d(st.booleans())
        if kind == "i":
            if not self.fmode and self.chance(1, 12):
                self.feat.add("lit:bool-for-int")
                return self.d(st.booleans())
            self.feat.add("lit:int")
            return self.d(st.sampled_from(I_POOL))
        r = self.d(st.integers(0, 19))
        if self.fmode:
            r %= 15      # function bodies (script source text): finite int/float literals only
        if r < 9:
            self.feat.add("lit:float")
            return self.d(st.sampled_from([0.0, 1.0, -1.0, 0.5, 2.0, -2.5, 3.0, 0.25, 8.0, 0.125, 0.1]))
        if r < 15:
            self.feat.add("lit:int-for-float")
            return self.d(st.sampled_from([0, 1, 2, -1, 3]))
        if r == 15:
            self.feat.add("lit:bool-for-float")
            return True
        if r == 16:
            self.feat.add("lit:inf")
            return self.d(st.sampled_from(["inf", "-inf"]))
        if r == 17 and self.region("nan_literal"):
            self.feat.add("lit:nan")
            return "nan"
        if r == 18 and self.region("negzero_literal"):
            self.feat.add("lit:-0.0")
            return "-0.0"
        self.feat.add("lit:float")
        return 1.5

    def literal(self, kind, n=None):
        """Operand dict for a Python literal: a scalar, or a list/tuple of n homogeneous scalars."""
        if not n or self.chance(6):          # (an empty list is not a "list of homogeneous scalars")
            return {"lit": self.scalar_lit(kind)}
        if kind == "b":
            vals = [self.d(st.booleans()) for _ in range(n)]
        elif kind == "i" or self.chance(3):
            vals = [self.d(st.sampled_from(I_POOL)) for _ in range(n)]
            self.feat.add("lit:list-int" + ("" if kind == "i" else "-for-float"))
        else:
            vals = [self.d(st.sampled_from([0.0, 1.0, -1.0, 0.5, 2.0, -2.5, 0.25])) for _ in range(n)]
            self.feat.add("lit:list-float")
        o = {"lit": vals}
        if n >= 5:
            self.feat.add("lit:list-long")
        if self.chance(3):
            o["tuple"] = True
            self.feat.add("lit:tuple")
        return o

    def int_list(self, vals):
        o = {"lit": [int(v) for v in vals]}
        self.feat.add("lit:list-int")
        if self.chance(3):
            o["tuple"] = True
            self.feat.add("lit:tuple")
        return o

    @staticmethod
    def kind_of(a):
        a = np.asarray(a)
        return "b" if a.dtype == np.bool_ else "i" if a.dtype.kind == "i" else "f"

    # ---- emitting
    def emit(self, s):
        if s.get("k") == "op" and not s.get("dom") and self.opset < 18:
            # old-opset traces: only operators that exist at that opset; Softmax-family semantics before opset 13 (2-D coercion) are
            # not what the replay kernels implement
            try:
                sch = onnx.defs.get_schema(s["op"], self.opset, "")
            except Exception:  # noqa: BLE001
                self.dropped += 1
                return False
            if sch.deprecated or (self.opset < 13 and s["op"] in ("Softmax", "LogSoftmax", "Hardmax")):
                self.dropped += 1
                return False
        try:
            self.interp.step(s, self.env, self.fmode["values"] if self.fmode else None)
        except ReplayError:
            self.dropped += 1
            return False
        except Exception:  # noqa: BLE001  (numpy overflow etc. inside a kernel)
            self.dropped += 1
            return False
        outs = s.get("outs", [s["out"]] if "out" in s else [])
        for i in outs:
            a = np.asarray(self.env[i])
            if a.size > 400 or a.dtype not in NAME_OF or a.ndim > 4:
                for j in outs:
                    self.env.pop(j, None)
                self.dropped += 1
                return False
        if s["k"] != "op" or s["op"] in INEXACT_OPS or any("v" in o and o["v"] in self.inexact for o in list(s.get("ins", [])) + list((s.get("kwins") or {}).values())):
            if s["k"] != "init":
                self.inexact.update(outs)
        self.cur.append(s)
        if self.local is not None and s["k"] != "init":   # initializers live in the root graph: not "produced inside" a body
            self.local.extend(outs)
        return True

    def op_step(self, op, ins, attrs=None, nout=1, kwins=None, dom="", decorate=True):
        s = {"k": "op", "op": op, "ins": ins, "outs": [self.fresh() for _ in range(nout)]}
        if attrs:
            s["attrs"] = attrs
        if kwins:
            s["kwins"] = kwins
        if dom:
            s["dom"] = dom
        if self.fmode:
            self.func_attr_refs(s)
            return s
        if not decorate:
            return s
        r = self.d(st.integers(0, 19))
        if nout == 1:
            if r < 3:
                s["omode"], s["onames"] = "names", [self.uname("o")]
            elif r < 5:
                s["omode"], s["onames"] = "values", [self.uname("o")]
            elif r == 5:
                s["omode"] = "int"
        else:
            if r < 5:
                s["omode"], s["onames"] = "names", [self.uname("o") for _ in range(nout)]
            elif r < 8:
                s["omode"], s["onames"] = "values", [self.uname("o") for _ in range(nout)]
        if "omode" in s:
            self.feat.add("outputs:" + s["omode"])
        if dom:
            s["via"] = self.d(st.sampled_from(["domkw", "opset"]))
        else:
            v = self.d(st.integers(0, 19))
            if v < 3:
                s["via"] = ["verkw", "domkw", "opset"][v]
        if "via" in s:
            self.feat.add("via:" + s["via"])
        return s

    def add(self, op, ins, attrs=None, nout=1, kwins=None, dom="", decorate=True):
        s = self.op_step(op, ins, attrs, nout, kwins, dom, decorate)
        if self.emit(s):
            self.feat.add("op:" + op)
            return s["outs"]
        return None

    def func_attr_refs(self, s):
        """Inside a function body: turn a concrete attribute into a reference to a function attribute parameter."""
        fm = self.fmode
        for k, v in list((s.get("attrs") or {}).items()):
            if isinstance(v, bool) or not isinstance(v, (int, float)) or not self.chance(6):
                continue
            t = "f" if isinstance(v, float) else "i"
            same = [a for a in fm["attrs"] if a["type"] == t and fm["values"][a["name"]] == v]
            if same:
                s["attrs"][k] = {"ref": same[0]["name"]}
            elif len(fm["attrs"]) < 2:
                name = f"{'alpha' if t == 'f' else 'axis'}{len(fm['attrs'])}"
                dflt = self.d(st.sampled_from([None, "same", "other"] if t == "f" else [None, "same"]))   # another int (axis/keepdims) may be invalid
                default = None if dflt is None else v if dflt == "same" else (v + 1 if t == "i" else float(np.float32(v * 0.5 + 0.125)))
                fm["attrs"].append({"name": name, "type": t, "default": default})
                fm["values"][name] = v
                s["attrs"][k] = {"ref": name}

    # ---- op handlers: each returns True when it emitted something
    def g_unary(self):
        if self.chance(8):
            x = self.pick(self.is_f)
            ops = UNARY_F
            if x is not None and np.asarray(self.env[x]).dtype == np.float64:
                ops = ["Abs", "Neg", "Identity", "Floor", "Ceil", "Sqrt", "Exp", "Relu", "Reciprocal"]   # kernels onnxruntime has for double
        else:
            x = self.pick(lambda a: a.dtype == np.int64)
            ops = UNARY_I
        if x is None:
            return False
        if self.fmode or x in self.inexact:
            ops = [o for o in ops if o not in STEP_UNARY]
        if not self.fmode and self.chance(1, 15):   # a literal as the only operand: default dtype
            lit = self.literal("f" if self.chance(5) else "i", self.d(st.sampled_from([None, 2, 3])))
            flat = lit["lit"] if isinstance(lit["lit"], list) else [lit["lit"]]
            if any(isinstance(v, bool) for v in flat):
                return False      # Abs/Neg are not defined on bool tensors
            return bool(self.add(self.d(st.sampled_from(["Abs", "Neg", "Identity"])), [lit]))
        return bool(self.add(self.d(st.sampled_from(ops)), [{"v": x}]))

    def g_unary_attr(self):
        x = self.pick(self.is_f32)
        if x is None:
            return False
        op = self.d(st.sampled_from(sorted(UNARY_ATTR)))
        attrs = {k: self.d(st.sampled_from(v)) for k, v in UNARY_ATTR[op].items() if self.chance(8)}
        s = self.op_step(op, [{"v": x}], attrs)
        if not self.fmode and len(attrs) == 1 and op in ("LeakyRelu", "Elu", "ThresholdedRelu", "Celu") and self.chance(2):
            s["posattr"] = True
            self.feat.add("attr:positional")
        return self.emit(s) and (self.feat.add("op:" + op) or True)

    def g_softmax(self):
        x = self.pick(lambda a: a.dtype == np.float32 and a.ndim >= 1)
        if x is None:
            return False
        nd = np.asarray(self.env[x]).ndim
        attrs = {"axis": self.d(st.integers(-nd, nd - 1))} if self.chance(7) else {}
        s = self.op_step(self.d(st.sampled_from(["Softmax", "LogSoftmax"])), [{"v": x}], attrs)
        if attrs and not self.fmode and self.chance(2):
            s["posattr"] = True
            self.feat.add("attr:positional")
        return self.emit(s) and (self.feat.add("op:Softmax") or True)

    def g_binary(self):
        x = self.pick(lambda a: self.is_num(a) and a.dtype != np.int32)
        if x is None:
            return False
        a = np.asarray(self.env[x])
        kind = self.kind_of(a)
        op = self.d(st.sampled_from(BINARY_F if kind == "f" else BINARY_I))
        if a.dtype == np.float64 and op in ("PRelu", "Pow"):
            op = "Mul"
        r = self.d(st.integers(0, 9))
        y = self.like(a) if r < 4 else None
        if y is not None:
            other = {"v": y}
        elif op == "Pow":
            other = {"lit": self.d(st.sampled_from([2.0, 0.5, 1.0, 3.0]))}   # exponent has its own type variable: float literal -> FLOAT
            self.feat.add("lit:float")
        else:
            # (PRelu broadcasts its slope one way only: inside a function body, which may be called with operands of another shape, a list
            #  literal sized for the shape seen while generating can become an illegal slope - scalar literals there)
            other = self.literal(kind, a.shape[-1] if a.ndim and not (op == "PRelu" and self.fmode) else None)
        ins = [{"v": x}, other]
        if op != "PRelu" and op != "Pow" and self.chance(4):
            ins.reverse()
            if "lit" in ins[0]:
                self.feat.add("lit:first-operand")
        s = self.op_step(op, ins)
        if self.fmode and self.fmode["kind"] != "built" and op in PYOP and self.chance(5) and "lit" in other and not isinstance(other["lit"], list) and "v" in ins[0]:
            s["pyop"] = PYOP[op]
        return self.emit(s) and (self.feat.add("op:" + op) or True)

    def g_variadic(self):
        x = self.pick(self.is_f32)
        if x is None:
            return False
        a = np.asarray(self.env[x])
        op = self.d(st.sampled_from(["Min", "Max", "Sum", "Mean", "Max", "Min"]))
        ins = [{"v": x}]
        lit_ok = not self.fmode or self.fmode["kind"] == "built"
        for _ in range(self.d(st.integers(0, 2))):
            y = self.like(a) if (self.chance(5) or not lit_ok) else None
            if y is None and not lit_ok:
                continue
            ins.append({"v": y} if y is not None else self.literal("f", a.shape[-1] if a.ndim else None))
        if self.chance(3):
            ins.reverse()
        return bool(self.add(op, ins))

    def g_compare(self):
        x = self.pick(lambda a: a.dtype in (np.float32, np.int64), exact=True)
        if x is None:
            return False
        a = np.asarray(self.env[x])
        y = self.like(a, exact=True) if self.chance(4) else None
        other = {"v": y} if y is not None else self.literal(self.kind_of(a), a.shape[-1] if a.ndim else None)
        ins = [{"v": x}, other]
        if self.chance(3):
            ins.reverse()
        return bool(self.add(self.d(st.sampled_from(COMPARE)), ins))

    def g_logic(self):
        x = self.pick(lambda a: a.dtype == np.bool_)
        if x is None:
            return False
        a = np.asarray(self.env[x])
        if self.chance(3):
            return bool(self.add("Not", [{"v": x}]))
        y = self.like(a) if self.chance(5) else None
        other = {"v": y} if y is not None else self.literal("b", a.shape[-1] if a.ndim else None)
        return bool(self.add(self.d(st.sampled_from(["And", "Or", "Xor"])), [{"v": x}, other]))

    def g_where(self):
        x = self.pick(lambda a: a.dtype in (np.float32, np.int64))
        if x is None:
            return False
        a = np.asarray(self.env[x])
        c = self.pick(lambda b: b.dtype == np.bool_ and (b.shape == a.shape or b.shape == ()), exact=True)
        cond = {"v": c} if c is not None and self.chance(8) else self.literal("b", a.shape[-1] if a.ndim else None)
        y = self.like(a) if self.chance(4) else None
        other = {"v": y} if y is not None else self.literal(self.kind_of(a), a.shape[-1] if a.ndim else None)
        ins = [cond, {"v": x}, other] if self.chance(6) else [cond, other, {"v": x}]
        return bool(self.add("Where", ins))

    def g_clip(self):
        x = self.pick(lambda a: a.dtype in (np.float32, np.int64))
        if x is None:
            return False
        k = self.kind_of(self.env[x])
        lo, hi = ({"lit": -1}, {"lit": 2}) if k == "i" else ({"lit": self.d(st.sampled_from([-1.0, 0.0, -1, 0, 0.5]))}, {"lit": self.d(st.sampled_from([2.0, 1, 6, 1.5]))})
        self.feat.add("lit:int" if k == "i" else "lit:float")
        form = self.d(st.integers(0, 5))
        if form == 0:
            return bool(self.add("Clip", [{"v": x}, lo, hi]))
        if form == 1:
            self.feat.add("operand:None")
            return bool(self.add("Clip", [{"v": x}, {"none": 1}, hi]))
        if form == 2:
            return bool(self.add("Clip", [{"v": x}, lo]))
        if form == 3:
            self.feat.add("inputs:keyword")
            return bool(self.add("Clip", [{"v": x}], kwins={"min": lo, "max": hi}))
        if form == 4:
            self.feat.add("inputs:keyword")
            return bool(self.add("Clip", [{"v": x}], kwins={"min": lo}))
        if self.region("kw_input_after_gap"):
            self.feat.add("inputs:keyword-after-gap")
            return bool(self.add("Clip", [{"v": x}], kwins={"max": hi}))
        self.feat.add("operand:None")
        return bool(self.add("Clip", [{"v": x}, {"none": 1}, hi]))

    def g_cast(self):
        x = self.pick(lambda a: True, exact=True)
        if x is None:
            return False
        a = np.asarray(self.env[x])
        if a.dtype.kind == "f" and not np.all(np.isfinite(a)):
            return False
        if self.chance(7):
            to = self.d(st.sampled_from(["FLOAT", "FLOAT", "INT64", "DOUBLE", "INT32", "BOOL"]))
            if a.dtype.kind == "f" and to in ("INT64", "INT32") and (np.abs(a).max(initial=0) > 1e6 or not np.array_equal(a, np.trunc(a))):
                to = "DOUBLE"      # float->int of fractions / huge values differs between runtimes
            return bool(self.add("Cast", [{"v": x}], {"to": ENUM[to]}))
        y = self.pick(lambda b: b.dtype in (np.float32, np.float64, np.int64) and b.dtype != a.dtype)
        if a.dtype.kind == "f" and not np.array_equal(a, np.trunc(a)):
            tgt = self.literal("f") if y is None or np.asarray(self.env[y]).dtype.kind != "f" else {"v": y}
        else:
            tgt = {"v": y} if y is not None and self.chance(6) else self.literal(self.d(st.sampled_from(["f", "i"])))
        if "lit" in tgt and isinstance(tgt["lit"], str):
            tgt = {"lit": 1.0}
        return bool(self.add("CastLike", [{"v": x}, tgt]))

    def g_reshape(self):
        x = self.pick(lambda a: a.size >= 1 and a.ndim >= 1)
        if x is None:
            return False
        a = np.asarray(self.env[x])
        n = a.size
        divs = [k for k in (1, 2, 3, 4, 5, 6) if n % k == 0]
        k = self.d(st.sampled_from(divs))
        shape = self.d(st.sampled_from([[k, -1], [-1, k], [n], [-1], [1, n], [0, -1], [k, n // k]]))
        attrs = {"allowzero": 0} if self.chance(1) else {}
        return bool(self.add("Reshape", [{"v": x}, self.int_list(shape)], attrs))

    def g_transpose(self):
        x = self.pick(lambda a: a.ndim >= 2)
        if x is None:
            return False
        nd = np.asarray(self.env[x]).ndim
        perm = self.d(st.permutations(list(range(nd))))
        if self.chance(2):
            return bool(self.add("Transpose", [{"v": x}]))
        s = self.op_step("Transpose", [{"v": x}], {"perm": list(perm)})
        if not self.fmode and self.chance(3):
            s["posattr"] = True
            self.feat.add("attr:positional")
        return self.emit(s) and (self.feat.add("op:Transpose") or True)

    def g_unsqueeze(self):
        x = self.pick(lambda a: a.ndim <= 2)
        if x is None:
            return False
        a = np.asarray(self.env[x])
        if self.chance(6) or 1 not in a.shape:
            ax = self.d(st.integers(-(a.ndim + 1), a.ndim))
            return bool(self.add("Unsqueeze", [{"v": x}, self.int_list([ax])]))
        ax = [i for i, d_ in enumerate(a.shape) if d_ == 1][0]
        if self.chance(3):
            return bool(self.add("Squeeze", [{"v": x}]))
        return bool(self.add("Squeeze", [{"v": x}, self.int_list([ax])]))

    def g_concat(self):
        x = self.pick(lambda a: a.ndim >= 1)
        if x is None:
            return False
        a = np.asarray(self.env[x])
        ax = self.d(st.integers(-a.ndim, a.ndim - 1))
        ins = [{"v": x}]
        for _ in range(self.d(st.integers(1, 2))):
            y = self.pick(lambda b: b.dtype == a.dtype and b.ndim == a.ndim and all(p == q or i == ax % a.ndim for i, (p, q) in enumerate(zip(a.shape, b.shape))))
            if y is not None and self.chance(7):
                ins.append({"v": y})
            elif a.ndim == 1 and a.dtype in (np.float32, np.int64) and not self.fmode:
                o = self.literal(self.kind_of(a), self.d(st.integers(1, 3)))
                if not isinstance(o["lit"], list):
                    o = {"lit": [o["lit"]]} if not isinstance(o["lit"], str) else {"lit": [1.0]}
                ins.append(o)
        if len(ins) == 1 and self.chance(7):
            ins.append({"v": x})
        return bool(self.add("Concat", ins, {"axis": ax}))

    def g_split(self):
        x = self.pick(lambda a: a.ndim >= 1 and max(a.shape) >= 2)
        if x is None:
            return False
        a = np.asarray(self.env[x])
        ax = max(range(a.ndim), key=lambda i: a.shape[i])
        n = a.shape[ax]
        if self.chance(5):
            k = self.d(st.sampled_from([k for k in (2, 3) if k <= n]))
            if n % k and n - (k - 1) * -(-n // k) <= 0:
                return False      # uneven split with an empty last chunk: runtimes disagree
            return bool(self.add("Split", [{"v": x}], {"num_outputs": k, "axis": ax}, nout=k))
        c = self.d(st.integers(1, n - 1))
        return bool(self.add("Split", [{"v": x}, self.int_list([c, n - c])], {"axis": ax} if ax or self.chance(5) else {}, nout=2))

    def g_slice(self):
        x = self.pick(lambda a: a.ndim >= 1 and a.size >= 2)
        if x is None:
            return False
        a = np.asarray(self.env[x])
        ax = self.d(st.integers(0, a.ndim - 1))
        n = a.shape[ax]
        st_ = self.d(st.integers(-n, n - 1)) if n else 0
        en = self.d(st.sampled_from([n, n - 1, 100, -1, st_ + 1]))
        parts = {"starts": self.int_list([st_]), "ends": self.int_list([en]), "axes": self.int_list([ax])}
        if self.chance(3):
            parts["steps"] = self.int_list([self.d(st.sampled_from([1, 2, -1]))])
        order = ["starts", "ends", "axes", "steps"]
        form = self.d(st.integers(0, 3))
        if form == 0 or self.fmode:
            return bool(self.add("Slice", [{"v": x}] + [parts[k] for k in order if k in parts]))
        self.feat.add("inputs:keyword")
        if form == 1:
            keys = self.d(st.permutations([k for k in order if k in parts]))
            return bool(self.add("Slice", [{"v": x}], kwins={k: parts[k] for k in keys}))
        if form == 2:
            return bool(self.add("Slice", [{"v": x}, parts["starts"], parts["ends"]], kwins={k: parts[k] for k in order[2:] if k in parts}))
        if "steps" in parts and self.region("kw_input_after_gap") and ax == 0:
            self.feat.add("inputs:keyword-after-gap")
            return bool(self.add("Slice", [{"v": x}, parts["starts"], parts["ends"]], kwins={"steps": parts["steps"]}))
        return bool(self.add("Slice", [{"v": x}], kwins={k: parts[k] for k in order if k in parts}))

    def g_gather(self):
        x = self.pick(lambda a: a.ndim >= 1)
        if x is None:
            return False
        a = np.asarray(self.env[x])
        ax = self.d(st.integers(0, a.ndim - 1))
        n = a.shape[ax]
        idx = {"lit": self.d(st.integers(-n, n - 1))} if self.chance(5) else self.int_list([self.d(st.integers(0, n - 1)) for _ in range(self.d(st.integers(1, 3)))])
        self.feat.add("lit:int")
        return bool(self.add("Gather", [{"v": x}, idx], {"axis": ax} if ax or self.chance(5) else {}))

    def g_expand_tile(self):
        x = self.pick(lambda a: a.size <= 12)
        if x is None:
            return False
        a = np.asarray(self.env[x])
        if self.chance(5):
            shape = [self.d(st.sampled_from([1, 2])), *[d_ if d_ != 1 or self.chance(5) else 2 for d_ in a.shape]]
            return bool(self.add("Expand", [{"v": x}, self.int_list(shape)]))
        if a.ndim == 0:
            return False
        return bool(self.add("Tile", [{"v": x}, self.int_list([self.d(st.sampled_from([1, 2])) for _ in range(a.ndim)])]))

    def g_shape_ops(self):
        x = self.pick(lambda a: True)
        if x is None:
            return False
        a = np.asarray(self.env[x])
        r = self.d(st.integers(0, 3))
        if r == 0:
            attrs = {"start": self.d(st.integers(0, a.ndim))} if a.ndim and self.chance(3) else {}
            return bool(self.add("Shape", [{"v": x}], attrs))
        if r == 1:
            return bool(self.add("Size", [{"v": x}]))
        if r == 2 and a.ndim >= 1:
            s = self.op_step("Flatten", [{"v": x}], {"axis": self.d(st.integers(0, a.ndim))})
            if not self.fmode and self.chance(3):
                s["posattr"] = True
                self.feat.add("attr:positional")
            return self.emit(s) and (self.feat.add("op:Flatten") or True)
        if a.dtype == np.float32 and a.ndim >= 1 and x not in self.inexact and np.all(np.isfinite(a)):
            return bool(self.add("ArgMax", [{"v": x}], {"axis": self.d(st.integers(0, a.ndim - 1)), "keepdims": self.d(st.integers(0, 1))}))
        return False

    def g_reduce(self):
        x = self.pick(lambda a: a.dtype in (np.float32, np.int64) and a.ndim >= 1 and a.size >= 1)
        if x is None:
            return False
        a = np.asarray(self.env[x])
        op = self.d(st.sampled_from(["ReduceSum", "ReduceSum", "ReduceMax", "ReduceMean", "ReduceMin"]))
        if a.dtype == np.int64 and op == "ReduceMean":
            op = "ReduceSum"
        attrs = {"keepdims": self.d(st.integers(0, 1))} if self.chance(7) else {}
        if self.chance(3):
            return bool(self.add(op, [{"v": x}], attrs))
        axes = sorted(set(self.d(st.lists(st.integers(-a.ndim, a.ndim - 1), min_size=1, max_size=2))))
        if len({ax % a.ndim for ax in axes}) != len(axes):
            axes = axes[:1]
        if self.chance(2) and not self.fmode:
            self.feat.add("inputs:keyword")
            return bool(self.add(op, [{"v": x}], attrs, kwins={"axes": self.int_list(axes)}))
        return bool(self.add(op, [{"v": x}, self.int_list(axes)], attrs))

    def g_cumsum_topk(self):
        x = self.pick(lambda a: a.dtype == np.float32 and a.ndim >= 1 and a.shape[-1] >= 1)
        if x is None:
            return False
        a = np.asarray(self.env[x])
        if self.chance(5):
            self.feat.add("lit:int")
            attrs = {k: 1 for k in ("exclusive", "reverse") if self.chance(2)}
            return bool(self.add("CumSum", [{"v": x}, {"lit": self.d(st.integers(-a.ndim, a.ndim - 1))}], attrs))
        if x in self.inexact or len(set(a.reshape(-1, a.shape[-1])[0].tolist())) != a.shape[-1] or not np.all(np.isfinite(a)):
            return False     # ties make the index output implementation-defined
        for row in a.reshape(-1, a.shape[-1]):
            if len(set(row.tolist())) != len(row):
                return False
        k = self.d(st.integers(1, a.shape[-1]))
        return bool(self.add("TopK", [{"v": x}, self.int_list([k])], {"largest": 0} if self.chance(3) else {}, nout=2))

    def g_matmul(self):
        x = self.pick(lambda a: a.dtype == np.float32 and a.ndim == 2)
        if x is None:
            return False
        a = np.asarray(self.env[x])
        if not np.all(np.isfinite(a)) or np.abs(a).max(initial=0) > 1e4:
            return False
        y = self.pick(lambda b: b.dtype == np.float32 and b.ndim == 2 and b.shape[0] == a.shape[1] and np.all(np.isfinite(b)) and np.abs(b).max(initial=0) < 1e4)
        if y is not None and self.chance(5):
            return bool(self.add("MatMul", [{"v": x}, {"v": y}]))
        t = self.add("Transpose", [{"v": x}], decorate=False)
        if not t:
            return False
        r = self.d(st.integers(0, 3))
        attrs = {k: v for k, v in (("alpha", 0.5), ("beta", 2.0)) if self.chance(4)}
        if r == 0:
            return bool(self.add("Gemm", [{"v": x}, {"v": t[0]}], attrs))
        if r == 1:
            self.feat.add("operand:None")
            return bool(self.add("Gemm", [{"v": x}, {"v": t[0]}, {"none": 1}], attrs))
        if r == 2:
            return bool(self.add("Gemm", [{"v": x}, {"v": t[0]}, self.literal("f", a.shape[0])], attrs))
        return bool(self.add("Gemm", [{"v": x}, {"v": x}, self.literal("f")], dict(attrs, transB=1)))

    def g_creation(self):
        r = self.d(st.integers(0, 4))
        if r == 0:
            self.feat.add("lit:all-operands")
            if self.chance(6):
                self.feat.add("lit:int")
                return bool(self.add("Range", [{"lit": self.d(st.integers(0, 2))}, {"lit": self.d(st.integers(3, 5))}, {"lit": self.d(st.sampled_from([1, 2]))}]))
            self.feat.add("lit:float")
            return bool(self.add("Range", [{"lit": 0.0}, {"lit": self.d(st.sampled_from([2.0, 3.0]))}, {"lit": self.d(st.sampled_from([1.0, 0.5]))}]))
        if r == 1:
            shape = self.d(st.sampled_from([[2], [3], [2, 2], [1, 3]]))
            attrs = {}
            if self.chance(7):
                v = self.d(st.sampled_from([np.array([1.5], np.float32), np.array([2], np.int64), np.array([True]), np.array([-1.0], np.float32)]))
                attrs = {"value": {"tensor": optcommon.arr_to_json(v)}}
            return bool(self.add("ConstantOfShape", [self.int_list(shape)], attrs))
        if r == 2:
            k = self.d(st.integers(0, 4))
            attrs = [{"value_float": self.d(st.sampled_from([1.5, -0.5, 2.0]))}, {"value_int": self.d(st.sampled_from([2, -1, 0]))}, {"value_ints": [1, 2, 3][: self.d(st.integers(1, 3))]},
                     {"value_floats": [0.5, 1.0, -2.0][: self.d(st.integers(1, 3))]},
                     {"value": {"tensor": optcommon.arr_to_json(np.array([[1.0, 2.0], [3.0, 4.0]], np.float32))}}][k]
            return bool(self.add("Constant", [], attrs))
        x = self.pick(lambda a: a.dtype == np.float32 and a.ndim == 2)
        if x is None:
            return False
        if r == 3:
            if self.chance(5):
                return bool(self.add("Trilu", [{"v": x}], {"upper": self.d(st.integers(0, 1))}))
            self.feat.add("lit:int")
            return bool(self.add("Trilu", [{"v": x}, {"lit": self.d(st.integers(-1, 1))}], {"upper": self.d(st.integers(0, 1))} if self.chance(5) else {}))
        pads = [self.d(st.integers(0, 1)) for _ in range(4)]
        ins = [{"v": x}, self.int_list(pads)]
        if self.chance(6):
            ins.append({"lit": self.d(st.sampled_from([0.5, 1, -1.0, 0]))})
            self.feat.add("lit:float")
        return bool(self.add("Pad", ins, {"mode": "constant"} if self.chance(3) else {}))

    def g_gelu(self):
        x = self.pick(self.is_f32)
        if x is None or self.fmode:
            return False
        if self.opset >= 20 and self.chance(4):
            return bool(self.add("Gelu", [{"v": x}], {"approximate": "none"} if self.chance(5) else {}))
        self.feat.add("domain:com.microsoft")
        if self.chance(7):
            return bool(self.add("Gelu", [{"v": x}], dom="com.microsoft"))
        return bool(self.add("QuickGelu", [{"v": x}], {"alpha": 1.5} if self.chance(5) else {}, dom="com.microsoft"))

    def g_tensor_operand(self):
        """explicit initializer / ir.tensor operand"""
        x = self.pick(lambda a: a.dtype in (np.float32, np.int64) and a.ndim >= 1)
        if x is None or self.fmode:
            return False
        a = np.asarray(self.env[x])
        w = (np.arange(a.shape[-1]) + 1).astype(a.dtype) * (0.5 if a.dtype == np.float32 else 1)
        w = w.astype(a.dtype)
        r = self.d(st.integers(0, 5))
        if r < 3:
            i = self.fresh()
            s = {"k": "init", "out": i, "arr": optcommon.arr_to_json(w), "name": self.uname("w"), "via": ["builder", "op", "rename"][r]}
            if not self.emit(s):
                return False
            self.feat.add("initializer:" + s["via"])
            return bool(self.add(self.d(st.sampled_from(["Add", "Mul", "Sub"])), [{"v": x}, {"v": i}]))
        if r < 5 or not self.region("unnamed_tensor_operand"):
            self.feat.add("operand:ir.tensor")
            return bool(self.add(self.d(st.sampled_from(["Add", "Mul"])), [{"v": x}, {"tensor": optcommon.arr_to_json(w), "name": self.uname("t")}]))
        self.feat.add("operand:unnamed-tensor")
        o = {"tensor": optcommon.arr_to_json(w), "name": None}
        if self.chance(5):
            o["as"] = "numpy"
        return bool(self.add("Add", [{"v": x}, o]))

    def g_scope(self):
        if self.fmode:
            return False
        if self.scopes and self.chance(6):
            self.scopes -= 1
            self.cur.append({"k": "pop"})
            return True
        if self.scopes < 2:
            self.scopes += 1
            self.cur.append({"k": "push", "name": self.d(st.sampled_from(["layer1", "attn", "layers.0", "blk"])), "cls": self.d(st.sampled_from(["", "Block", "Attention"]))})
            self.feat.add("scope:push_module")
            return True
        return False

    def close_scopes(self):
        while self.scopes:
            self.scopes -= 1
            self.cur.append({"k": "pop"})

    SIMPLE = ["g_unary", "g_unary_attr", "g_binary", "g_binary", "g_binary", "g_variadic", "g_compare", "g_logic", "g_where", "g_clip", "g_cast", "g_reshape",
              "g_transpose", "g_unsqueeze", "g_concat", "g_split", "g_slice", "g_gather", "g_expand_tile", "g_shape_ops", "g_reduce", "g_cumsum_topk",
              "g_matmul", "g_creation", "g_gelu", "g_tensor_operand", "g_softmax", "g_scope"]
    FUNC = ["g_unary", "g_unary_attr", "g_unary_attr", "g_binary", "g_binary", "g_variadic", "g_softmax", "g_reduce", "g_concat", "g_transpose"]
    SHAPE_KEEP = ["g_unary", "g_unary_attr", "g_binary", "g_binary"]

    def grow(self, n, table=None):
        done = 0
        tries = 0
        while done < n and tries < 4 * n + 4:
            tries += 1
            h = self.d(st.sampled_from(table or self.SIMPLE))
            if getattr(self, h)():
                done += 1
        return done

    # ---- bodies / control flow
    def body_begin(self, params):
        """Open a body scope.  params: list of arrays -> fresh ids visible inside."""
        saved = (self.env, self.cur, self.local, self.scopes)
        self.env = dict(self.env)
        self.cur = []
        self.local = []
        self.scopes = 0
        ids = []
        for a in params:
            i = self.fresh()
            self.env[i] = a
            ids.append(i)
        self.depth += 1
        return saved, ids

    def body_end(self, saved, ids, rets, kind):
        self.close_scopes()
        steps = self.cur
        self.env, self.cur, self.local, self.scopes = saved
        self.depth -= 1
        n = self.uname("")
        body = {"params": ids, "steps": steps, "ret": rets, "name": f"{kind}_{n}", "pnames": [f"{kind}{n}_in{k}" for k in range(len(ids))],
                "onames": [f"{kind}{n}_out{k}" for k in range(len(rets))], "auto_scope": f"sg{n}"}
        how = self.d(st.sampled_from(["full", "full", "dtype", "untyped"]))
        if any(x["k"] == "call" or (x["k"] == "op" and x.get("dom")) for x in _steps_walk(steps)):
            how = "full"      # contrib ops / function calls have no type inference: the user has to declare the body output types
        # onnxruntime insists on known shapes for the Loop iteration-number/condition inputs: those are always fully typed
        body["ptyped"] = ["full"] * len(ids) if self.chance(8) else ["full" if (kind == "loop" and k < 2) else self.d(st.sampled_from(["full", "dtype"])) for k in range(len(ids))]
        body["otyped"] = [how] * len(rets)
        body["spec"] = self.chance(3)
        body["ret_tuple"] = self.chance(5)
        if self.chance(3) or not self.region("subgraph_autonames"):
            body["scope"] = body["auto_scope"]
        else:
            body["scope"] = None
            self.feat.add("body:no-module-scope")
        self.feat.add("body:outputs-" + how)
        return body

    def inside(self, i):
        return self.local is not None and i in self.local

    def ret_like(self, arr, prefer=None):
        """A value produced inside the current body with the dtype (and preferably shape) of arr; emits a node if needed."""
        arr = np.asarray(arr)
        c = [i for i in self.local if np.asarray(self.env[i]).dtype == arr.dtype and np.asarray(self.env[i]).shape == arr.shape]
        if c and self.chance(8):
            return c[-1] if self.chance(7) else self.d(st.sampled_from(c))
        src = prefer
        if src is None:
            src = self.pick(lambda b: b.dtype == arr.dtype and b.shape == arr.shape)
        if src is not None:
            r = self.add("Identity", [{"v": src}], decorate=False)
            return r[0] if r else None
        src = self.pick(lambda b: b.shape == arr.shape and (b.dtype.kind != "f" or np.all(np.isfinite(b))))
        if src is not None:
            r = self.add("Cast", [{"v": src}], {"to": ENUM[NAME_OF[arr.dtype]]}, decorate=False)
            return r[0] if r else None
        return None

    def g_if(self):
        if self.depth >= 2 or self.fmode:
            return False
        c = self.pick(lambda a: a.dtype == np.bool_ and a.shape == (), exact=True)
        if c is None or self.chance(2):
            x = self.pick(lambda a: a.dtype == np.float32 and a.size >= 1 and np.all(np.isfinite(a)) and np.abs(a).max() < 1e3, exact=True)
            if x is None:
                return False
            a = np.asarray(self.env[x])
            s = self.add("ReduceMax", [{"v": x}], {"keepdims": 0}, decorate=False) if a.ndim else [x]
            if not s:
                return False
            r = self.add(self.d(st.sampled_from(["Greater", "Less"])), [{"v": s[0]}, {"lit": self.d(st.sampled_from([0.0, 1, 2.5, -1]))}], decorate=False)
            self.feat.add("lit:float")
            if not r:
                return False
            c = r[0]
        cond = {"v": c}
        if self.chance(1, 12):
            cond = {"lit": self.d(st.booleans())}
            self.feat.add("lit:bool")
        nret = self.d(st.sampled_from([1, 1, 1, 2]))
        bodies = []
        protos = None
        for branch in ("then", "else"):
            saved, _ = self.body_begin([])
            self.grow(self.d(st.integers(1, 3)), self.SIMPLE + ["g_if", "g_loop", "g_call"] if self.depth < 2 else None)
            if protos is None:
                rets = []
                for _ in range(nret):
                    cnd = [i for i in self.local if i not in rets]
                    if not cnd:
                        x = self.pick(lambda a: True)
                        r = self.add("Identity", [{"v": x}], decorate=False) if x is not None else None
                        cnd = r or []
                    if not cnd:
                        break
                    rets.append(self.d(st.sampled_from(cnd)) if self.chance(3) else cnd[-1])
                if len(rets) != nret:
                    self.body_end(saved, [], rets, branch)
                    return False
                protos = [np.asarray(self.env[i]) for i in rets]
            else:
                rets = []
                for p in protos:
                    i = self.ret_like(p)
                    if i is None or i in rets:
                        i2 = self.add("Identity", [{"v": i}], decorate=False) if i is not None else None
                        i = i2[0] if i2 else None
                    if i is None:
                        self.body_end(saved, [], rets, branch)
                        return False
                    rets.append(i)
            bodies.append(self.body_end(saved, [], rets, branch))
        s = {"k": "if", "cond": cond, "then": bodies[0], "else": bodies[1], "outs": [self.fresh() for _ in range(nret)],
             "api": self.d(st.sampled_from(["subgraph", "subgraph", "build_graph"]))}
        if nret == 1 and self.chance(2):
            s["omode"], s["onames"] = "names", [self.uname("o")]
        elif nret > 1:
            s["omode"] = "int"
        if self.emit(s):
            self.feat.update({"subgraph:If", "api:" + s["api"], f"subgraph:depth{self.depth + 1}"})
            return True
        return False

    def g_loop(self):
        if self.depth >= 2 or self.fmode:
            return False
        x = self.pick(lambda a: a.dtype in (np.float32, np.int64) and a.size <= 12 and (a.dtype.kind != "f" or np.all(np.isfinite(a))))
        if x is None:
            return False
        carried = [x]
        if self.chance(3):
            y = self.pick(lambda a: a.dtype in (np.float32, np.int64) and a.size <= 12)
            if y is not None and y != x:
                carried.append(y)
        trip = self.d(st.integers(1, 3))
        saved, ids = self.body_begin([np.array(0, np.int64), np.array(True)] + [self.env[c] for c in carried])
        it, cin = ids[0], ids[1]
        self.inexact.update(p for p, c in zip(ids[2:], carried) if c in self.inexact)
        if trip > 1:
            # from the second iteration on a carried value is what the body returned (possibly through Tanh & co.): a floating-point
            # loop parameter may carry rounding noise although its initial value does not
            self.inexact.update(p for p in ids[2:] if np.asarray(self.env[p]).dtype.kind == "f")
        rets = []
        # condition
        r = self.d(st.integers(0, 3))
        if r == 0:
            cr = self.add("Identity", [{"v": cin}], decorate=False)
        elif r == 1:
            cr = self.add("Less", [{"v": it}, {"lit": self.d(st.integers(0, 2))}], decorate=False)
            self.feat.update({"lit:int", "loop:computed-condition"})
        elif r == 2:
            cr = self.add("And", [{"v": cin}, {"lit": True}], decorate=False)
            self.feat.add("lit:bool")
        else:
            cr = [cin]
            self.feat.add("body:returns-input")
        if not cr:
            self.body_end(saved, ids, [], "loop")
            return False
        rets.append(cr[0])
        for pid in ids[2:]:
            # shape-preserving update of the carried value
            a = np.asarray(self.env[pid])
            kind = self.kind_of(a)
            opn = self.d(st.sampled_from(["Add", "Mul", "Sub"] if kind == "i" else ["Add", "Mul", "Sub", "Max"]))
            other = self.literal(kind) if self.chance(5) else None
            if other is None:
                y = self.like(a)
                other = {"v": y} if y is not None and np.asarray(self.env[y]).shape in ((), a.shape) else self.literal(kind)
            if "lit" in other and isinstance(other["lit"], str):
                other = {"lit": 0.5}
            nr = self.add(opn, [{"v": pid}, other])
            if nr and self.chance(3) and kind == "f":
                nr2 = self.add(self.d(st.sampled_from(["Tanh", "Relu", "Neg", "Abs"])), [{"v": nr[0]}])
                nr = nr2 or nr
            if not nr or np.asarray(self.env[nr[0]]).shape != a.shape or np.asarray(self.env[nr[0]]).dtype != a.dtype:
                self.body_end(saved, ids, rets, "loop")
                return False
            rets.append(nr[0])
        self.grow(self.d(st.integers(0, 2)), self.SIMPLE + (["g_if"] if self.depth < 2 else []))
        nscan = self.d(st.sampled_from([0, 0, 1]))
        if nscan:
            cnd = [i for i in self.local if i not in rets and np.asarray(self.env[i]).size <= 12]
            if cnd:
                rets.append(cnd[-1])
                self.feat.add("loop:scan-output")
            else:
                nscan = 0
        body = self.body_end(saved, ids, rets, "loop")
        s = {"k": "loop", "trip": {"lit": trip} if self.chance(8) else None, "cond": {"lit": True} if self.chance(6) else None,
             "init": [{"v": c} for c in carried], "body": body, "outs": [self.fresh() for _ in range(len(carried) + nscan)],
             "api": self.d(st.sampled_from(["subgraph", "subgraph", "build_graph"]))}
        if s["trip"] is None and s["cond"] is None:
            s["trip"] = {"lit": trip}
        if s["trip"] is None and r not in (1,):
            s["trip"] = {"lit": trip}     # without a trip count the body's condition must end the loop
        if s["trip"] is None or s["cond"] is None:
            self.feat.add("operand:None")
        self.feat.update({"lit:int", "lit:bool"} if s["cond"] else {"lit:int"})
        s["omode"] = "int" if len(s["outs"]) > 1 or self.chance(5) else "default"
        if self.emit(s):
            self.feat.update({"subgraph:Loop", "api:" + s["api"], f"subgraph:depth{self.depth + 1}"})
            return True
        return False

    def g_scan(self):
        if self.depth >= 1 or self.fmode:
            return False
        xs = self.pick(lambda a: a.dtype == np.float32 and a.ndim >= 2 and 1 <= a.shape[0] <= 3 and np.all(np.isfinite(a)))
        if xs is None:
            return False
        a = np.asarray(self.env[xs])
        init = self.pick(lambda b: b.dtype == np.float32 and b.shape == a.shape[1:])
        if init is None:
            r = self.add("ReduceSum", [{"v": xs}, self.int_list([0])], {"keepdims": 0}, decorate=False)
            if not r:
                return False
            init = r[0]
        saved, ids = self.body_begin([self.env[init], a[0]])
        st_, xi = ids
        self.inexact.update(p for p, c in zip(ids, (init, xs)) if c in self.inexact)
        n1 = self.add(self.d(st.sampled_from(["Add", "Mul", "Sub", "Max"])), [{"v": st_}, {"v": xi}])
        if not n1:
            self.body_end(saved, ids, [], "scan")
            return False
        if self.chance(4):
            n2 = self.add("Mul", [{"v": n1[0]}, self.literal("f")])
            if n2 and np.asarray(self.env[n2[0]]).shape == a.shape[1:] and np.asarray(self.env[n2[0]]).dtype == np.float32:
                n1 = n2
        self.grow(self.d(st.integers(0, 1)))
        rets = [n1[0]]
        r = self.d(st.integers(0, 3))
        if r == 0 and self.region("body_dup_return"):
            rets.append(n1[0])       # the tutorial's cumulative-sum example returns (new_state, new_state)
            self.feat.add("body:same-value-twice")
        else:
            cnd = [i for i in self.local if i != n1[0] and np.asarray(self.env[i]).size <= 12]
            if cnd and r == 1:
                rets.append(cnd[-1])
            else:
                i = self.add("Identity", [{"v": n1[0]}], decorate=False)
                if not i:
                    self.body_end(saved, ids, rets, "scan")
                    return False
                rets.append(i[0])
        body = self.body_end(saved, ids, rets, "scan")
        s = {"k": "scan", "init": [{"v": init}], "xs": [{"v": xs}], "body": body, "outs": [self.fresh(), self.fresh()], "omode": "int",
             "api": self.d(st.sampled_from(["subgraph", "build_graph"]))}
        if self.emit(s):
            self.feat.update({"subgraph:Scan", "api:" + s["api"], f"subgraph:depth{self.depth + 1}"})
            return True
        return False

    # ---- functions
    def define_function(self, args):
        kind = self.d(st.sampled_from(["script", "script", "script_opb", "built", "built"]))
        if self.opset < 15:
            # literals next to untyped values are typed with CastLike, in @script bodies and in built functions with untyped parameters
            # alike; CastLike does not exist below opset 15 (recorded under C13): old-opset traces call no functions
            return None
        idx = len(self.prog["funcs"])
        f = {"name": f"fn{idx}", "domain": f"fdom{idx}" if kind != "script_opb" else "this", "kind": kind, "attrs": [], "params": [], "body": [], "ret": []}
        if kind == "built":
            f["typed"] = self.chance(5)
            f["attrs_as"] = self.d(st.sampled_from(["list", "dict"]))
        saved = (self.env, self.cur, self.local, self.scopes, self.fmode, self.nid, self.depth)
        self.env, self.cur, self.local, self.scopes, self.nid, self.depth = {}, f["body"], [], 0, 0, 5
        self.fmode = {"attrs": f["attrs"], "values": {}, "kind": kind}
        for a in args:
            i = self.fresh()
            self.env[i] = a
            f["params"].append(i)
        ok = self.grow(self.d(st.integers(1, 4)), self.FUNC) >= 1
        nested = None
        if ok and kind == "script" and self.chance(2) and self.region("nested_function"):
            callee = [j for j, g in enumerate(self.prog["funcs"]) if g["kind"] == "script" and len(g["params"]) == 1]
            x = self.pick(self.is_f32)
            if callee and x is not None:
                j = callee[-1]
                g = self.prog["funcs"][j]
                given = {a["name"]: (a["default"] if a.get("default") is not None else (0.5 if a["type"] == "f" else 0)) for a in g["attrs"]}
                s = {"k": "call", "fn": j, "mode": "call", "args": [{"v": x}], "attrs": given, "outs": [self.fresh() for _ in g["ret"]]}
                if self.emit(s):
                    nested = j
        rets = list(dict.fromkeys(self.local[-2:] if self.chance(3) else self.local[-1:]))
        values = dict(self.fmode["values"])
        self.env, self.cur, self.local, self.scopes, self.fmode, self.nid, self.depth = saved
        if not ok or not rets:
            return None
        f["ret"] = rets
        self.prog["funcs"].append(f)
        self.feat.add("function:" + kind)
        if nested is not None:
            self.feat.add("function:nested-call")
        if f["attrs"]:
            self.feat.add("function:attributes")
        return idx, values

    def g_call(self):
        if self.fmode or self.depth >= 2:
            return False
        x = self.pick(lambda a: a.dtype == np.float32 and a.ndim >= 1 and np.all(np.isfinite(a)))
        if x is None:
            return False
        a = np.asarray(self.env[x])
        funcs = self.prog["funcs"]
        # a function is only re-used on arguments of the rank it was generated for (axis attributes inside it)
        reuse = [j for j, g in enumerate(funcs) if g.get("_rank") == a.ndim] if funcs and self.chance(4) else []
        args = [{"v": x}]
        if reuse:
            j = self.d(st.sampled_from(reuse))
            f = funcs[j]
            if len(f["params"]) == 2:
                y = self.pick(lambda b: b.dtype == a.dtype and b.shape == a.shape and np.all(np.isfinite(b)))
                args.append({"v": y if y is not None else x})
            given = {}
            for at in f["attrs"]:
                if at.get("default") is not None and self.chance(4):
                    continue
                base = f["_first"][at["name"]]
                given[at["name"]] = base if at["type"] == "i" or self.chance(5) else self.d(st.sampled_from([0.1, 0.5, 2.0]))
            self.feat.add("function:reused")
        else:
            arrs = [a]
            if self.chance(4):
                y = self.like(a)
                if y is not None:
                    args.append({"v": y})
                    arrs.append(np.asarray(self.env[y]))
            r = self.define_function(arrs)
            if r is None:
                return False
            j, values = r
            f = funcs[j]
            f["_first"] = values
            f["_rank"] = a.ndim
            given = {}
            for at in f["attrs"]:
                if at.get("default") is not None and at["default"] == values[at["name"]] and self.chance(5):
                    continue
                given[at["name"]] = values[at["name"]]
        if len(args) == 2 and self.chance(2) and self.region("inline_literal_arg"):
            args[1] = self.literal("f")
            if isinstance(args[1]["lit"], str):
                args[1] = {"lit": 2.0}
            self.feat.add("function:literal-arg")
        omitted = [at["name"] for at in f["attrs"] if at["name"] not in given]
        if omitted:
            self.feat.add("function:default-attr-omitted")
            self.region("inline_default_attr")
        s = {"k": "call", "fn": j, "mode": self.d(st.sampled_from(["call", "inline"])), "args": args, "attrs": given,
             "aform": self.d(st.sampled_from(["py", "attr"])), "outs": [self.fresh() for _ in f["ret"]]}
        if given and s["aform"] == "py":
            self.region("inline_py_attr")
        r = self.d(st.integers(0, 5))
        if r == 0:
            s["omode"], s["onames"] = "names", [self.uname("o") for _ in f["ret"]]
        elif r == 1:
            s["omode"] = "int"
        if self.chance(3):
            s["prefix"] = self.d(st.sampled_from(["layer1", "math_ops", "blk.0"]))
        if self.emit(s):
            self.feat.update({"function:" + s["mode"], "function:aform-" + s["aform"]} if given else {"function:" + s["mode"]})
            return True
        if not reuse:
            funcs.pop()      # the fresh definition is unused
        return False

    # ---- whole program
    def generate(self):
        rng_seed = self.d(st.integers(0, 2**31 - 1))
        rng = np.random.default_rng(rng_seed)
        n_in = self.d(st.integers(1, 3))
        for k in range(n_in):
            dt = "FLOAT" if k == 0 else self.d(st.sampled_from(["FLOAT", "FLOAT", "FLOAT", "INT64", "DOUBLE", "BOOL", "INT32"]))
            shape = self.d(st.sampled_from(SHAPES[2:] if k == 0 else SHAPES))
            if dt in ("FLOAT", "DOUBLE"):
                a = rng.choice(F_POOL, size=shape).astype(NP[dt])
            elif dt == "BOOL":
                a = rng.integers(0, 2, size=shape).astype(np.bool_)
            else:
                a = rng.choice(I_POOL, size=shape).astype(NP[dt])
            i = self.fresh()
            self.env[i] = np.asarray(a)
            self.prog["inputs"].append({"id": i, "name": f"x{k}", "via": self.d(st.sampled_from(["input", "input", "value"]))})
        feeds = {inp["name"]: self.env[inp["id"]] for inp in self.prog["inputs"]}
        n = self.d(st.integers(2, 9))
        want = self.d(st.integers(0, 9))
        specials = []
        if want < 6:
            specials.append(self.d(st.sampled_from(["g_if", "g_if", "g_loop", "g_loop", "g_scan", "g_call", "g_call", "g_call"])))
        if want < 2:
            specials.append(self.d(st.sampled_from(["g_if", "g_loop", "g_call"])))
        self.grow(self.d(st.integers(1, max(1, n // 2))))
        for h in specials:
            for _ in range(3):
                if getattr(self, h)():
                    break
            self.grow(self.d(st.integers(0, 2)))
        self.grow(max(0, n - len(self.cur)))
        self.close_scopes()
        produced = [i for s in self.prog["steps"] for i in (s.get("outs") or ([s["out"]] if "out" in s else []))]
        if not produced:
            return None
        used = set()
        for s in self.prog["steps"]:
            for o in list(s.get("ins", [])) + list((s.get("kwins") or {}).values()) + list(s.get("args", [])) + list(s.get("init", [])) + list(s.get("xs", [])):
                if "v" in o:
                    used.add(o["v"])
        leaves = [i for i in produced if i not in used]
        outs = leaves[-3:] if leaves else produced[-1:]
        if self.chance(3) and len(produced) > 1:
            extra = self.d(st.sampled_from(produced))
            if extra not in outs:
                outs.append(extra)
        self.prog["outputs"] = outs
        for f in self.prog["funcs"]:
            f.pop("_first", None)
            f.pop("_rank", None)
        return {"part": "trace", "prog": self.prog, "feeds": optcommon.feeds_to_json(feeds), "exclude": sorted(self.ex), "features": sorted(self.feat)}


@st.composite
def trace_cases(draw, exclude, note):
    g = TraceGen(draw, exclude, note)
    return g.generate()


# =====================================================================================================================
# part (a): oracle
# =====================================================================================================================
def _count(prog):
    return sum(1 for _ in prog_steps(prog))


def _has_loop_scan_out(prog):
    for s in prog_steps(prog, with_funcs=False):
        if s["k"] == "loop" and (len(s["outs"]) > len(s["init"]) or s.get("cond") is None):
            return True       # ... and treats an omitted condition input as False (zero iterations)
    return False


def _first_bad_step(prog, drv, model, feeds, rec):
    """Name the first main-scope step whose value in the model (reference evaluator intermediates) differs from the replay."""
    r = execs.run_ref(model, feeds, intermediate=True)
    if r[0] != "ok":
        return None
    inter = r[2]
    for s in prog["steps"]:
        for i in s.get("outs", []):
            v = drv.vals.get(i)
            if v is None or v.name not in inter or i not in rec:
                continue
            got = inter[v.name]
            if isinstance(got, list):
                continue
            if compare.same_array(np.asarray(rec[i]), np.asarray(got), rel=2e-5, abs_=2e-6):
                return s["op"] if s["k"] == "op" else s["k"]
    return None


def check_trace(case, want_info=False):
    """Returns (verdicts, info).  verdicts: [(bucket, detail)]."""
    prog = case["prog"]
    exclude = case.get("exclude", [])
    feeds = optcommon.feeds_from_json(case["feeds"])
    info = {"skip": None, "classes": []}
    interp = Interp(prog)
    env = {inp["id"]: feeds[inp["name"]] for inp in prog["inputs"]}
    rec = RecEnv(env)
    try:
        with np.errstate(all="ignore"):
            interp.run_steps(prog["steps"], rec, None)
    except ReplayError as e:
        info["skip"] = f"replay_failed:{str(e)[:40]}"
        return [], info
    expected = [np.asarray(rec[i]) for i in prog["outputs"]]
    arrays = dict(rec.all)
    everything = list(arrays.values()) + list(interp.fvals)
    scale = execs.magnitude_scale(dict(enumerate(everything)))
    # with one runtime only, NaN/inf/signed-zero corner behaviour of that runtime's kernels cannot be told from a builder defect
    has_nan = any(np.asarray(v).dtype.kind == "f" and not np.isfinite(np.asarray(v)).all() for v in everything)
    has_calls = any(s["k"] == "call" for s in prog_steps(prog, with_funcs=False))
    use_ref = not _has_loop_scan_out(prog)     # onnx.reference concatenates Loop scan outputs instead of stacking them
    verdicts = []
    results = {}
    for variant in (("drawn", False), ("flipped", True)) if has_calls else (("drawn", False),):
        tag, flip = variant
        drv = Driver(prog, arrays, exclude, flip=flip)
        drv.frec = interp.frec
        try:
            model = drv.build()
        except ReplayError as e:
            info["skip"] = f"harness:{str(e)[:60]}"
            return [], info
        except CutError as e:
            verdicts.append((e.bucket(), f"[{tag}] {e}"))
            continue
        for _, msg in drv.inferred[:1]:
            verdicts.append(("inference:static type/shape disagrees with the trace", f"[{tag}] {msg}"))
        for b, d in name_problems(model):
            verdicts.append((b, f"[{tag}] {d}"))
        problems = wellformed.check_model(model)
        for kind, msg in problems[:2]:
            if kind in ("ssa", "shadow") and any(b.startswith("names:value") for b, _ in verdicts):
                continue      # same root cause, already reported under names:value:*
            verdicts.append((f"invalid:{kind}", f"[{tag}] {msg}"))
        a, b = run_both(model, feeds, use_ref=use_ref)
        if b[0] != "ok" and has_nan and a[0] == "ok":
            info["classes"].append("verdict:single-runtime-with-nonfinite-skipped")
            results[tag] = None
            continue
        if a[0] != "ok" and b[0] != "ok" and ("op_kernel_context.h" in str(a[1]) or "core/framework/ort_value.h" in str(a[1])):
            # onnxruntime loaded the model and then tripped an internal assertion (an implicit Loop/Scan input that is the output of
            # a no-op Cast chain is gone at run time); with no second runtime for this case nothing can be concluded about the builder
            info["classes"].append("verdict:ort-internal-assertion-skipped")
            results[tag] = None
            continue
        v, suffix, detail = judge_outputs(tag, a, b, expected, scale)
        info["classes"].append(f"verdict:{tag}:{v}" + (":ort-only" if b[0] != "ok" and a[0] == "ok" else ""))
        results[tag] = a if a[0] == "ok" else b
        if v == "violation":
            if suffix.startswith("values"):
                where = _first_bad_step(prog, drv, model, feeds, arrays) if use_ref else None
                suffix = f"values:{where or 'output'}" + (":inlined" if has_calls and _any_inline(prog, flip) else "")
            else:
                suffix = "not-executable"
            if any(bk.startswith(("names:value:shadows", "names:value:dup-in", "invalid:")) for bk, _ in verdicts) and not suffix.startswith("values"):
                continue      # an invalid model not executing is the same finding
            verdicts.append((suffix, f"[{tag}] {detail}"))
    if has_calls and results.get("drawn") and results.get("flipped") and results["drawn"][0] == "ok" and results["flipped"][0] == "ok":
        d = compare.same_outputs(results["drawn"][1], results["flipped"][1], rel=2e-5, abs_=2e-6 * max(scale, 1.0))
        if d:
            verdicts.append(("call!=call_inline", d))
    verdicts += _opset_history(prog, arrays, exclude, interp, info)
    return _dedup(verdicts), info


def _opset_history(prog, arrays, exclude, interp, info):
    """Metamorphic step over builder histories: the same trace is built, then built under OLDER opsets (operator signatures and type
    variables differ there: Pow, ReduceSum, Squeeze, Split, Clip ...; whatever those builds do, including raising, is ignored), then built
    again - the first and the last model must be byte-equal: what a builder emits for a trace does not depend on which opsets the
    process has built before."""
    import copy

    def build(p):
        drv = Driver(p, arrays, exclude, flip=False)
        drv.frec = interp.frec
        return drv.build().SerializeToString(deterministic=True)

    try:
        first = build(copy.deepcopy(prog))
    except Exception:  # noqa: BLE001  (already judged above)
        return []
    for old in (11, 12, 13):
        q = copy.deepcopy(prog)
        q["opset"] = old
        try:
            build(q)
        except BaseException as e:  # noqa: BLE001
            if isinstance(e, (KeyboardInterrupt, SystemExit)) or type(e).__name__ == "CaseTimeout":
                raise
    try:
        last = build(copy.deepcopy(prog))
    except Exception as e:  # noqa: BLE001
        return [("history:older_opset_builds:raise", f"{type(e).__name__}: {str(e)[:200]}")]
    info["classes"].append("history:older_opsets_in_between")
    if first != last:
        a, b = onnx.ModelProto.FromString(first), onnx.ModelProto.FromString(last)
        diff = next((f"node {i}: {onnx.printer.to_text(x)[:150]} -> {onnx.printer.to_text(y)[:150]}" for i, (x, y) in enumerate(zip(a.graph.node, b.graph.node)) if x != y),
                    f"{len(a.graph.node)} vs {len(b.graph.node)} nodes / initializers differ")
        return [("history:older_opset_builds:different_model", diff)]
    return []


def _any_inline(prog, flip):
    for s in prog_steps(prog, with_funcs=False):
        if s["k"] == "call" and ((s["mode"] == "inline") != flip):
            return True
    return False


class RecEnv(dict):
    """An environment that remembers every value ever bound (body-local ones included): the driver needs their types."""

    def __init__(self, base, sink=None):
        super().__init__(base)
        self.all = sink if sink is not None else dict(base)

    def __setitem__(self, k, v):
        super().__setitem__(k, v)
        self.all.setdefault(k, v)


def trace_classes(case):
    prog = case["prog"]
    cl = set(case.get("features", []))
    n = _count(prog)
    cl.add(f"trace:steps={'1-4' if n <= 4 else '5-9' if n <= 9 else '10-19' if n <= 19 else '20+'}")
    cl.add(f"trace:opset={prog['opset']}")
    return sorted(cl)


def trace_nontrivial(case):
    f = set(case.get("features", []))
    return any(x.startswith("lit:") for x in f) and any(x.startswith(("subgraph:", "function:call", "function:inline")) for x in f)


def run_traces(col, spec):
    def note(name):
        col.exclude(name)

    def body(case):
        if case is None:
            col.skip("trace:empty-program")
            return
        verdicts, info = check_trace(case)
        if info["skip"]:
            col.skip("trace:" + info["skip"])
            return
        prog = case["prog"]
        n = _count(prog)
        col.case(("trace", _hash(prog)), trace_nontrivial(case), trace_classes(case) + info["classes"],
                 sample={"part": "trace", "program": program_text(prog), "features": case["features"]} if 7 <= n <= 18 else None)
        for bucket, detail in verdicts:
            col.violation("trace:" + bucket, detail, dict(case, text=program_text(prog)), size=_count(prog))

    drive(trace_cases(sorted(EXCLUDE), note), body, spec["n"], spec["seed"])


def trace_replay(case):
    verdicts, info = check_trace(case)
    if info["skip"]:
        return []
    return [("trace:" + b, d) for b, d in verdicts]


def program_text(prog, limit=6000):
    """Readable rendering of a program (what the user would have typed)."""

    def opnd(o):
        if "v" in o:
            return f"t{o['v']}"
        if "none" in o:
            return "None"
        if "lit" in o:
            v = _lit_value(o)
            return repr(tuple(v)) if o.get("tuple") and isinstance(v, list) else repr(v)
        return f"ir.tensor(<{o.get('as', 'tensor')}>, name={o.get('name')!r})"

    def attr(v):
        if isinstance(v, dict) and "ref" in v:
            return "@" + v["ref"]
        if isinstance(v, dict) and "tensor" in v:
            return "<tensor>"
        return repr(v)

    def kw_out(s):
        m = s.get("omode", "default")
        if m == "names":
            return [f"_outputs={s['onames']!r}"]
        if m == "values":
            return ["_outputs=[" + ", ".join(f"ir.Value(name={x!r})" for x in s["onames"]) + "]"]
        if m == "int" or (m == "default" and len(s["outs"]) != 1):
            return [f"_outputs={len(s['outs'])}"]
        return []

    def body_txt(b, ind):
        head = "  " * ind + f"def {b['name']}(op{''.join(', t%d' % i for i in b.get('params', []))}):" + (f"  # push_module({b['scope']!r})" if b.get("scope") else "") + "\n"
        return head + steps_txt(b["steps"], ind + 1) + "  " * (ind + 1) + "return " + ", ".join(f"t{i}" for i in b["ret"]) + f"   # declared outputs {b['otyped'][:1]}\n"

    def steps_txt(steps, ind):
        out = ""
        pad = "  " * ind
        for s in steps:
            k = s["k"]
            outs = ", ".join(f"t{i}" for i in s.get("outs", [s.get("out")]))
            if k == "op":
                args = [opnd(o) for o in s["ins"]]
                if s.get("posattr"):
                    args += [attr(v) for v in (s.get("attrs") or {}).values()]
                else:
                    args += [f"{n}={attr(v)}" for n, v in (s.get("attrs") or {}).items()]
                args += [f"{n}={opnd(o)}" for n, o in (s.get("kwins") or {}).items()] + kw_out(s)
                tgt = "op"
                if s.get("via") == "opset":
                    tgt = f"builder.opset({s.get('dom', '')!r}, v)"
                elif s.get("via") == "domkw":
                    args += [f"_domain={s.get('dom', '')!r}", "_version=v"]
                elif s.get("via") == "verkw":
                    args.append("_version=v")
                out += f"{pad}{outs} = {tgt}.{s['op']}({', '.join(args)})\n"
            elif k == "push":
                out += f"{pad}builder.push_module({s['name']!r}, {s.get('cls', '')!r})\n"
            elif k == "pop":
                out += f"{pad}builder.pop_module()\n"
            elif k == "init":
                out += f"{pad}{outs} = {s.get('via')}.initializer(ir.tensor(..., name={s['name']!r}))\n"
            elif k == "if":
                out += body_txt(s["then"], ind) + body_txt(s["else"], ind)
                out += f"{pad}{outs} = op.If({opnd(s['cond'])}, then_branch={s.get('api')}({s['then']['name']}), else_branch={s.get('api')}({s['else']['name']}){''.join(', ' + x for x in kw_out(s))})\n"
            elif k == "loop":
                out += body_txt(s["body"], ind)
                a = [("None" if s.get("trip") is None else opnd(s["trip"])), ("None" if s.get("cond") is None else opnd(s["cond"]))] + [opnd(o) for o in s["init"]]
                out += f"{pad}{outs} = op.Loop({', '.join(a)}, body={s.get('api')}({s['body']['name']}){''.join(', ' + x for x in kw_out(s))})\n"
            elif k == "scan":
                out += body_txt(s["body"], ind)
                a = [opnd(o) for o in s["init"] + s["xs"]]
                out += f"{pad}{outs} = op.Scan({', '.join(a)}, body={s.get('api')}({s['body']['name']}), num_scan_inputs={len(s['xs'])}, _outputs={len(s['outs'])})\n"
            elif k == "call":
                a = [f"fn{s['fn']}"] + [opnd(o) for o in s["args"]] + [f"{n}={v!r}" + ("" if s.get("aform", "py") == "py" else "  # as ir.Attr") for n, v in (s.get("attrs") or {}).items()]
                a += kw_out(s) if s.get("omode") in ("names", "int") else []
                if s.get("prefix"):
                    a.append(f"_prefix={s['prefix']!r}  # inline only")
                out += f"{pad}{outs} = op.{'call' if s['mode'] == 'call' else 'call_inline'}({', '.join(a)})\n"
        return out

    txt = f"# opset {prog['opset']}; inputs " + ", ".join(f"t{i['id']}={i['name']}" for i in prog["inputs"]) + "\n"
    for idx, f in enumerate(prog.get("funcs", [])):
        if f["kind"] in ("script", "script_opb"):
            try:
                txt += func_source(f, idx, prog["funcs"])
            except Exception:  # noqa: BLE001
                txt += f"# {f['name']}: <source unavailable>\n"
        else:
            txt += f"# {f['name']} = build_function(trace, inputs{' typed' if f.get('typed') else ' untyped'}, domain={f['domain']!r}, attributes={[(a['name'], a.get('default')) for a in f['attrs']]})\n"
            txt += f"def trace_{f['name']}(op{''.join(', t%d' % i for i in f['params'])}):\n" + steps_txt(f["body"], 1) + "  return " + ", ".join(f"t{i}" for i in f["ret"]) + "\n"
    txt += steps_txt(prog["steps"], 0) + "outputs: " + ", ".join(f"t{i}" for i in prog["outputs"]) + "\n"
    return txt[:limit]


# =====================================================================================================================
# regions of recorded findings (predicates over stored cases)
# =====================================================================================================================
def _is_trace(case):
    return case.get("part") == "trace"


def _bodies(prog):
    for s in prog_steps(prog, with_funcs=False):
        if s["k"] == "if":
            yield s["then"]
            yield s["else"]
        elif s["k"] in ("loop", "scan"):
            yield s["body"]


def _lits(prog):
    for s in prog_steps(prog):
        for o in list(s.get("ins", [])) + list((s.get("kwins") or {}).values()) + list(s.get("args", [])) + [x for x in (s.get("cond"), s.get("trip")) if isinstance(x, dict)]:
            if "lit" in o:
                v = o["lit"]
                yield from (v if isinstance(v, list) else [v])


def _calls(prog):
    return [s for s in prog_steps(prog, with_funcs=False) if s["k"] == "call"]


def _ex(case):
    return set(case.get("exclude", []))


REGIONS = {
    "subgraph_autonames": lambda c: _is_trace(c) and "subgraph_autonames" not in _ex(c) and any(b.get("scope") is None for b in _bodies(c["prog"])),
    "inline_py_attr": lambda c: _is_trace(c) and "inline_py_attr" not in _ex(c) and any(s.get("attrs") and s.get("aform", "py") == "py" for s in _calls(c["prog"])),
    "inline_default_attr": lambda c: _is_trace(c) and "inline_default_attr" not in _ex(c) and any(
        any(a["name"] not in (s.get("attrs") or {}) and a.get("default") is not None for a in c["prog"]["funcs"][s["fn"]]["attrs"]) for s in _calls(c["prog"])),
    "inline_literal_arg": lambda c: _is_trace(c) and any("lit" in o for s in _calls(c["prog"]) for o in s["args"]),
    "nested_function": lambda c: _is_trace(c) and any(s["k"] == "call" for f in c["prog"].get("funcs", []) for s in f["body"]),
    "nan_literal": lambda c: _is_trace(c) and sum(1 for v in _lits(c["prog"]) if v == "nan") >= 2,
    "negzero_literal": lambda c: _is_trace(c) and any(v == "-0.0" for v in _lits(c["prog"])),
    "unnamed_tensor_operand": lambda c: _is_trace(c) and any("tensor" in o and not o.get("name") for s in prog_steps(c["prog"]) for o in s.get("ins", [])),
    "body_dup_return": lambda c: _is_trace(c) and any(len(set(b["ret"])) != len(b["ret"]) for b in _bodies(c["prog"])),
    "kw_input_after_gap": lambda c: _is_trace(c) and any(_kw_gap(s, c["prog"]["opset"]) for s in prog_steps(c["prog"]) if s["k"] == "op" and s.get("kwins")),
    "rehomed_in_unnamed_sequential": lambda c: c.get("part") == "tree" and bool(c.get("rehomed_in_seq")),
    "scan_body_param_without_shape": lambda c: _is_trace(c) and any(
        s["k"] == "scan" and any(t != "full" for t in s["body"].get("ptyped", [])) for s in prog_steps(c["prog"], with_funcs=False)),
}


def _kw_gap(s, opset):
    schema = schema_of(s["op"], s.get("dom", ""), opset)
    if schema is None:
        return False
    names = [i.name for i in schema.inputs]
    idx = sorted(names.index(k) for k in s["kwins"])
    have = set(range(len(s["ins"]))) | set(idx)
    return any(j not in have for j in range(max(idx)))


# =====================================================================================================================
# runner interface
# =====================================================================================================================
def plan(tier, seed, budget):
    only = os.environ.get("VERIF_ONLY", "")
    specs = []
    if tier == "quick":
        nt, ntree, shards_t, shards_tree = 450, 1200, 11, 5
    else:
        nt, ntree, shards_t, shards_tree = 12000, 40000, 12, 4
    traces = [{"part": "trace", "n": max(1, int(nt * budget))} for _ in range(shards_t)] if "tree" not in only else []
    trees = [{"part": "tree", "n": max(1, int(ntree * budget))} for _ in range(shards_tree)] if "trace" not in only else []
    while traces or trees:       # interleave so that the evidence samples show both parts
        if traces:
            specs.append(traces.pop())
        if trees:
            specs.append(trees.pop())
    return specs


def run_shard(spec):
    col = Collector()
    col.MAX_SAMPLES = 2
    if spec["part"] == "tree":
        run_machine(make_tree_machine(col), spec["n"], 30, spec["seed"])
    else:
        run_traces(col, spec)
    return col.result()


def replay(case):
    if case.get("part") == "tree":
        return tree_replay(case)
    return trace_replay(case)


# =====================================================================================================================
# hand-minimised cases of the recorded regions (one per region; `python -m vf.props.C18` prints / dumps them)
# =====================================================================================================================
def minimal_cases():
    x = np.array([-3.0, 2.0, 3.0], dtype=np.float32)
    feeds = optcommon.feeds_to_json({"x0": x})
    inp = [{"id": 1, "name": "x0", "via": "input"}]

    def prog(steps, outputs, funcs=(), opset=21):
        return {"opset": opset, "inputs": inp, "funcs": list(funcs), "steps": steps, "outputs": outputs, "out_via": "add_output"}

    def case(p, note):
        return {"part": "trace", "prog": p, "feeds": feeds, "exclude": [], "features": [], "note": note, "text": program_text(p)}

    def op(name, ins, outs, **kw):
        return dict({"k": "op", "op": name, "ins": ins, "outs": outs}, **kw)

    def body(steps, ret, name, params=()):
        return {"params": list(params), "steps": steps, "ret": ret, "name": name, "pnames": [f"{name}_in{k}" for k in range(len(params))],
                "onames": [f"{name}_out{k}" for k in range(len(ret))], "auto_scope": "sg_" + name, "scope": None, "ptyped": ["full"] * len(params),
                "otyped": ["full"] * len(ret), "spec": False, "ret_tuple": False}

    leaky = {"name": "fn0", "domain": "fdom0", "kind": "script", "attrs": [{"name": "alpha0", "type": "f", "default": 0.5}], "params": [1],
             "body": [op("LeakyRelu", [{"v": 1}], [2], attrs={"alpha": {"ref": "alpha0"}})], "ret": [2]}
    two = {"name": "fn0", "domain": "fdom0", "kind": "built", "typed": True, "attrs_as": "list", "attrs": [], "params": [1, 2],
           "body": [op("Add", [{"v": 1}, {"v": 2}], [3])], "ret": [3]}
    inner = {"name": "fn0", "domain": "fdom0", "kind": "script", "attrs": [], "params": [1], "body": [op("Relu", [{"v": 1}], [2])], "ret": [2]}
    outer = {"name": "fn1", "domain": "fdom1", "kind": "script", "attrs": [], "params": [1],
             "body": [{"k": "call", "fn": 0, "mode": "call", "args": [{"v": 1}], "attrs": {}, "outs": [2]}, op("Neg", [{"v": 2}], [3])], "ret": [3]}
    cases = {
        "subgraph_autonames": case(prog([
            op("Add", [{"v": 1}, {"lit": 1.0}], [2]),
            {"k": "if", "cond": {"lit": True}, "api": "subgraph", "outs": [7],
             "then": body([op("Add", [{"v": 1}, {"lit": 2.0}], [3]), op("Mul", [{"v": 3}, {"v": 2}], [4])], [4], "then"),
             "else": body([op("Identity", [{"v": 1}], [5])], [5], "else")}], [7]),
            "a = op.Add(x, 1.0); then-branch: t = op.Add(x, 2.0); return op.Mul(t, a)  ->  both Adds are named v_Add_0 / Add_node_0"),
        "inline_py_attr": case(prog([{"k": "call", "fn": 0, "mode": "inline", "args": [{"v": 1}], "attrs": {"alpha0": 0.25}, "aform": "py", "outs": [2]}], [2], [leaky]),
                               "op.call_inline(fn, x, alpha0=0.25) raises; op.call(fn, x, alpha0=0.25) works"),
        "inline_default_attr": case(prog([{"k": "call", "fn": 0, "mode": "inline", "args": [{"v": 1}], "attrs": {}, "aform": "py", "outs": [2]}], [2], [leaky]),
                                    "fn has alpha0: float = 0.5; op.call_inline(fn, x) emits LeakyRelu without alpha (ONNX default 0.01), op.call(fn, x) uses 0.5"),
        "inline_literal_arg": case(prog([{"k": "call", "fn": 0, "mode": "inline", "args": [{"v": 1}, {"lit": 2.0}], "attrs": {}, "outs": [2]}], [2], [two]),
                                   "op.call_inline(fn, x, 2.0) raises; op.call(fn, x, 2.0) promotes the literal"),
        "nested_function": case(prog([{"k": "call", "fn": 1, "mode": "call", "args": [{"v": 1}], "attrs": {}, "outs": [2]}], [2], [inner, outer]),
                                "fn1 calls fn0; op.call(fn1, x) registers only fn1 in builder.functions -> model not executable"),
        "nan_literal": case(prog([op("Add", [{"v": 1}, {"lit": "nan"}], [2]), op("Mul", [{"v": 2}, {"lit": "nan"}], [3])], [3]),
                            "op.Add(x, float('nan')) then op.Mul(t, float('nan')): ValueError initializer 'const_nan_f32' is already registered"),
        "negzero_literal": case(prog([op("Mul", [{"v": 1}, {"lit": 0.0}], [2]), op("Div", [{"v": 1}, {"lit": "-0.0"}], [3])], [3, 2]),
                                "op.Mul(x, 0.0) then op.Div(x, -0.0): the second literal re-uses const_0.0_f32 -> +-inf with the wrong sign"),
        "unnamed_tensor_operand": case(prog([op("Add", [{"v": 1}, {"tensor": optcommon.arr_to_json(np.array([1, 2, 3], np.float32)), "name": None, "as": "numpy"}], [2])], [2]),
                                       "op.Add(x, np.array([1, 2, 3], np.float32)): ValueError 'Initializer must have a name'"),
        "body_dup_return": case(prog([
            {"k": "scan", "init": [{"v": 1}], "xs": [{"v": 9}], "api": "subgraph", "omode": "int", "outs": [5, 6],
             "body": body([op("Add", [{"v": 2}, {"v": 3}], [4])], [4, 4], "scan", params=[2, 3])}], [5, 6]),
            "cumulative-sum Scan body of the tutorial returning (new_state, new_state): subgraph outputs ('scan_out1', 'scan_out1')"),
        "kw_input_after_gap": case(prog([op("Clip", [{"v": 1}], [2], kwins={"max": {"lit": 1.0}})], [2]),
                                   "op.Clip(x, max=1.0) builds Clip(x, 1.0): the bound lands in the 'min' position"),
    }
    # the Scan case needs a [N, 3] sequence input
    seq = np.arange(6, dtype=np.float32).reshape(2, 3)
    c = cases["body_dup_return"]
    c["prog"]["inputs"] = inp + [{"id": 9, "name": "x1", "via": "input"}]
    c["feeds"] = optcommon.feeds_to_json({"x0": x, "x1": seq})
    c["text"] = program_text(c["prog"])
    tree = [{"op": "new_module", "name": None}, {"op": "param", "mod": 0, "attr": "w", "named": True, "data": True},
            {"op": "new_module", "name": None}, {"op": "param", "mod": 1, "attr": "w", "named": True, "data": True},
            {"op": "new_list", "children": [0, 1], "style": "iter", "form": "list"}, {"op": "slice", "list": 2, "cut": 1, "as0": "L", "as1": "S"},
            {"op": "build", "root": 4}]
    cases["rehomed_in_unnamed_sequential"] = {"part": "tree", "history": tree, "exclude": [], "rehomed_in_seq": True,
                                              "note": "root = Sequential(*ModuleList([A(), B()])[1:]): B keeps the name '1' -> initializer '1.w', state_dict key '0.w'"}
    return cases


if __name__ == "__main__":
    import sys

    out = sys.argv[1] if len(sys.argv) > 1 else None
    for region, c in minimal_cases().items():
        v = replay(json.loads(json.dumps(c)))
        print(f"{region}: region predicate {REGIONS[region](c)}; verdicts:")
        for b, d in v:
            print(f"    {b}: {d[:200]}")
        if out:
            os.makedirs(out, exist_ok=True)
            with open(os.path.join(out, f"C18-{region}.json"), "w") as fh:
                json.dump({"property": ID, "bucket": v[0][0] if v else "", "detail": v[0][1] if v else "", "case": c}, fh, indent=1)
