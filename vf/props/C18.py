"""C18 - GraphBuilder/nn.Module graphs compute the trace; parameters named like PyTorch.

Two generated-search parts, both Hypothesis driven and both replayable from a self-contained JSON case:

(a) traced programs.  A program is a JSON list of steps (op calls with Python-literal / None / ir.tensor operands, inputs
    by keyword, explicit ``_outputs`` in every documented form, ``_domain/_version``, ``builder.opset(...)``, push/pop module
    scopes, explicit initializers, If/Loop/Scan bodies built with ``GraphBuilder.subgraph`` or ``build_graph(parent=...)``,
    calls of @script functions and ``build_function`` ir.Functions by ``call`` or ``call_inline`` with attribute arguments).
    The program is generated *by concrete execution*: every step is evaluated at once by the numpy interpreter ``Interp``
    (onnx.reference kernels per op, ONNX-spec control flow written out in Python, the documented literal-promotion rule), so
    only programs that execute are emitted and the interpreter's values are the replay oracle.  ``Driver`` performs the
    same steps on an ``onnxscript.GraphBuilder``.
(b) module trees.  A RuleBasedStateMachine applies JSON ops (new Module / ModuleList / Sequential, Parameter, setattr,
    append, extend, structural slices, iteration styles) to real onnxscript.nn objects; the terminal rule (or teardown)
    builds the graph by calling the root.
"""
from __future__ import annotations

import hashlib
import json
import os

import numpy as np
import onnx
from onnx import TensorProto, helper, numpy_helper

from vf import compare, execs, optcommon, wellformed
from vf.hyp import drive, run_machine, st
from vf.runner import Collector

ID = "C18"
LEVEL = "exploration"
RULE = (
    "(a) Traces: Hypothesis draws a program = sequence of builder steps over ~60 ONNX ops (+com.microsoft Gelu) with Python "
    "literal operands (int/float/bool scalars, lists, tuples; inf), None operands, inputs by keyword, single attributes by "
    "position, ir.tensor operands, every documented _outputs form, _domain/_version and builder.opset(), push/pop module "
    "scopes, explicit initializers, If/Loop/Scan bodies (subgraph / build_graph(parent), nesting <=2, captured outer values, "
    "typed/untyped declared outputs) and calls of generated @script functions and build_function ir.Functions (attribute "
    "parameters with/without defaults, call vs call_inline, _outputs/_prefix). Each step is executed immediately by a numpy "
    "interpreter (onnx.reference kernels; spec control flow; documented literal promotion rule) - only executing programs are "
    "kept and those values are the oracle. Oracle: the GraphBuilder accepts the trace; the serialized model passes "
    "vf/wellformed (+onnx.checker); all value names and all node names are unique over graph+subgraphs; inferred static "
    "types/shapes agree with the replay; onnxruntime / onnx.reference outputs == numpy replay on the drawn input; the twin "
    "model with every call<->call_inline flipped gives the same outputs. Non-trivial = trace has a literal operand AND a "
    "subgraph or function call; distinct by program hash. "
    "(b) Trees: a RuleBasedStateMachine applies ops (new Module/ModuleList/Sequential, add Parameter named-as-attribute or "
    "unnamed, setattr child, constructor/append/extend, structural slice of a detached list, iteration by for/index/negative "
    "index/slices, call-twice) to real onnxscript.nn objects, height<=4, root named or unnamed; terminal rule calls the root on "
    "a GraphBuilder. Oracle: keys(state_dict)==keys(named_parameters)==the attribute/index path of every parameter; "
    "graph.initializers holds exactly one entry per parameter, it IS the parameter and is named root.name+'.'+key (no prefix "
    "for an unnamed root); value/node names unique; model valid; running it gives x + sum of every parameter times the number "
    "of calls of its module (parameters are distinct powers of 3). Non-trivial = height>=2 and a container; distinct by tree hash.")
ASSUMPTIONS = [
    "onnxruntime CPU (optimisations off) and onnx.reference kernels implement ONNX operator semantics",
    "onnx.checker + vf/wellformed.py define validity; onnx.defs schemas define formal input order and type variables",
    "onnx_ir (site-packages) construction and serialization of ir.Model/ir.Graph is correct",
    "the numpy interpreter in this module encodes If/Loop/Scan/function-call semantics of the ONNX spec and the literal "
    "promotion rule of docs/tutorial/builder/graph_builder.md (cast to the dtype bound to the shared type variable, else "
    "int->INT64, float->FLOAT, bool->BOOL)",
    "the harness, like the tutorial's Setup section, declares every opset import (function domains, com.microsoft) on the "
    "ir.Graph up front, assembles ir.Model(graph, functions=builder.functions.values()) and types graph outputs the builder "
    "left untyped",
]
FLOOR = {"quick": 150, "thorough": 2000}
TIMEOUT = {"quick": 1500, "thorough": 5 * 3600}

# Named regions of confirmed findings the generator stays out of (see REGIONS at the bottom for the predicates).
# VERIF_C18_EXCLUDE="" (empty) switches all exclusions off; VERIF_C18_EXCLUDE="a,b" selects some.
EXCLUDE = {
    "subgraph_autonames",       # bodies without their own module scope: auto names v_<Op>_<n>/<Op>_node_<n> repeat outer names
    "inline_py_attr",           # call_inline(fn, x, alpha=0.5) with a plain Python attribute value raises
    "inline_default_attr",      # call_inline without an attribute that has a default: the default is dropped
    "inline_literal_arg",       # call_inline(fn, x, 2.0): literal operand not promoted (call() does promote)
    "nested_function",          # call()/call_inline() of a script function that calls another: callee never registered
    "nan_literal",              # two NaN literals: ValueError initializer 'const_nan_f32' already registered
    "negzero_literal",          # -0.0 shares the cache entry of 0.0 (C12 finding) -> wrong sign
    "unnamed_tensor_operand",   # numpy array / unnamed ir.tensor operand: 'Initializer must have a name'
    "body_dup_return",          # body returning one value for two declared outputs -> duplicate subgraph outputs
}
_env_ex = os.environ.get("VERIF_C18_EXCLUDE")
if _env_ex is not None:
    EXCLUDE = {x for x in _env_ex.split(",") if x}


def _hash(obj):
    return hashlib.sha1(json.dumps(obj, sort_keys=True, default=str).encode()).hexdigest()[:16]


def _frame(e):
    return optcommon.innermost_frame(e)


class CutError(Exception):
    """An exception raised by the code under test on an in-domain call."""

    def __init__(self, api, exc):
        super().__init__(f"{api}: {type(exc).__name__}: {str(exc)[:300]}")
        self.api, self.exc = api, exc

    def bucket(self):
        return f"raise:{self.api}:{_frame(self.exc)}"


# =====================================================================================================================
# shared model checks
# =====================================================================================================================
def name_problems(model):
    """Uniqueness of value names and node names over the main graph and all nested subgraphs (property clause
    'all value and node names are unique').  Returns [(bucket, detail)]."""
    out = []
    vals, nodes = {}, {}

    def walk(g, path, outer):
        local = set()

        def define(n, what):
            if not n:
                return
            if n in local:
                out.append(("names:value:dup-in-graph", f"{path}: value '{n}' defined twice ({what})"))
            elif n in outer:
                out.append(("names:value:shadows-outer", f"{path}: value '{n}' ({what}) repeats an enclosing-scope value name"))
            elif n in vals:
                out.append(("names:value:dup-across-subgraphs", f"{path}: value '{n}' ({what}) also defined in {vals[n]}"))
            local.add(n)
            vals.setdefault(n, path)

        ins = {i.name for i in g.input}
        for i in g.input:
            define(i.name, "input")
        for t in g.initializer:
            if t.name not in ins:
                define(t.name, "initializer")
        for k, nd in enumerate(g.node):
            if nd.name:
                if nd.name in nodes:
                    kind = "dup-in-graph" if nodes[nd.name] == path else "dup-across-graphs"
                    out.append((f"names:node:{kind}", f"{path}: node name '{nd.name}' ({nd.op_type}) also used in {nodes[nd.name]}"))
                nodes.setdefault(nd.name, path)
            else:
                out.append(("names:node:empty", f"{path}: node #{k} {nd.op_type} has no name"))
            for a in nd.attribute:
                subs = [a.g] if a.type == onnx.AttributeProto.GRAPH else list(a.graphs)
                for sg in subs:
                    walk(sg, f"{path}/{nd.op_type}#{k}.{a.name}", outer | local)
            for y in nd.output:
                define(y, f"output of {nd.op_type}#{k}")

    walk(model.graph, "graph", set())
    seen = set()
    res = []
    for b, d in out:  # one detail per bucket is enough
        if b not in seen:
            seen.add(b)
            res.append((b, d))
    return res


def run_both(model, feeds, use_ref=True):
    a = execs.run_ort(model, feeds)
    b = execs.run_ref(model, feeds) if use_ref else ("err", "reference evaluator not used for this case")
    return a, b


def judge_outputs(tag, a, b, expected, scale):
    """Three-way decision between ort (a), reference (b) and the numpy replay (expected).
    Returns (verdict, bucket_suffix, detail)."""
    scale = max(scale, 1.0)
    tol = dict(rel=2e-5, abs_=2e-6 * scale)
    if a[0] != "ok" and b[0] != "ok":
        return ("violation", f"not-executable:{tag}", f"ort: {a[1]} | ref: {b[1]}")
    ca = compare.same_outputs(expected, a[1], **tol) if a[0] == "ok" else None
    cb = compare.same_outputs(expected, b[1], **tol) if b[0] == "ok" else None
    comps = [c for c, r in ((ca, a), (cb, b)) if r[0] == "ok"]
    if all(c is None for c in comps):
        return ("ok", "", "")
    if all(c is not None for c in comps):
        return ("violation", f"values:{tag}", f"replay vs ort: {ca} | replay vs ref: {cb} (ort {a[0]}, ref {b[0]})")
    return ("split", "", f"replay vs ort: {ca} | replay vs ref: {cb}")


# =====================================================================================================================
# part (b): module trees
# =====================================================================================================================
ATTRS = ["a", "b", "c", "d", "layers", "blocks", "fc", "norm"]
PATTRS = ["w", "bias", "scale", "g"]


class TreeSim:
    """Applies JSON ops to real onnxscript.nn objects and keeps an independent structural record (the spec)."""

    MAXH = 4

    def __init__(self):
        from onnxscript import nn

        self.nn = nn
        self.nodes = []   # dict(kind M|L|S, obj, parent, key, kids:list[(key,id)], params:list[(attr,pid)], name, style, twice, dead)
        self.params = []  # dict(obj, value)
        self.history = []
        self.done = None

        class Node(nn.Module):
            def forward(self, op, x):
                for p in self._parameters.values():  # noqa: SLF001
                    x = op.Add(x, p)
                for child in self._modules.values():  # noqa: SLF001
                    x = call_child(op, child, x)
                return x

        def call_child(op, child, x):
            reps = 2 if getattr(child, "_vf_twice", False) else 1
            for _ in range(reps):
                if isinstance(child, nn.Sequential):
                    x = child(op, x)
                elif isinstance(child, nn.ModuleList):
                    for m in iterate(child):
                        x = call_child(op, m, x)
                else:
                    x = child(op, x)
            return x

        def iterate(ml):
            style = getattr(ml, "_vf_style", "iter")
            n = len(ml)
            if style == "index":
                return [ml[i] for i in range(n)]
            if style == "negindex":
                return [ml[i - n] for i in range(n)]
            if style == "slices":
                k = n // 2
                return list(ml[:k]) + list(ml[k:])
            if style == "slice_step":
                return list(ml[::2]) + list(ml[1::2]) if n else []
            return list(ml)

        self.Node = Node

    # ---- helpers over the spec
    def height(self, i):
        n = self.nodes[i]
        return 0 if not n["kids"] else 1 + max(self.height(k) for _, k in n["kids"])

    def depth(self, i):
        d = 0
        while self.nodes[i]["parent"] is not None:
            i = self.nodes[i]["parent"]
            d += 1
        return d

    def root_of(self, i):
        while self.nodes[i]["parent"] is not None:
            i = self.nodes[i]["parent"]
        return i

    def detached(self, kinds="MLS", unnamed_only=False):
        return [i for i, n in enumerate(self.nodes) if n["parent"] is None and not n["dead"] and n["kind"] in kinds
                and (not unnamed_only or n["name"] is None)]

    def alive(self, kinds="MLS"):
        return [i for i, n in enumerate(self.nodes) if not n["dead"] and n["kind"] in kinds]

    def _new(self, kind, obj, name=None):
        self.nodes.append(dict(kind=kind, obj=obj, parent=None, key=None, kids=[], params=[], name=name, style="iter", twice=False, dead=False))
        return len(self.nodes) - 1

    def can_attach(self, parent, child):
        if self.nodes[child]["parent"] is not None or self.nodes[child]["dead"] or self.nodes[parent]["dead"]:
            return False
        if self.root_of(parent) == child:
            return False
        return self.depth(parent) + 1 + self.height(child) <= self.MAXH

    def _link(self, parent, child, key):
        self.nodes[child]["parent"] = parent
        self.nodes[child]["key"] = key
        self.nodes[parent]["kids"].append((key, child))

    # ---- ops (each returns True when applied; invalid combinations are no-ops so that any history replays)
    def apply(self, o):
        for k in ("parent", "child", "mod", "list"):
            if k in o and not (isinstance(o[k], int) and 0 <= o[k] < len(self.nodes)):
                return False
        for k in ("children",):
            if k in o:
                o[k] = [c for c in o[k] if isinstance(c, int) and 0 <= c < len(self.nodes)]
        ok = getattr(self, "op_" + o["op"])(o)
        if ok:
            self.history.append(o)
        return ok

    def op_new_module(self, o):
        self._new("M", self.Node(o.get("name")), o.get("name"))
        return True

    def op_new_list(self, o):
        kids = list(dict.fromkeys(o.get("children", [])))
        kids = [k for k in kids if k in self.detached("MLS", unnamed_only=True)]
        if kids and 1 + max(self.height(k) for k in kids) > self.MAXH:
            return False
        o["children"] = kids
        form = o.get("form", "list")
        if not kids and form == "none":
            obj = self.nn.ModuleList()
        else:
            obj = self.nn.ModuleList([self.nodes[k]["obj"] for k in kids])
        i = self._new("L", obj)
        self.nodes[i]["style"] = o.get("style", "iter")
        obj._vf_style = self.nodes[i]["style"]  # noqa: SLF001
        for j, k in enumerate(kids):
            self._link(i, k, str(j))
        return True

    def op_new_seq(self, o):
        kids = list(dict.fromkeys(o.get("children", [])))
        kids = [k for k in kids if k in self.detached("MS", unnamed_only=True)]
        if kids and 1 + max(self.height(k) for k in kids) > self.MAXH:
            return False
        o["children"] = kids
        i = self._new("S", self.nn.Sequential(*[self.nodes[k]["obj"] for k in kids]))
        for j, k in enumerate(kids):
            self._link(i, k, str(j))
        return True

    def op_attach(self, o):
        p, c = o["parent"], o["child"]
        if p >= len(self.nodes) or c >= len(self.nodes) or self.nodes[p]["kind"] != "M" or not self.can_attach(p, c):
            return False
        if self.nodes[c]["name"] == "":
            return False                             # Module(name="") can only be a root
        attr = self.nodes[c]["name"] or o["attr"]   # an explicit name is only claimed when it equals the attribute name
        used = {k for k, _ in self.nodes[p]["kids"]} | {a for a, _ in self.nodes[p]["params"]}
        if attr in used:
            return False
        o["attr"] = attr
        setattr(self.nodes[p]["obj"], attr, self.nodes[c]["obj"])
        self._link(p, c, attr)
        if o.get("twice"):
            self.nodes[c]["twice"] = True
            self.nodes[c]["obj"]._vf_twice = True  # noqa: SLF001
        return True

    def _appendable(self, p, c):
        if p >= len(self.nodes) or c >= len(self.nodes):
            return False
        pk, ck = self.nodes[p]["kind"], self.nodes[c]["kind"]
        if pk not in "LS" or (pk == "S" and ck == "L"):   # a ModuleList is not callable, so it cannot sit in a Sequential
            return False
        return self.nodes[c]["name"] is None and self.can_attach(p, c)

    def op_append(self, o):
        p, c = o["parent"], o["child"]
        if not self._appendable(p, c):
            return False
        self.nodes[p]["obj"].append(self.nodes[c]["obj"])
        self._link(p, c, str(len(self.nodes[p]["kids"])))
        return True

    def op_extend(self, o):
        p = o["parent"]
        kids = []
        for c in dict.fromkeys(o["children"]):
            if self._appendable(p, c) and c != p:
                kids.append(c)
        if not kids:
            return False
        # all must fit together
        o["children"] = kids
        self.nodes[p]["obj"].extend([self.nodes[c]["obj"] for c in kids])
        for c in kids:
            self._link(p, c, str(len(self.nodes[p]["kids"])))
        return True

    def op_param(self, o):
        m = o["mod"]
        if m >= len(self.nodes) or self.nodes[m]["kind"] != "M" or self.nodes[m]["dead"]:
            return False
        attr = o["attr"]
        used = {k for k, _ in self.nodes[m]["kids"]} | {a for a, _ in self.nodes[m]["params"]}
        if attr in used or len(self.params) >= 30:
            return False
        import onnx_ir as ir

        value = float(3 ** len(self.params))
        data = ir.tensor(np.array([value, -value], dtype=np.float64)) if o.get("data", True) else None
        p = self.nn.Parameter([2], dtype=ir.DataType.DOUBLE, name=attr if o.get("named") else None, data=data)
        setattr(self.nodes[m]["obj"], attr, p)
        self.params.append(dict(obj=p, value=value, data=data is not None))
        self.nodes[m]["params"].append((attr, len(self.params) - 1))
        return True

    def op_slice(self, o):
        """Structural slice of a *detached, never attached* ModuleList: the pieces replace it (old list is retired)."""
        i = o["list"]
        if i >= len(self.nodes) or self.nodes[i]["kind"] != "L" or i not in self.detached("L"):
            return False
        kids = self.nodes[i]["kids"]
        if not kids:
            return False
        cut = o["cut"] % (len(kids) + 1)
        o["cut"] = cut
        old = self.nodes[i]["obj"]
        pieces = [(old[:cut], kids[:cut], o.get("as0", "L")), (old[cut:], kids[cut:], o.get("as1", "L"))]
        self.nodes[i]["dead"] = True
        for sl, ks, as_ in pieces:
            if not ks:
                continue
            if as_ == "S" and all(self.nodes[k]["kind"] in "MS" for _, k in ks):
                j = self._new("S", self.nn.Sequential(*sl))
            else:
                j = self._new("L", sl)
                self.nodes[j]["style"] = self.nodes[i]["style"]
                sl._vf_style = self.nodes[j]["style"]  # noqa: SLF001
            for n, (_, k) in enumerate(ks):
                self.nodes[k]["parent"] = None
                self._link(j, k, str(n))
        return True

    def op_build(self, o):
        roots = [i for i in self.detached("MS") if self.nodes[i]["kind"] == "M" or self.nodes[i]["kids"]]
        if not roots:
            return False
        r = o.get("root")
        if r not in roots:
            r = max(roots, key=lambda i: (self.size(i), -i))
            if "pick" in o:
                r = roots[o["pick"] % len(roots)]
        o["root"] = r
        o.pop("pick", None)
        self.done = r
        return True

    def size(self, i):
        return 1 + len(self.nodes[i]["params"]) + sum(self.size(k) for _, k in self.nodes[i]["kids"])

    # ---- spec-side expectations
    def spec_paths(self, i, prefix=""):
        """{dotted attribute/index path: param id} straight from the recorded structure."""
        out = {}
        n = self.nodes[i]
        for attr, pid in n["params"]:
            out[prefix + attr] = pid
        for key, k in n["kids"]:
            out.update(self.spec_paths(k, prefix + key + "."))
        return out

    def spec_total(self, i):
        n = self.nodes[i]
        t = sum(self.params[pid]["value"] for _, pid in n["params"])
        for _, k in n["kids"]:
            t += (2 if self.nodes[k]["twice"] else 1) * self.spec_total(k)
        return t

    def text(self, i, ind=0):
        n = self.nodes[i]
        kind = {"M": "Module", "L": "ModuleList", "S": "Sequential"}[n["kind"]]
        extra = (f" name={n['name']!r}" if n["name"] else "") + (f" iter={n['style']}" if n["kind"] == "L" else "") + (" x2" if n["twice"] else "")
        s = "  " * ind + f"({n['key']}) " * (n["key"] is not None) + kind + extra + "".join(f" P:{a}" for a, _ in n["params"]) + "\n"
        return s + "".join(self.text(k, ind + 1) for _, k in n["kids"])

    def shape_sig(self, i):
        n = self.nodes[i]
        return [n["kind"], n["key"], bool(n["name"]), n["style"] if n["kind"] == "L" else "", n["twice"], [a for a, _ in n["params"]],
                [self.shape_sig(k) for _, k in n["kids"]]]


def tree_finish(sim):
    """Build the graph by calling the root and evaluate the oracle.  Returns (verdicts, info)."""
    import onnx_ir as ir
    from onnxscript._internal import builder as B

    r = sim.done
    root = sim.nodes[r]["obj"]
    info = dict(height=sim.height(r), size=sim.size(r), container=_has_container(sim, r), nparams=len(sim.spec_paths(r)),
                kinds=sorted({sim.nodes[i]["kind"] for i in _subtree(sim, r)}), root_named=bool(sim.nodes[r]["name"]), root_kind=sim.nodes[r]["kind"])
    verdicts = []
    spec = sim.spec_paths(r)
    try:
        named = dict(root.named_parameters())
        sd = root.state_dict()
    except Exception as e:  # noqa: BLE001
        return [(f"raise:named_parameters:{_frame(e)}", f"{type(e).__name__}: {e}")], info
    pid_of = {id(p["obj"]): i for i, p in enumerate(sim.params)}
    if set(named) != set(sd):
        verdicts.append(("keys:state_dict!=named_parameters", f"state_dict {sorted(sd)} vs named_parameters {sorted(named)}"))
    got_paths = {k: pid_of.get(id(v)) for k, v in named.items()}
    if got_paths != spec:
        verdicts.append(("keys:named_parameters!=attribute-path", f"named_parameters {sorted(got_paths.items())} vs structure {sorted(spec.items())}"))

    graph = ir.Graph(name="tree", inputs=[], outputs=[], nodes=[], opset_imports={"": 21})
    gb = B.GraphBuilder(graph)
    x = gb.input("x", ir.DataType.DOUBLE, [2])
    try:
        y = root(gb.op, x)
    except Exception as e:  # noqa: BLE001
        verdicts.append((f"raise:Module.__call__:{_frame(e)}", f"{type(e).__name__}: {str(e)[:300]}"))
        return verdicts, info
    prefix = (root.name + ".") if root.name else ""
    expected = {prefix + k: pid for k, pid in spec.items()}
    inits = dict(graph.initializers)
    param_inits = {k: v for k, v in inits.items() if isinstance(v, sim.nn.Parameter)}
    got = {k: pid_of.get(id(v)) for k, v in param_inits.items()}
    if got != expected:
        missing = sorted(set(expected) - set(got))
        extra = sorted(set(got) - set(expected))
        swapped = sorted(k for k in set(got) & set(expected) if got[k] != expected[k])
        kind = "missing+extra" if missing and extra else "missing" if missing else "extra" if extra else "wrong-object"
        if len(got) < len(expected):
            kind += ":collision"   # two parameters realised under one name: one overwrote the other
        verdicts.append((f"initializers:{kind}", f"missing {missing} extra {extra} wrong-object {swapped}; root.name={root.name!r}; "
                         f"initializers={sorted(inits)}; expected={sorted(expected)}"))
    for k, v in param_inits.items():
        if v.name != k:
            verdicts.append(("initializers:key!=value.name", f"initializers[{k!r}].name == {v.name!r}"))
    realised = sum(1 for p in root.parameters() if p in list(param_inits.values()))
    if realised != len(set(map(id, root.parameters()))):
        pass  # covered by 'missing'
    # numerical check: every parameter contributes exactly (number of calls) times
    if all(sim.params[pid]["data"] for pid in spec.values()) and isinstance(y, ir.Value):
        gb.add_output(y, "y")
        if y.type is None:
            y.type = ir.TensorType(ir.DataType.DOUBLE)
        if y.shape is None:
            y.shape = ir.Shape([2])
        try:
            mp = ir.serde.serialize_model(ir.Model(graph, ir_version=10))
        except Exception as e:  # noqa: BLE001
            verdicts.append((f"raise:serialize:{_frame(e)}", f"{type(e).__name__}: {str(e)[:300]}"))
            return verdicts, info
        verdicts += name_problems(mp)
        for kind, msg in wellformed.check_model(mp)[:2]:
            verdicts.append((f"invalid:tree:{kind}", msg))
        total = sim.spec_total(r)
        x0 = np.array([0.5, -1.0], dtype=np.float64)
        exp = [x0 + np.array([total, -total], dtype=np.float64)]
        a, b = run_both(mp, {"x": x0})
        v, suffix, detail = judge_outputs("tree", a, b, exp, abs(total))
        info["verdict"] = v
        info["ran"] = True
        if v == "violation":
            verdicts.append((suffix, detail + f"; expected {exp[0].tolist()}"))
    return _dedup(verdicts), info


def _dedup(verdicts):
    seen, out = set(), []
    for b, d in verdicts:
        if b not in seen:
            seen.add(b)
            out.append((b, d))
    return out


def _subtree(sim, i):
    out = [i]
    for _, k in sim.nodes[i]["kids"]:
        out += _subtree(sim, k)
    return out


def _has_container(sim, i):
    return any(sim.nodes[j]["kind"] in "LS" for j in _subtree(sim, i))


def tree_record(col, sim, verdicts, info):
    r = sim.done
    sig = [sim.shape_sig(r), sim.nodes[r]["name"]]
    nontrivial = info["height"] >= 2 and info["container"]
    classes = [f"tree:height={info['height']}", f"tree:root={info['root_kind']}:{'named' if info['root_named'] else 'unnamed'}",
               f"tree:params={min(info['nparams'], 8)}{'+' if info['nparams'] > 8 else ''}"]
    classes += [f"tree:has:{k}" for k in info["kinds"]]
    ops = {o["op"] for o in sim.history}
    classes += [f"tree:op:{o}" for o in sorted(ops)]
    styles = {sim.nodes[i]["style"] for i in _subtree(sim, r) if sim.nodes[i]["kind"] == "L"}
    classes += [f"tree:iter:{s}" for s in sorted(styles)]
    if any(sim.nodes[i]["twice"] for i in _subtree(sim, r)):
        classes.append("tree:called-twice")
    if info.get("ran"):
        classes.append("tree:executed:" + info.get("verdict", "?"))
    if _nested_containers(sim, r):
        classes.append("tree:container-in-container")
    col.case(("tree", _hash(sig)), nontrivial, classes, sample={"part": "tree", "root_name": sim.nodes[r]["name"], "tree": sim.text(r)})
    for bucket, detail in verdicts:
        col.violation("tree:" + bucket, detail, {"part": "tree", "history": sim.history, "text": sim.text(r)}, size=len(sim.history))


def _nested_containers(sim, r):
    for i in _subtree(sim, r):
        if sim.nodes[i]["kind"] in "LS" and any(sim.nodes[k]["kind"] in "LS" for _, k in sim.nodes[i]["kids"]):
            return True
    return False


def tree_replay(case):
    sim = TreeSim()
    for o in case["history"]:
        sim.apply(dict(o))
    if sim.done is None:
        return []
    verdicts, _ = tree_finish(sim)
    return [("tree:" + b, d) for b, d in verdicts]


def make_tree_machine(col):
    from hypothesis.stateful import RuleBasedStateMachine, precondition, rule

    ints = st.integers(0, 1000)

    class TreeMachine(RuleBasedStateMachine):
        def __init__(self):
            super().__init__()
            self.sim = TreeSim()

        def _pick(self, lst, k):
            return lst[k % len(lst)] if lst else None

        @precondition(lambda self: self.sim.done is None)
        @rule(name=st.sampled_from([None, None, None, "a", "b", "model", "layers", ""]))
        def new_module(self, name):
            self.sim.apply({"op": "new_module", "name": name})

        @precondition(lambda self: self.sim.done is None)
        @rule(ks=st.lists(ints, max_size=3), style=st.sampled_from(["iter", "iter", "index", "negindex", "slices", "slice_step"]),
              form=st.sampled_from(["list", "list", "none"]))
        def new_list(self, ks, style, form):
            det = self.sim.detached("MLS", unnamed_only=True)
            kids = [self._pick(det, k) for k in ks] if det else []
            self.sim.apply({"op": "new_list", "children": kids, "style": style, "form": form})

        @precondition(lambda self: self.sim.done is None)
        @rule(ks=st.lists(ints, max_size=3))
        def new_seq(self, ks):
            det = self.sim.detached("MS", unnamed_only=True)
            kids = [self._pick(det, k) for k in ks] if det else []
            self.sim.apply({"op": "new_seq", "children": kids})

        @precondition(lambda self: self.sim.done is None and self.sim.alive("M"))
        @rule(m=ints, attr=st.sampled_from(PATTRS), named=st.booleans(), data=st.sampled_from([True, True, True, True, False]))
        def param(self, m, attr, named, data):
            self.sim.apply({"op": "param", "mod": self._pick(self.sim.alive("M"), m), "attr": attr, "named": named, "data": data})

        @precondition(lambda self: self.sim.done is None and self.sim.alive("M") and self.sim.detached())
        @rule(p=ints, c=ints, attr=st.sampled_from(ATTRS), twice=st.sampled_from([False] * 7 + [True]))
        def attach(self, p, c, attr, twice):
            self.sim.apply({"op": "attach", "parent": self._pick(self.sim.alive("M"), p), "child": self._pick(self.sim.detached(), c), "attr": attr, "twice": twice})

        @precondition(lambda self: self.sim.done is None and self.sim.alive("LS") and self.sim.detached())
        @rule(p=ints, c=ints)
        def append(self, p, c):
            self.sim.apply({"op": "append", "parent": self._pick(self.sim.alive("LS"), p), "child": self._pick(self.sim.detached(unnamed_only=True) or [0], c)})

        @precondition(lambda self: self.sim.done is None and self.sim.alive("LS") and self.sim.detached())
        @rule(p=ints, cs=st.lists(ints, min_size=1, max_size=3))
        def extend(self, p, cs):
            det = self.sim.detached(unnamed_only=True) or [0]
            self.sim.apply({"op": "extend", "parent": self._pick(self.sim.alive("LS"), p), "children": [self._pick(det, c) for c in cs]})

        @precondition(lambda self: self.sim.done is None and self.sim.detached("L"))
        @rule(i=ints, cut=ints, as0=st.sampled_from(["L", "L", "S"]), as1=st.sampled_from(["L", "L", "S"]))
        def slice_(self, i, cut, as0, as1):
            self.sim.apply({"op": "slice", "list": self._pick(self.sim.detached("L"), i), "cut": cut, "as0": as0, "as1": as1})

        @precondition(lambda self: self.sim.done is None and len(self.sim.nodes) >= 3)
        @rule(pick=ints, biggest=st.booleans())
        def build(self, pick, biggest):
            o = {"op": "build"}
            if not biggest:
                o["pick"] = pick
            self.sim.apply(o)

        def teardown(self):
            sim = self.sim
            if sim.done is None:
                sim.apply({"op": "build"})
            if sim.done is None:
                col.skip("tree:no-buildable-root")
                return
            verdicts, info = tree_finish(sim)
            tree_record(col, sim, verdicts, info)

    return TreeMachine


# =====================================================================================================================
# runner interface
# =====================================================================================================================
def plan(tier, seed, budget):
    only = os.environ.get("VERIF_ONLY", "")
    specs = []
    if tier == "quick":
        nt, ntree, shards_t, shards_tree = 160, 500, 11, 5
    else:
        nt, ntree, shards_t, shards_tree = 5000, 15000, 12, 4
    if "tree" not in only:
        for i in range(shards_t):
            specs.append({"part": "trace", "n": max(1, int(nt * budget))})
    if "trace" not in only:
        for i in range(shards_tree):
            specs.append({"part": "tree", "n": max(1, int(ntree * budget))})
    return specs


def run_shard(spec):
    col = Collector()
    if spec["part"] == "tree":
        run_machine(make_tree_machine(col), spec["n"], 30, spec["seed"])
    else:
        run_traces(col, spec)
    return col.result()


def replay(case):
    if case.get("part") == "tree":
        return tree_replay(case)
    return trace_replay(case)
