"""C03 - optimize() never changes what a model computes."""
from __future__ import annotations

from vf import compare, corpus, modelgen, optcommon, wellformed
from vf.hyp import drive, st
from vf.runner import Collector

ID = "C03"
LEVEL = "exploration"
RULE = ("(a) Hypothesis-generated checker-valid ONNX models (typed random DAGs by concrete execution over ~90 ops, constants in "
        "every form, shape chains, Cast chains, If/Loop capturing outer values, sequences, Dropout forms, zero-size tensors, "
        "model-local functions with attribute references, planted instances/near-misses of shipped rewrite rules) and (b) "
        "lifted ONNX backend corpus models (inputs turned into Constant/initializer, wrapped in If/function) with recorded "
        "expected outputs; x >=3 inputs (sample + drawn, incl. edge values) x option tuples x API {optimize, optimize_ir, "
        "fold_constants, remove_unused_nodes, rewrite} x entry {proto, ir}. Oracle: onnxruntime (opt off) and onnx.reference "
        "before vs after per the decision table of DESIGN 1.4. Non-trivial = the transformation changed the node multiset; "
        "distinct by (model hash, options).")
ASSUMPTIONS = ["onnxruntime CPU (graph optimisations disabled) and onnx.reference implement ONNX semantics; where they disagree on "
               "the source model the case is dropped", "float comparison: 8 eps relative + 16*nodes*eps*S absolute, S = largest "
               "intermediate magnitude of the source run; -0.0 == +0.0"]
FLOOR = {"quick": 300, "thorough": 3000}
TIMEOUT = {"quick": 1500, "thorough": 5 * 3600}

CFG = {"overridable": False, "zero_dims": True, "value_info": True, "max_nodes": 12}


def _cfg():
    from vf.rulehosts import planters

    c = dict(CFG)
    c["extra_generators"] = planters()
    c["extra_weight"] = 3
    return c


def plan(tier, seed, budget):
    n = int((3200 if tier == "quick" else 160000) * budget)
    shards = 16 if tier == "quick" else 64
    specs = [{"n": max(1, n // shards), "kind": "gen"} for _ in range(shards - 4)]
    nc = int((400 if tier == "quick" else 12000) * budget)
    specs += [{"n": max(1, nc // 4), "kind": "corpus"} for _ in range(4)]
    return specs


def strategy():
    return st.tuples(optcommon.option_tuples(), modelgen.models(_cfg()))


def diff_key(before, after):
    b, a = optcommon.op_multiset(before), optcommon.op_multiset(after)
    removed = sorted({k[1] for k in b if b[k] > a.get(k, 0)})
    added = sorted({k[1] for k in a if a[k] > b.get(k, 0)} - {"Constant"})
    return "-" + ",".join(removed[:4]) + "+" + ",".join(added[:3])


def check(model, o, feeds_list, expected=None):
    verdicts, info = [], {}
    r = optcommon.apply_api(model, o)
    if r[0] == "raise":
        info["raised"] = True  # totality is C04's business; recorded, not reported here
        return verdicts, info
    new = r[1]
    info["changed"] = optcommon.folded_or_rewritten(model, new)
    src = compare.Source(model)
    v, d = compare.decide(src, new, feeds_list)
    if v.startswith("violation"):
        # an input (e.g. a run-time Reshape target fed as a graph input) may make the SOURCE produce shapes that contradict the static
        # shapes the model itself declares (value_info / outputs): such an input is outside the model's contract - transformations may
        # rely on declared shapes (same rule as C04's override tuples and C09's bindings); the verdict is taken on the remaining inputs
        from vf.props.C04 import _respects_declared_shapes

        kept = [f for f in feeds_list if _respects_declared_shapes(src, model, f)]
        if len(kept) != len(feeds_list):
            info["feeds_contradicting_declared_shapes"] = len(feeds_list) - len(kept)
            v, d = compare.decide(src, new, kept) if kept else ("skip_source_fails", "every input contradicts the declared shapes")
    info["verdict"] = v
    if v.startswith("violation"):
        ortonly = ":single-runtime" if ("ref: None" in d or "ort: None" in d) else ""
        verdicts.append((f"{v}:{diff_key(model, new)}{ortonly}", d))
    if expected is not None and not verdicts:
        # recorded expected outputs of the corpus case: the transformed model must still reproduce them
        from vf import execs

        got = execs.run_ort(new, feeds_list[0])
        base = execs.run_ort(model, feeds_list[0])
        if base[0] == "ok" and compare.same_outputs(base[1], expected, rel=1e-3, abs_=1e-5) is None:
            info["expected_checked"] = True
            if got[0] != "ok":
                # same decision table as above: if the other runtime runs the result and reproduces the recorded outputs, the runtimes are
                # split on the RESULT (e.g. ORT's static shape inference rejects a [1]-shaped Range bound that it accepted while the
                # shape was hidden behind an If) - inconclusive, not a violation
                alt = execs.run_ref(new, feeds_list[0])
                if alt[0] == "ok" and compare.same_outputs(alt[1], expected, rel=1e-3, abs_=1e-5) is None:
                    info["corpus_runtime_split_on_result"] = True
                else:
                    verdicts.append((f"corpus_not_executable:{diff_key(model, new)}", got[1]))
            else:
                dd = compare.same_outputs(got[1], expected, rel=1e-3, abs_=1e-5)
                if dd:
                    verdicts.append((f"corpus_expected_mismatch:{diff_key(model, new)}", dd))
    return verdicts, info


def case_json(model, o, feeds_list, expected=None, origin=None):
    c = {"model": optcommon.model_to_json(model), "opts": o, "text": modelgen.model_text(model, 4000),
         "feeds": [optcommon.feeds_to_json(f) for f in feeds_list]}
    if expected is not None:
        c["expected"] = [optcommon.arr_to_json(e) for e in expected]
    if origin:
        c["origin"] = origin
    return c


def run_shard(spec):
    col = Collector()
    if spec.get("kind") == "corpus":
        return _run_corpus(spec, col)

    def body(case):
        o, gm = case
        seeds = gm.seeds()
        if wellformed.check_model(gm.model):
            col.skip("generator_invalid")
            return
        feeds_list = [gm.sample_feeds] + [gm.feeds(s) for s in seeds]
        verdicts, info = check(gm.model, o, feeds_list)
        if info.get("raised"):
            col.skip("api_raised(see C04)")
        feats = set(gm.features)
        classes = [f for f in feats if not f.startswith(("op:", "in:", "const:"))] + ["api:" + o["api"], "verdict:" + str(info.get("verdict"))]
        key = (modelgen.model_hash(gm.model), sorted(o.items()))
        col.case(key, bool(info.get("changed")), classes, sample={"options": o, "model": modelgen.model_text(gm.model, 1200)})
        for bucket, detail in verdicts:
            col.violation(bucket, detail, case_json(gm.model, o, feeds_list), size=gm.n_nodes)

    drive(strategy(), body, spec["n"], spec["seed"])
    return col.result()


def _run_corpus(spec, col):
    def body(case):
        o, lifted = case
        if lifted is None:
            col.skip("corpus_case_unusable")
            return
        model, feeds, expected, origin, lifts = lifted
        verdicts, info = check(model, o, [feeds], expected)
        if info.get("raised"):
            col.skip("api_raised(see C04)")
        key = (modelgen.model_hash(model), sorted(o.items()))
        classes = ["corpus"] + ["lift:" + x for x in lifts] + ["verdict:" + str(info.get("verdict"))]
        if info.get("expected_checked"):
            classes.append("expected_outputs_checked")
        col.case(key, bool(info.get("changed")), classes, sample={"options": o, "origin": origin, "lifts": lifts})
        for bucket, detail in verdicts:
            col.violation(bucket, detail, case_json(model, o, [feeds], expected, origin), size=len(model.graph.node))

    drive(st.tuples(optcommon.option_tuples(), corpus.lifted_cases()), body, spec["n"], spec["seed"])
    return col.result()


def replay(case):
    model = optcommon.model_from_json(case["model"])
    feeds = [optcommon.feeds_from_json(f) for f in case["feeds"]]
    expected = [optcommon.arr_from_json(e) for e in case["expected"]] if "expected" in case else None
    verdicts, _ = check(model, case["opts"], feeds, expected)
    return verdicts


from vf.known_regions import REGIONS  # noqa: E402
