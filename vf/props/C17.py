"""C17 - generated opset classes mirror the ONNX operator schemas exactly.

Units (finite, enumerated from the running onnx + onnxscript; sharded round-robin):
  opset   (D, N)         the opset object: identity / singleton / exposure as onnxscript.opsetN
  method  (D, N, M)      every public method M reachable on the generated class of opset (D, N), inherited ones included
  missing (D, N, name)   an operator that onnx.defs defines for (D, N) but for which the class has no method
  absent  (D, N, name)   an operator of domain D introduced after N: static class and dynamic lookup must both say "no"
  ort     (case)         onnx backend node test: eager call with the node's attributes (defaults left out) vs the bare node on ORT
"""
from __future__ import annotations

import functools
import hashlib
import inspect
import os

import numpy as np
import onnx
import onnx.defs
from onnx import AttributeProto
from onnx.helper import get_attribute_value

from vf.hyp import drive, st
from vf.runner import Collector

ID = "C17"
EARLY_ATTRIBUTION = True  # region predicates are cheap scans of the stored case
LEVEL = "exploration"
EXHAUSTIVE = True
RULE = ("Bounded-exhaustive over every (domain, opset version N, method) of the 33 generated opset objects in "
        "onnxscript.onnx_opset.all_opsets (inherited methods included), over every operator onnx.defs defines for those "
        "(domain, N) (a method must exist) and over every operator introduced later (must be absent statically and "
        "dynamically). Per method: a signature-driven probe call under a spy evaluator (BaseEvaluator subclass recording "
        "eval_op's (op, args, kwargs) and _eval's (schema, inputs, attributes), nothing is executed) yields the schema the "
        "method resolves to; oracle: (name, domain, since_version) == onnx.defs.get_schema(M, N, domain); "
        "inspect.signature == schema inputs in order (Variadic -> *args, Optional -> default None, input renamed name_ when "
        "an attribute has the same name) followed by exactly the schema attributes as keyword-only parameters whose "
        "defaults equal the decoded schema defaults (required -> no default, no schema default -> None); then 5 fixed + "
        "Hypothesis-drawn call variants (which optional inputs are tokens / explicit None / omitted, positional vs keyword, "
        "variadic arity, which attributes are passed, Tensor or ndarray tokens): recorded inputs are identical (is) to the "
        "passed ones in schema order with only trailing None trimmed, passed attributes arrive under their own name, "
        "omitted attributes arrive absent/None/equal to the schema default. Opset.__contains__/__getitem__/__getattr__ "
        "and values.Op(opset, name) (the translator's lookup) give the same schema as the static method. ORT leg: each "
        "single-node onnx backend node test is called eagerly through opsetN.<Op> with exactly the node's attributes and "
        "compared with the bare node on onnxruntime (quick tier: only nodes that leave >=1 schema default out). Non-trivial = operator has >=1 attribute or optional/variadic input; "
        "distinct by (domain, op, N).")
ASSUMPTIONS = ["onnx.defs (get_schema / get_all_schemas_with_history) of the installed onnx is the specification of the schemas",
               "inspect.signature and object identity of the recorded arguments are faithful observations of the generated code",
               "the spy replaces execution: what an evaluator does with (schema, inputs, attributes) is C01/C02 territory; only the "
               "ORT leg executes, and there onnxruntime CPU defines what a node computes",
               "domain ai.onnx.preview.training is excluded from generation on purpose (opgen usage) and is out of scope"]
FLOOR = {"quick": 2500, "thorough": 2500}
TIMEOUT = {"quick": 900, "thorough": 3 * 3600}
SHARDS = 16
EXCLUDE: set = set()  # development only: names "deprecated:<domain>:<Op>" to skip method/missing units of a deprecated operator

NONDETERMINISTIC = {"RandomNormal", "RandomNormalLike", "RandomUniform", "RandomUniformLike", "Multinomial", "Bernoulli", "Dropout"}
WIDESPREAD = 12  # more buckets than this of one kind = one global root cause (e.g. a change in Opset._prepare_inputs)


# ----------------------------------------------------------------------------- enumeration
def _dom(d):
    return d or "ai.onnx"


@functools.lru_cache(maxsize=None)
def opsets():
    from onnxscript import onnx_opset

    return dict(onnx_opset.all_opsets)


@functools.lru_cache(maxsize=None)
def schema_versions():
    idx = {}
    for s in onnx.defs.get_all_schemas_with_history():
        idx.setdefault(s.domain, {}).setdefault(s.name, set()).add(s.since_version)
    return {d: {n: sorted(v) for n, v in m.items()} for d, m in idx.items()}


def spec_schema(name, version, domain):
    try:
        return onnx.defs.get_schema(name, version, domain)
    except Exception:  # noqa: BLE001  (onnx.defs.SchemaError: not defined at this version)
        return None


def triple(schema):
    return None if schema is None else (schema.name, schema.domain, int(schema.since_version))


@functools.lru_cache(maxsize=None)
def method_names(key):
    from onnxscript.values import Opset

    cls = type(opsets()[key])
    base = set(dir(Opset))
    return tuple(sorted(k for k, v in inspect.getmembers(cls, inspect.isfunction) if not k.startswith("_") and k not in base))


def defining_version(o, m):
    for c in type(o).__mro__:
        if m in vars(c):
            try:
                return int(c().version)
            except Exception:  # noqa: BLE001
                return -1
    return -1


@functools.lru_cache(maxsize=None)
def deprecated_ops():
    return tuple(sorted((s.domain, s.name, int(s.since_version)) for s in onnx.defs.get_all_schemas_with_history() if s.deprecated))


def _node_case_names():
    from vf import corpus

    base = os.path.join(corpus.DATA, "node")
    if not os.path.isdir(base):
        return []
    return sorted(n for n in os.listdir(base) if os.path.exists(os.path.join(base, n, "model.onnx")))


@functools.lru_cache(maxsize=None)
def all_units():
    units = []
    vers = schema_versions()
    for (d, n) in sorted(opsets()):
        units.append(("opset", d, n, ""))
        have = set(method_names((d, n)))
        for m in sorted(have):
            units.append(("method", d, n, m))
        for name, vs in sorted(vers.get(d, {}).items()):
            if name in have:
                continue
            units.append(("missing" if vs[0] <= n else "absent", d, n, name))
    for name in _node_case_names():
        units.append(("ort", "", 0, name))
    return tuple(units)


# ----------------------------------------------------------------------------- schema description (the oracle's reading of a schema)
def _decode(v):
    if isinstance(v, (bytes, bytearray)):
        return bytes(v).decode("utf-8")
    if isinstance(v, (list, tuple)) or type(v).__name__ in ("RepeatedScalarContainer", "RepeatedCompositeContainer"):
        return tuple(_decode(x) for x in v)
    return v


def describe(schema):
    attr_names = set(schema.attributes)
    ins = []
    for i in schema.inputs:
        opt = {"Single": "S", "Optional": "O", "Variadic": "V"}[i.option.name]
        ins.append({"name": i.name + ("_" if i.name in attr_names else ""), "opt": opt,
                    "min_arity": int(getattr(i, "min_arity", 1)) if opt == "V" else 1})
    attrs = []
    for name in sorted(attr_names):
        a = schema.attributes[name]
        has_default = a.default_value.type != AttributeProto.UNDEFINED
        attrs.append({"name": name, "type": a.type.name, "required": bool(a.required), "has_default": has_default,
                      "default": _decode(get_attribute_value(a.default_value)) if has_default else None})
    return {"inputs": ins, "attrs": attrs}


def _split_inputs(desc):
    ins = desc["inputs"]
    if ins and ins[-1]["opt"] == "V":
        return ins[:-1], ins[-1]
    return ins, None


def nontrivial(desc):
    return bool(desc["attrs"]) or any(i["opt"] != "S" for i in desc["inputs"])


def same_default(actual, expected):
    """None if equal for the purposes of an ONNX attribute, else a description.  'f32' if equal only after float32 rounding."""
    a, e = _decode(actual), _decode(expected)
    if isinstance(a, tuple) or isinstance(e, tuple):
        if not (isinstance(a, tuple) and isinstance(e, tuple)) or len(a) != len(e):
            return f"{actual!r} vs schema {expected!r}"
        worst = None
        for x, y in zip(a, e):
            r = same_default(x, y)
            if r and r != "f32":
                return f"{actual!r} vs schema {expected!r}"
            worst = worst or r
        return worst
    if isinstance(a, bool) or isinstance(e, bool) or a is None or e is None:
        return None if (a is e or a == e) and type(a) is type(e) else f"{actual!r} vs schema {expected!r}"
    if isinstance(a, (int, float)) and isinstance(e, (int, float)):
        if a == e:
            return None
        if isinstance(a, float) or isinstance(e, float):
            with np.errstate(all="ignore"):
                if np.float32(a) == np.float32(e):
                    return "f32"
        return f"{actual!r} vs schema {expected!r}"
    if type(a) is not type(e):
        return f"{actual!r} ({type(actual).__name__}) vs schema {expected!r} ({type(expected).__name__})"
    return None if a == e else f"{actual!r} vs schema {expected!r}"


# ----------------------------------------------------------------------------- spy
def _make_spy():
    from onnxscript._internal.evaluator import BaseEvaluator

    class Spy(BaseEvaluator):
        def __init__(self):
            super().__init__()
            self.ops = []
            self.calls = []
            self.adapt_exc = None
            self.ret = object()

        def eval_op(self, op, args, kwargs):
            # what the generated method hands to the evaluator (Op.__call__ -> evaluator.eval_op)
            self.ops.append((op, tuple(args), dict(kwargs)))
            try:
                return super().eval_op(op, args, kwargs)  # op.op_signature, autocast, attribute adaptation -> _eval
            except Exception as e:  # noqa: BLE001  (kept apart from the generated code's forwarding: own bucket)
                self.adapt_exc = e
                return self.ret

        def _eval(self, schema, inputs, attributes, closure):
            self.calls.append((schema, tuple(inputs), dict(attributes), dict(closure)))
            return [self.ret]

    return Spy()


def spy_call(fn, args, kwargs):
    """Returns ("ok", spy, result) or ("raise", exc, None)."""
    from onnxscript import evaluator

    spy = _make_spy()
    try:
        with evaluator.default_as(spy):
            res = fn(*args, **kwargs)
    except Exception as e:  # noqa: BLE001
        return "raise", e, None
    return "ok", spy, res


def _token(kind, i):
    arr = np.array(float(i), dtype=np.float32)
    if kind == "ndarray":
        return arr
    from onnxscript import tensor

    return tensor.Tensor(arr)


def _attr_value(idx, typename):
    h = onnx.helper
    single = {
        "FLOAT": lambda: 0.25 + idx, "INT": lambda: 1000003 + idx, "STRING": lambda: f"s{idx}",
        "TENSOR": lambda: h.make_tensor(f"t{idx}", onnx.TensorProto.FLOAT, [1], [float(idx)]),
        "SPARSE_TENSOR": lambda: onnx.SparseTensorProto(dims=[idx + 1]),
        "GRAPH": lambda: onnx.GraphProto(name=f"g{idx}"),
        "TYPE_PROTO": lambda: h.make_tensor_type_proto(onnx.TensorProto.FLOAT, None),
    }
    if typename in single:
        return single[typename]()
    if typename.endswith("S") and typename[:-1] in single:
        return [single[typename[:-1]](), single[typename[:-1]]()]
    return f"opaque{idx}"


# ----------------------------------------------------------------------------- static checks of one method
def probe(o, m):
    """Call o.m with arguments derived from its *Python signature* (always binds).
    -> ("ok", schema, op, exception raised inside BaseEvaluator.eval_op or None) / ("raise", exc, None, None)."""
    fn = getattr(o, m)
    sig = inspect.signature(fn)
    args, kwargs = [], {}
    for k, p in enumerate(sig.parameters.values()):
        if p.kind in (p.POSITIONAL_ONLY, p.POSITIONAL_OR_KEYWORD):
            if p.default is p.empty:
                args.append(_token("tensor", k))
        elif p.kind is p.VAR_POSITIONAL:
            args.append(_token("tensor", k))
        elif p.kind is p.KEYWORD_ONLY and p.default is p.empty:
            kwargs[p.name] = 1
    st_, spy, _ = spy_call(fn, args, kwargs)
    if st_ == "raise":
        return "raise", spy, None, None
    if len(spy.ops) != 1 or (spy.adapt_exc is None and len(spy.calls) != 1):
        return "raise", RuntimeError(f"{len(spy.ops)} eval_op / {len(spy.calls)} _eval calls for one method call"), None, None
    return "ok", (spy.calls[0][0] if spy.calls else spy.ops[0][0].op_schema), spy.ops[0][0], spy.adapt_exc


def adapt_bucket(exc, tag):
    """Root-cause key: exception type @ innermost onnxscript/onnx_ir frame (one bucket for all operators hitting the same line)."""
    from vf import optcommon

    del tag
    return f"eager-eval_op-raise:{optcommon.innermost_frame(exc)}"


def dep_bucket(d, m):
    return f"deprecated-schema:{m}" if d == "" else f"deprecated-schema:{d}:{m}"


def check_static(d, n, m):
    """-> (verdicts, info).  info: desc (of the schema the method resolves to), defver, classes, sigbad."""
    o = opsets()[(d, n)]
    verdicts, classes = [], []
    info = {"desc": None, "classes": classes, "sigbad": None, "defver": defining_version(o, m)}
    tag = f"{m}@{_dom(d)}/{info['defver']}"
    spec = spec_schema(m, n, d)
    pr = probe(o, m)
    if pr[0] == "raise":
        verdicts.append((f"call-raise:{type(pr[1]).__name__}:{tag}", f"probe call of opset({_dom(d)},{n}).{m} raised {pr[1]!r}"))
        return verdicts, info
    resolved, op = pr[1], pr[2]
    if resolved is None:
        verdicts.append((f"op-object:{tag}", f"opset({_dom(d)},{n}).{m} hands an Op without op_schema to the evaluator"))
        return verdicts, info
    if pr[3] is not None:
        classes.append("eval_op-raises")
        verdicts.append((adapt_bucket(pr[3], tag), f"opset({_dom(d)},{n}).{m}: the generated method forwards to evaluator.eval_op, where "
                                                    f"BaseEvaluator.eval_op raises {pr[3]!r} (before any execution; Op.op_signature / input "
                                                    f"and attribute adaptation), so the operator cannot be called eagerly with any evaluator"))
    if triple(op.op_schema) != triple(resolved) or op.name != m or op.opset is not o:
        verdicts.append((f"op-object:{tag}", f"Op passed to eval_op: name={op.name!r} opset={op.opset!r} schema={triple(op.op_schema)}; "
                                              f"schema passed to _eval: {triple(resolved)}"))
    if spec is None:
        verdicts.append((f"method-without-schema:{tag}", f"{type(o).__name__}.{m} exists but onnx.defs has no {m} in ({_dom(d)}, {n}); "
                                                          f"method resolves to {triple(resolved)}"))
    elif triple(spec) != triple(resolved):
        if spec.deprecated:
            classes.append("deprecated-schema-at-N")
            verdicts.append((dep_bucket(d, m),
                             f"opset({_dom(d)},{n}).{m} (eager) resolves to {triple(resolved)} but onnx.defs.get_schema({m!r}, {n}, {d!r}) is "
                             f"{triple(spec)} deprecated={spec.deprecated}; the dynamic lookup used in translation (opset[{m!r}]) gives "
                             f"{triple(getattr(o[m], 'op_schema', None)) if o[m] is not None else None}"))
        else:
            verdicts.append((f"schema-version:{tag}", f"opset({_dom(d)},{n}).{m} resolves to {triple(resolved)}, onnx defines {triple(spec)}"))
    elif spec.deprecated:
        classes.append("deprecated-schema-at-N:resolved")
    desc = describe(resolved)
    info["desc"] = desc

    # ---- signature
    fn = getattr(type(o), m)
    params = list(inspect.signature(fn).parameters.values())[1:]
    pos = [p for p in params if p.kind in (p.POSITIONAL_ONLY, p.POSITIONAL_OR_KEYWORD, p.VAR_POSITIONAL)]
    kwo = [p for p in params if p.kind is p.KEYWORD_ONLY]
    other = [p for p in params if p.kind is p.VAR_KEYWORD or p.kind is p.POSITIONAL_ONLY]
    fixed, var = _split_inputs(desc)
    exp_names = [i["name"] for i in desc["inputs"]]
    problems = []
    if other:
        problems.append(("signature-inputs", f"unexpected parameter kinds {[str(p) for p in other]}"))
    if [p.name for p in pos] != exp_names:
        problems.append(("signature-inputs", f"positional parameters {[p.name for p in pos]} vs schema inputs {exp_names}"))
    else:
        for p, i in zip(pos, desc["inputs"]):
            if i["opt"] == "V":
                if p.kind is not p.VAR_POSITIONAL:
                    problems.append(("signature-inputs", f"variadic input {i['name']} is not *args"))
            elif p.kind is p.VAR_POSITIONAL:
                problems.append(("signature-inputs", f"input {i['name']} ({i['opt']}) is *args"))
            elif i["opt"] == "S":
                if p.default is not p.empty:
                    problems.append(("signature-inputs", f"required input {i['name']} has default {p.default!r}"))
            elif p.default is not None and not (var is not None and p.default is p.empty):
                problems.append(("signature-inputs", f"optional input {i['name']} has default {p.default!r} (expected None)"))
    if sorted(p.name for p in kwo) != [a["name"] for a in desc["attrs"]]:
        problems.append(("signature-attrs", f"keyword-only parameters {sorted(p.name for p in kwo)} vs schema attributes "
                                            f"{[a['name'] for a in desc['attrs']]}"))
    by_name = {p.name: p for p in kwo}
    for a in desc["attrs"]:
        p = by_name.get(a["name"])
        if p is None:
            continue
        if a["required"]:
            ok = p.default is p.empty or (a["has_default"] and same_default(p.default, a["default"]) in (None, "f32"))
            if not ok:
                problems.append((f"default.{a['name']}", f"required attribute {a['name']} has default {p.default!r}"))
        elif p.default is p.empty:
            problems.append((f"default.{a['name']}", f"optional attribute {a['name']} has no default (schema default "
                                                     f"{a['default']!r})"))
        else:
            r = same_default(p.default, a["default"])
            if r == "f32":
                classes.append("default:equal-after-float32-rounding")
            elif r:
                problems.append((f"default.{a['name']}", f"attribute {a['name']} ({a['type']}): signature default {r}"))
    if [p.name for p in kwo] != sorted(p.name for p in kwo):
        classes.append("attrs-not-sorted")
    for kind, msg in problems:
        b = f"default:{tag}.{kind[8:]}" if kind.startswith("default.") else f"{kind}:{tag}"
        verdicts.append((b, f"opset({_dom(d)},{n}).{m}{inspect.signature(fn)}: {msg}"))
    if problems:
        k0 = problems[0][0]
        info["sigbad"] = f"default:{tag}.{k0[8:]}" if k0.startswith("default.") else f"{k0}:{tag}"

    # ---- dynamic lookup (also the translator's route: values.Op(opset, name))
    verdicts.extend(check_lookup_present(d, n, m, spec, resolved))
    return verdicts, info


def check_lookup_present(d, n, m, spec, resolved):
    from onnxscript import values

    o = opsets()[(d, n)]
    out = []
    want = triple(spec)
    got = {}
    try:
        got["contains"] = (m in o)
        it = o[m]
        got["getitem"] = None if it is None else (triple(it.op_schema), it.name, it.opset is o)
        try:
            ga = values.Opset.__getattr__(o, m)
            got["getattr"] = (triple(ga.op_schema), ga.name, ga.opset is o)
        except AttributeError:
            got["getattr"] = None
        got["translator"] = triple(values.Op(o, m).op_schema)
    except Exception as e:  # noqa: BLE001
        return [(f"lookup-raise:{type(e).__name__}", f"dynamic lookup of {m} on opset({_dom(d)},{n}) raised {e!r}")]
    exp = {"contains": want is not None, "getitem": None if want is None else (want, m, True),
           "getattr": None if want is None else (want, m, True), "translator": want}
    for k in ("contains", "getitem", "getattr", "translator"):
        if got[k] != exp[k]:
            out.append((f"lookup:{k}", f"opset({_dom(d)},{n}) {k} for {m!r}: {got[k]!r}, expected {exp[k]!r} (onnx.defs.get_schema)"))
    return out


def check_lookup_absent(d, n, name):
    """name is an operator of domain d that does not exist at version n."""
    from onnxscript import values

    o = opsets()[(d, n)]
    out = []
    if spec_schema(name, n, d) is not None:
        return [("harness:absent-unit-has-schema", f"{name} ({_dom(d)},{n})")]
    try:
        if name in o:
            out.append(("lookup:contains", f"{name!r} in opset({_dom(d)},{n}) is True but onnx.defs has no such operator at that version"))
        if o[name] is not None:
            out.append(("lookup:getitem", f"opset({_dom(d)},{n})[{name!r}] = {o[name]!r}, expected None"))
        try:
            v = getattr(o, name)
            out.append(("lookup:getattr" if not hasattr(type(o), name) else f"method-without-schema:{name}@{_dom(d)}/{defining_version(o, name)}",
                        f"opset({_dom(d)},{n}).{name} = {v!r} but the operator does not exist at that version"))
        except AttributeError:
            pass
        if values.Op(o, name).op_schema is not None:
            out.append(("lookup:translator", f"values.Op(opset({_dom(d)},{n}), {name!r}).op_schema is not None"))
    except Exception as e:  # noqa: BLE001
        out.append((f"lookup-raise:{type(e).__name__}", f"dynamic lookup of {name} on opset({_dom(d)},{n}) raised {e!r}"))
    return out


def check_missing(d, n, name):
    o = opsets()[(d, n)]
    spec = spec_schema(name, n, d)
    if spec is None:
        return [("harness:missing-unit-without-schema", f"{name} ({_dom(d)},{n})")], []
    if hasattr(type(o), name):
        return [], ["missing:has-method"]
    dyn = o[name]
    detail = (f"onnx.defs defines {triple(spec)} deprecated={spec.deprecated} for ({_dom(d)},{n}) but {type(o).__name__} has no method {name}; "
              f"opset.{name} falls back to the dynamic lookup -> {None if dyn is None else triple(dyn.op_schema)}")
    verdicts = [(dep_bucket(d, name) if spec.deprecated else f"missing-method:{name}@{_dom(d)}/{spec.since_version}", detail)]
    verdicts.extend(check_lookup_present(d, n, name, spec, spec))
    return verdicts, ["missing:deprecated" if spec.deprecated else "missing:not-deprecated"]


def check_opset(d, n):
    import onnxscript
    from onnxscript import onnx_opset, values

    o = opsets()[(d, n)]
    out, classes = [], []
    if o.domain != d or o.version != n:
        out.append(("opset-identity", f"all_opsets[({d!r},{n})] has domain={o.domain!r} version={o.version!r}"))
    if type(o)() is not o or values.Opset.cache.get((type(o), d, n)) is not o:
        out.append(("opset-identity", f"{type(o).__name__}() is not the singleton registered for ({d!r},{n})"))
    export = "opset" + ("_" + d.replace(".", "_") if d else "") + str(n)
    if getattr(onnx_opset, export, None) is not o:
        out.append(("opset-identity", f"onnx_opset.{export} is not all_opsets[({d!r},{n})]"))
    if hasattr(onnxscript, export):
        classes.append("exposed-as-onnxscript." + ("opsetN" if d == "" else export))
        if getattr(onnxscript, export) is not o:
            out.append(("opset-identity", f"onnxscript.{export} is not all_opsets[({d!r},{n})]"))
    else:
        classes.append("not-exposed-in-onnxscript-namespace")
        if d == "" and n <= 23:
            out.append(("opset-identity", f"onnxscript.{export} does not exist"))
    bases = [c for c in type(o).__mro__[1:] if c is not values.Opset and c is not object]
    if n > 1 and (d, n - 1) in opsets() and (not bases or bases[0] is not type(opsets()[(d, n - 1)])):
        out.append(("opset-identity", f"{type(o).__name__} does not derive from the class of version {n - 1}"))
    return out, classes


# ----------------------------------------------------------------------------- call variants
def baseline_variants(desc):
    fixed, var = _split_inputs(desc)
    opt_attrs = [a["name"] for a in desc["attrs"] if not a["required"]]
    req = [a["name"] for a in desc["attrs"] if a["required"]]
    mn = var["min_arity"] if var else 0
    vs = []
    vs.append({"inputs": ["pos" if i["opt"] == "S" else ("pos_none" if var else "omit") for i in fixed], "nvar": mn, "attrs": list(req), "tok": "tensor"})
    vs.append({"inputs": ["pos" for _ in fixed], "nvar": mn + 1 if var else 0, "attrs": req + opt_attrs, "tok": "tensor"})
    vs.append({"inputs": ["pos" if i["opt"] == "S" else "pos_none" for i in fixed], "nvar": mn, "attrs": list(req), "tok": "ndarray"})
    optional = [j for j, i in enumerate(fixed) if i["opt"] == "O"]
    modes = ["pos"] * len(fixed)
    for r, j in enumerate(optional[:-1]):
        if r % 2 == 0:
            modes[j] = "pos_none"
    vs.append({"inputs": modes, "nvar": max(mn, 1) if var else 0, "attrs": req + opt_attrs[::2], "tok": "tensor"})
    if not var or mn == 0:
        modes = ["kw"] * len(fixed)
        for r, j in enumerate(optional):
            modes[j] = "kw_none" if r % 2 == 0 and r != len(optional) - 1 else ("omit" if r % 3 == 2 and not var else "kw")
        vs.append({"inputs": modes, "nvar": 0, "attrs": req + opt_attrs[1::2], "tok": "tensor"})
    out, seen = [], set()
    for v in vs:
        k = repr(v)
        if k not in seen and valid_variant(desc, v):
            seen.add(k)
            out.append(v)
    return out


def valid_variant(desc, v):
    fixed, var = _split_inputs(desc)
    modes = v.get("inputs", [])
    if len(modes) != len(fixed):
        return False
    nvar = int(v.get("nvar", 0))
    if (var is None and nvar) or (var is not None and nvar < var["min_arity"]):
        return False
    seen_nonpos = False
    for i, md in zip(fixed, modes):
        if md not in ("pos", "pos_none", "kw", "kw_none", "omit"):
            return False
        if md.endswith("none") and i["opt"] != "O":
            return False
        if md == "omit" and (i["opt"] != "O" or var is not None):
            return False
        if md.startswith("pos"):
            if seen_nonpos:
                return False
        else:
            seen_nonpos = True
            if nvar > 0:
                return False
    names = {a["name"] for a in desc["attrs"]}
    if any(a not in names for a in v.get("attrs", [])):
        return False
    return all(a["name"] in v["attrs"] for a in desc["attrs"] if a["required"])


@st.composite
def variant_strategy(draw, desc):
    fixed, var = _split_inputs(desc)
    nvar = draw(st.integers(var["min_arity"], var["min_arity"] + 2)) if var else 0
    k = len(fixed)
    p = k if nvar > 0 else draw(st.integers(0, k))
    modes = []
    for j, i in enumerate(fixed):
        optional = i["opt"] == "O"
        none = optional and draw(st.booleans())
        if j < p:
            modes.append("pos_none" if none else "pos")
        elif optional and var is None and draw(st.booleans()):
            modes.append("omit")
        else:
            modes.append("kw_none" if none else "kw")
    attrs = [a["name"] for a in desc["attrs"] if a["required"] or draw(st.booleans())]
    return {"inputs": modes, "nvar": nvar, "attrs": attrs, "tok": draw(st.sampled_from(["tensor", "ndarray"]))}


def variant_classes(desc, v):
    fixed, var = _split_inputs(desc)
    vals = [None if md in ("pos_none", "kw_none", "omit") else 1 for md in v["inputs"]] + [1] * v["nvar"]
    cls = []
    last = max((k for k, x in enumerate(vals) if x is not None), default=-1)
    if any(x is None for x in vals[:last + 1]):
        cls.append("variant:interior-none")
    if any(md.endswith("none") for md in v["inputs"][max(last + 1, 0):]):
        cls.append("variant:trailing-explicit-none")
    if "omit" in v["inputs"]:
        cls.append("variant:optional-input-omitted")
    if any(md.startswith("kw") for md in v["inputs"]):
        cls.append("variant:input-by-keyword")
    if var:
        cls.append(f"variant:variadic-arity-{min(v['nvar'], 3)}")
    n_opt = sum(1 for a in desc["attrs"] if not a["required"])
    passed = sum(1 for a in desc["attrs"] if not a["required"] and a["name"] in v["attrs"])
    if n_opt:
        cls.append("variant:optional-attrs-" + ("none-passed" if passed == 0 else "all-passed" if passed == n_opt else "some-passed"))
    cls.append("variant:token-" + v["tok"])
    return cls


def _input_discrepancy(expected_full, expected, got):
    """Classify a forwarding mismatch.  expected_full: untrimmed list, expected: trimmed."""
    def same(a, b):
        return len(a) == len(b) and all(x is y for x, y in zip(a, b))

    if same(expected, got):
        return None
    if same([x for x in expected_full if x is not None], got):
        return "trim:interior-none-stripped"
    if same(expected_full, got) or (len(got) > len(expected) and same(expected, got[:len(expected)]) and all(x is None for x in got[len(expected):])):
        return "trim:trailing-none-kept"
    if len(got) < len(expected) and same(expected[:len(got)], got):
        return "trim:non-none-dropped"
    return "forward-input"


def check_call(d, n, m, desc, v, sigbad=None):
    """Execute one call variant under the spy and compare what arrives with what was passed."""
    o = opsets()[(d, n)]
    tag = f"{m}@{_dom(d)}/{defining_version(o, m)}"
    fixed, var = _split_inputs(desc)
    args, kwargs, full = [], {}, []
    for j, (i, md) in enumerate(zip(fixed, v["inputs"])):
        val = None if md in ("pos_none", "kw_none", "omit") else _token(v["tok"], j)
        full.append(val)
        if md.startswith("pos"):
            args.append(val)
        elif md.startswith("kw"):
            kwargs[i["name"]] = val
    for r in range(v["nvar"]):
        t = _token(v["tok"], 100 + r)
        args.append(t)
        full.append(t)
    expected = list(full)
    while expected and expected[-1] is None:
        expected.pop()
    passed = {}
    for k, a in enumerate(desc["attrs"]):
        if a["name"] in v["attrs"]:
            passed[a["name"]] = _attr_value(k, a["type"])
    kwargs.update(passed)
    status, spy, res = spy_call(getattr(o, m), args, kwargs)
    out = []
    if status == "raise":
        e = spy
        b = sigbad if (sigbad and isinstance(e, TypeError)) else f"call-raise:{type(e).__name__}:{tag}"
        return [(b, f"opset({_dom(d)},{n}).{m} called with variant {v} raised {e!r}")]
    if len(spy.ops) != 1 or (spy.adapt_exc is None and len(spy.calls) != 1):
        return [(f"call-count:{tag}", f"{len(spy.ops)} eval_op and {len(spy.calls)} _eval calls for one call of {m}")]
    if spy.adapt_exc is not None:
        out.append((adapt_bucket(spy.adapt_exc, tag), f"opset({_dom(d)},{n}).{m} variant {v}: BaseEvaluator.eval_op raised {spy.adapt_exc!r}"))
    if res is not spy.ret:
        out.append((f"return-not-forwarded:{tag}", f"{m} returned {res!r}, not the evaluator's result"))
    legs = [("eval_op", (spy.ops[0][0].op_schema, spy.ops[0][1], spy.ops[0][2]))]
    if spy.calls:
        legs.append(("_eval", spy.calls[0][:3]))
    nforward = len(out)
    for where, (sch, got_in, got_at) in legs:
        pre = "" if where == "eval_op" else "adapted-"
        kind = _input_discrepancy(full, expected, list(got_in))
        if kind:
            b = kind if kind.startswith("trim:") else f"{kind}:{tag}"
            out.append((pre + b, f"opset({_dom(d)},{n}).{m} variant {v}: inputs at {where} = {_show_inputs(got_in, full)}, expected "
                                 f"{_show_inputs(expected, full)} (positions refer to schema inputs {[i['name'] for i in desc['inputs']]})"))
        names = {a["name"]: a for a in desc["attrs"]}
        extra = sorted(k for k in got_at if k not in names)
        if extra:
            out.append((pre + f"forward-attr:{tag}", f"{m}: unexpected keyword(s) {extra} at {where}"))
        for name, a in names.items():
            if name in passed:
                if name not in got_at or got_at[name] is not passed[name]:
                    where_else = [k for k, x in got_at.items() if x is passed[name]]
                    out.append((pre + f"forward-attr:{tag}", f"{m}: attribute {name} passed as {passed[name]!r} arrives at {where} as "
                                                             f"{got_at.get(name, '<absent>')!r}" + (f"; the value arrives as {where_else}" if where_else else "")))
            elif name in got_at and got_at[name] is not None and any(got_at[name] is x for x in passed.values()):
                src = [k for k, x in passed.items() if x is got_at[name]]
                out.append((pre + f"forward-attr:{tag}", f"{m}: attribute {name} not passed, but the value passed for {src} arrives under {name} at {where}"))
            elif name in got_at and got_at[name] is not None:
                r = same_default(got_at[name], a["default"]) if a["has_default"] else f"{got_at[name]!r} vs no schema default"
                if r and r != "f32":
                    out.append((pre + f"default:{tag}.{name}", f"{m}: attribute {name} not passed; arrives at {where} as {r}"))
        if where == "_eval" and triple(sch) != triple(spy.ops[0][0].op_schema):
            out.append((f"op-object:{tag}", f"schema at _eval {triple(sch)} != op.op_schema {triple(spy.ops[0][0].op_schema)}"))
        if len(out) > nforward and where == "eval_op":
            break  # the adapted view repeats the same defect
    return out


def _show_inputs(vals, full):
    ids = {id(x): k for k, x in enumerate(full) if x is not None}
    return [None if x is None else (f"in{ids[id(x)]}" if id(x) in ids else f"<other {type(x).__name__}>") for x in vals]


# ----------------------------------------------------------------------------- ORT leg
def check_ort(name, only_with_defaults_left_out=False):
    """-> (verdicts, status, classes, key, nontrivial).  status: "ok" or a skip reason."""
    from onnxscript import evaluator, tensor

    from vf import compare, corpus, execs

    loaded = corpus.load_case(os.path.join(corpus.DATA, "node", name))
    if loaded is None:
        return [], "ort:case-not-loadable(non-tensor io / too large)", [], None, False
    model, feeds, _ = loaded
    if len(model.graph.node) != 1 or len(model.functions):
        return [], "ort:not-a-single-node-model", [], None, False
    node = model.graph.node[0]
    d = "" if node.domain in ("", "ai.onnx") else node.domain
    imports = {("" if x.domain in ("", "ai.onnx") else x.domain): x.version for x in model.opset_import}
    n = imports.get(d)
    o = opsets().get((d, n))
    spec = spec_schema(node.op_type, n, d) if o is not None else None
    if spec is None:
        return [], "ort:no-opset-object-or-schema", [], None, False
    if spec.deprecated or node.op_type in NONDETERMINISTIC:
        return [], "ort:deprecated-or-nondeterministic-op", [], None, False
    if not hasattr(type(o), node.op_type):
        return [], "ort:no-static-method", [], None, False
    attrs = {}
    for a in node.attribute:
        if a.ref_attr_name or a.type in (AttributeProto.GRAPH, AttributeProto.GRAPHS):
            return [], "ort:graph-or-ref-attribute", [], None, False
        attrs[a.name] = _decode(get_attribute_value(a))
        if isinstance(attrs[a.name], tuple):
            attrs[a.name] = list(attrs[a.name])
    inits = {i.name: onnx.numpy_helper.to_array(i) for i in model.graph.initializer}
    args = []
    for x in node.input:
        if x == "":
            args.append(None)
        elif x in feeds or x in inits:
            args.append(feeds[x] if x in feeds else inits[x])
        else:
            return [], "ort:input-without-data", [], None, False
    desc = describe(spec)
    omitted = [a for a in desc["attrs"] if a["has_default"] and a["name"] not in attrs]
    if only_with_defaults_left_out and not omitted:
        return [], "ort:node-leaves-no-schema-default-out(executed in the thorough tier only)", [], None, False
    bare = onnx.ModelProto()
    bare.CopyFrom(model)
    for x in bare.opset_import:
        if ("" if x.domain in ("", "ai.onnx") else x.domain) == d:
            x.version = spec.since_version
    rb = execs.run_ort(bare, feeds)
    if rb[0] != "ok":
        return [], "ort:bare-node-not-runnable", [], None, False
    ort_eval = evaluator.ORTEvaluator()
    method = getattr(o, node.op_type)
    try:
        with evaluator.default_as(ort_eval):
            res = method(*args, **attrs)
    except Exception as e:  # noqa: BLE001  (evaluator limitations are not C17's subject)
        return [], f"ort:eager-raised:{type(e).__name__}", [], None, False
    outs = list(res) if isinstance(res, (list, tuple)) else [res]
    outs = [x.value if isinstance(x, tensor.Tensor) else x for x in outs]
    classes = ["ort:executed", f"ort:defaults-left-out-{min(len(omitted), 3)}"]
    key = ("ort", node.op_type, int(spec.since_version), name)
    diff = None
    bare_by_name = {vi.name: r for vi, r in zip(model.graph.output, rb[1])}
    compared = 0
    for k, oname in enumerate(node.output):  # eager result k <-> node output k (the model may expose only some of them)
        if oname == "" or oname not in bare_by_name or k >= len(outs):
            continue
        p, q = outs[k], bare_by_name[oname]
        if isinstance(p, list) or isinstance(q, list) or p is None:
            continue
        compared += 1
        diff = compare.same_array(np.asarray(p), np.asarray(q))
        if diff:
            diff = f"output[{k}] ({oname}): {diff}"
            break
    if not compared:
        return [], "ort:no-comparable-output", [], None, False
    if not diff:
        return [], "ok", classes, key, bool(omitted)
    # is the runtime itself sensitive to writing the schema defaults out?  then it is not onnxscript's doing
    explicit = onnx.ModelProto()
    explicit.CopyFrom(bare)
    for a in omitted:
        p = explicit.graph.node[0].attribute.add()
        p.CopyFrom(spec.attributes[a["name"]].default_value)
    re_ = execs.run_ort(explicit, feeds)
    if re_[0] != "ok" or compare.same_outputs(re_[1], rb[1]):
        classes.append("ort:runtime-sensitive-to-explicit-defaults")
        return [], "ok", classes, key, bool(omitted)
    return [(f"eager-vs-bare-node:{node.op_type}@{_dom(d)}/{spec.since_version}",
             f"node test {name}: opset{n}.{node.op_type}(*inputs, **{attrs}) differs from the bare node on onnxruntime: {diff}; "
             f"schema defaults left out: {[(a['name'], a['default']) for a in omitted]}")], "ok", classes, key, bool(omitted)


# ----------------------------------------------------------------------------- plan / run
def plan(tier, seed, budget):
    drawn = max(1, int((12 if tier == "quick" else 300) * budget))
    return [{"part": i, "parts": SHARDS, "drawn": drawn, "base_seed": int(seed)} for i in range(SHARDS)]


def _method_seed(base, d, n, m):
    h = hashlib.sha256(f"C17:{base}:{d}:{n}:{m}".encode()).digest()
    return int.from_bytes(h[:8], "big") >> 1


def _excluded(d, m, n):
    for (dd, mm, v) in deprecated_ops():
        if dd == d and mm == m and n >= v and f"deprecated:{_dom(d)}:{m}" in EXCLUDE:
            return f"deprecated:{_dom(d)}:{m}"
    return None


def run_unit(col, unit, drawn, base_seed, tier="thorough"):
    kind, d, n, name = unit
    oc = f"opset:{_dom(d)}/{n:02d}"
    if kind == "opset":
        verdicts, classes = check_opset(d, n)
        col.case(("opset", d, n), False, ["unit:opset"] + classes)
        for b, det in verdicts:
            col.violation(b, det, {"unit": "opset", "domain": d, "version": n}, size=n)
        return
    if kind == "absent":
        col.case(("absent", d, n, name), False, ["unit:absent-op-lookup"])
        for b, det in check_lookup_absent(d, n, name):
            col.violation(b, det, {"unit": "absent", "domain": d, "version": n, "name": name}, size=n)
        return
    if kind == "missing":
        ex = _excluded(d, name, n)
        if ex:
            col.exclude(ex)
            return
        verdicts, classes = check_missing(d, n, name)
        col.case(("missing", d, n, name), False, ["unit:op-without-method"] + classes)
        for b, det in verdicts:
            col.violation(b, det, {"unit": "missing", "domain": d, "version": n, "name": name}, size=n)
        return
    if kind == "ort":
        verdicts, status, classes, key, nt = check_ort(name, only_with_defaults_left_out=(tier == "quick"))
        if status != "ok":
            col.skip(status)
            return
        col.case(key, False, ["unit:ort"] + classes + (["ort:nontrivial(defaults-left-out)"] if nt else []))
        col.extra["ort_executed"] = col.extra.get("ort_executed", 0) + 1
        col.extra["ort_with_defaults_left_out"] = col.extra.get("ort_with_defaults_left_out", 0) + int(nt)
        for b, det in verdicts:
            col.violation(b, det, {"unit": "ort", "name": name}, size=0)
        return
    # ---- method
    ex = _excluded(d, name, n)
    if ex:
        col.exclude(ex)
        return
    verdicts, info = check_static(d, n, name)
    base_case = {"unit": "method", "domain": d, "version": n, "name": name, "variant": None}
    for b, det in verdicts:
        col.violation(b, det, base_case, size=n)
    desc = info["desc"]
    if desc is None:
        col.case(("method", d, n, name), False, ["unit:method", "probe-failed"])
        return
    fixed, var = _split_inputs(desc)
    nt = nontrivial(desc)
    o = opsets()[(d, n)]
    static_classes = ["unit:method", oc, "inherited" if info["defver"] != n else "defined-at-N",
                      f"inputs:{min(len(desc['inputs']), 6)}", f"optional-inputs:{min(sum(1 for i in fixed if i['opt'] == 'O'), 4)}",
                      f"attrs:{min(len(desc['attrs']), 8)}"] + info["classes"]
    if var:
        static_classes.append("has-variadic-input")
    if any(i["name"].endswith("_") for i in desc["inputs"]):
        static_classes.append("input-renamed(attr-collision)")
    for a in desc["attrs"]:
        static_classes.append("attr-type:" + a["type"] + (":default" if a["has_default"] else ":required" if a["required"] else ":no-default"))
    col.case((d, name, n), nt, static_classes, sample={"opset": f"{_dom(d)}/{n}", "method": name, "signature": str(inspect.signature(getattr(o, name)))[:300]})
    done = set()

    def body(v):
        k = repr(sorted(v.items()))
        if k in done:
            col.extra["duplicate_variants"] = col.extra.get("duplicate_variants", 0) + 1
            return
        done.add(k)
        vs = check_call(d, n, name, desc, v, info["sigbad"])
        col.case((d, name, n), nt, variant_classes(desc, v))
        for b, det in vs:
            c = dict(base_case)
            c["variant"] = v
            col.violation(b, det, c, size=n * 100 + len(v["inputs"]) + len(v["attrs"]) + v["nvar"])

    for v in baseline_variants(desc):
        body(v)
    if nt:
        drive(variant_strategy(desc), body, drawn, _method_seed(base_seed, d, n, name))


def run_shard(spec):
    col = Collector()
    units = all_units()[spec["part"]::spec["parts"]]
    for u in units:
        run_unit(col, u, spec["drawn"], spec["base_seed"], spec.get("tier", "quick"))
        col.extra["units_done"] = col.extra.get("units_done", 0) + 1
        col.extra.setdefault("units_by_kind", {})
        col.extra["units_by_kind"][u[0]] = col.extra["units_by_kind"].get(u[0], 0) + 1
    return col.result()


def finalize(merged, tier):
    total = len(all_units())
    merged["extra"]["units_total"] = total
    merged["extra"]["exhaustive_complete"] = merged["extra"].get("units_done", 0) == total
    merged["extra"]["opset_objects"] = len(opsets())
    merged["extra"]["domains_without_generated_opsets"] = sorted(set(schema_versions()) - {d for d, _ in opsets()})
    merged["extra"]["deprecated_schemas_in_onnx"] = [f"{_dom(d)}:{m}@{v}" for d, m, v in deprecated_ops()]
    # one global root cause (e.g. a change in Opset._prepare_inputs or in opgen) shows up on hundreds of methods: keep it one bucket
    kinds = {}
    for b in merged["violations"]:
        if "@" in b:
            kinds.setdefault(b.split(":", 1)[0], []).append(b)
    for kind, bs in kinds.items():
        if len(bs) > WIDESPREAD:
            lst = []
            for b in sorted(bs):
                lst.extend(merged["violations"].pop(b))
            lst.sort(key=lambda v: v["size"])
            merged["violations"][f"{kind}:widespread({len(bs)} methods)"] = lst[:3]


# ----------------------------------------------------------------------------- replay
def replay(case):
    unit = case.get("unit")
    if unit == "opset":
        return check_opset(case["domain"], case["version"])[0]
    if unit == "absent":
        return check_lookup_absent(case["domain"], case["version"], case["name"])
    if unit == "missing":
        return check_missing(case["domain"], case["version"], case["name"])[0]
    if unit == "ort":
        return check_ort(case["name"])[0]
    d, n, m = case["domain"], case["version"], case["name"]
    if (d, n) not in opsets() or not hasattr(type(opsets()[(d, n)]), m):
        return check_missing(d, n, m)[0]
    verdicts, info = check_static(d, n, m)
    v = case.get("variant")
    if v is not None and info["desc"] is not None and valid_variant(info["desc"], v):
        verdicts = verdicts + check_call(d, n, m, info["desc"], v, info["sigbad"])
    return verdicts


def _region(d, m, v):
    def pred(case):
        return case.get("unit") in ("method", "missing") and case.get("domain") == d and case.get("name") == m and case.get("version", 0) >= v

    return pred


# named regions for known findings: "deprecated:<domain>:<Op>" = every opset version at which onnx marks <Op> deprecated;
# "method:<domain>:<Op>" = every unit about that operator name in that domain (any version)
REGIONS = {f"deprecated:{_dom(d)}:{m}": _region(d, m, v) for d, m, v in deprecated_ops()}


def _schema_region(pred_schema):
    def pred(case):
        if case.get("unit") != "method":
            return False
        o = opsets().get((case.get("domain"), case.get("version")))
        fn = getattr(type(o), case.get("name", ""), None) if o is not None else None
        if fn is None:
            return False
        sch = spec_schema(case["name"], defining_version(o, case["name"]), case["domain"])
        return sch is not None and pred_schema(sch)

    return pred


# operators whose schema onnx_ir's OpSignature cannot represent (Op.op_signature raises, so BaseEvaluator.eval_op raises)
REGIONS["schema:input-and-attribute-share-a-name"] = _schema_region(lambda s: any(i.name in s.attributes for i in s.inputs))
REGIONS["schema:map-typed-input-or-output"] = _schema_region(
    lambda s: any("map(" in t for tc in s.type_constraints for t in tc.allowed_type_strs) or any("map(" in p.type_str for p in list(s.inputs) + list(s.outputs)))
REGIONS.update({f"method:{_dom(d)}:{m}": _region(d, m, 0) for d in sorted({k[0] for k in opsets()}) for m in sorted(schema_versions().get(d, {}))})
