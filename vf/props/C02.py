"""C02 - every proto the converter emits is well-formed ONNX; bad programs are refused."""
from __future__ import annotations

import copy
import re

import onnx

from vf import scriptgen, wellformed
from vf.hyp import drive, st
from vf.runner import Collector
from vf.scriptgen import Assign, Bin, Call, For, If, Lit, Raw, Var, While

ID = "C02"
EARLY_ATTRIBUTION = True  # region predicates are cheap scans of the stored case
LEVEL = "exploration"
RULE = ("All C01 grammar programs plus near-miss programs obtained by one grammar-violating mutation (variable undefined on one "
        "path, return inside a branch/loop, unsupported statements: augmented assignment, del, try, with, comprehension, chained "
        "comparison, multi-target assignment; break not last; loop bound not range(e); arity mismatch in tuple assignment; use of "
        "the loop variable after the loop). Oracle: accepted => to_function_proto() and to_model_proto() (when it does not raise) "
        "pass an independent SSA/scope walker (single definition over all nested subgraphs, definition before use, subgraph outputs "
        "produced inside, distinct outputs, no input returned directly, every used domain imported exactly once) and onnx.checker "
        "(check_function; check_model, full_check when I/O typed); must-refuse near-misses raise when the decorator runs. "
        "Non-trivial = accepted program with >=1 nested subgraph, or a refused near-miss; distinct by source hash.")
ASSUMPTIONS = ["onnx.checker + vf/wellformed.py define well-formedness", "'carrying the source position' is measured (fraction of refusals "
               "whose message names a line) and reported, not enforced"]
FLOOR = {"quick": 200, "thorough": 2000}
TIMEOUT = {"quick": 1200, "thorough": 4 * 3600}

WALK = dict(global_unique=True, outputs_produced_inside=True, no_input_as_output=True)


def plan(tier, seed, budget):
    n = int((6400 if tier == "quick" else 100000) * budget)
    shards = 16 if tier == "quick" else 64
    return [{"n": max(1, n // shards)} for _ in range(shards)]


MUTATIONS = ["none", "none", "undefined_on_path", "return_in_branch", "return_in_loop", "augassign", "del", "try", "with", "comprehension",
             "chained_compare", "multi_target", "break_not_last", "bad_loop_bound", "arity_mismatch", "loop_var_after_loop", "while_non_name",
             "graph_scan", "graph_scan_msdomain", "graph_capture_modified", "graph_capture_rebound_inside", "call_same_name_two_domains",
             "return_in_static_if_in_branch", "return_in_static_if_in_loop", "undefined_on_path_with_global", "graph_scan_returns_outer"]
# graph_scan_returns_outer: the nested function returns, as its new state, a value computed by the ENCLOSING function (accepted: the subgraph
# output must then be produced inside the subgraph, e.g. through an Identity).
# return_in_static_if_*: the `return` sits under `if SCRIPT_TIME_CONSTANT:` (resolved when the script is translated) inside a dynamic branch / loop
# body: still a return inside control flow.  undefined_on_path_with_global: the variable that is undefined on one path has the name of a module
# global that could be converted to a tensor (the Python reading raises UnboundLocalError on that path; a graph that silently reads the global
# computes something else).
# call_same_name_two_domains: the program calls two script functions that are both NAMED `fn` but live in different domains (legal: a function
# is identified by domain + name); the model must define both.
SCRIPT_FUNCTION_DOMAINS = {"this", "dom.a", "dom.b"}
TWIN_SRC = '''
from onnxscript.values import Opset as _Opset

def _mk_twin(dom, k):
    @script(dom, default_opset=op)
    def fn(x):
        return op.Mul(x, op.CastLike(op.Constant(value_float=k), x))
    return fn

twin_a = _mk_twin(_Opset("dom.a", 1), 2.0)
twin_b = _mk_twin(_Opset("dom.b", 1), 10.0)
'''
# graph_capture_*: a nested @graph function (Scan body) reads a variable of the enclosing function that is re-assigned between the nested
# definition and its use as an attribute - the graph would capture the stale value; the converter documents the refusal ("Outer scope
# variable ... modified"). *_rebound_inside: the nested function also assigns the name after reading it (not even valid Python).
MUST_REFUSE = {"undefined_on_path", "return_in_branch", "return_in_loop", "loop_var_after_loop", "graph_capture_modified", "graph_capture_rebound_inside",
               "return_in_static_if_in_branch", "return_in_static_if_in_loop", "undefined_on_path_with_global"}


def _first(stmts, kind):
    for i, s in enumerate(stmts):
        if isinstance(s, kind):
            return i, s
    return None, None


def mutate(prog, kind, draw):
    """Returns a mutated deep copy or None if the mutation does not apply."""
    p = copy.deepcopy(prog)
    x = p.params[0][0]
    body = p.body
    if kind == "none":
        return p
    if kind == "undefined_on_path":
        # a fresh variable assigned only in the then-branch of a dynamic if, then returned
        cond = Bin(">", Call("ReduceSum", [Var(x)], {"keepdims": 0}), Lit(0))
        if p.params[0][1] == "BOOL":
            return None
        body.append(If(cond, [Assign(["fresh_only_then"], Call("Identity", [Var(x)], {}))], [Assign(["other_var"], Call("Identity", [Var(x)], {}))]))
        p.returns = [Var("fresh_only_then")]
        p.ret_types = [(p.params[0][1], p.params[0][2])]
        return p
    if kind == "undefined_on_path_with_global":
        cond = Bin(">", Call("ReduceSum", [Var(x)], {"keepdims": 0}), Lit(0))
        if p.params[0][1] == "BOOL":
            return None
        then_only = draw(st.booleans())
        a1 = [Assign(["G_SCALE"], Call("Identity", [Var(x)], {}))]
        a2 = [Assign(["other_var"], Call("Identity", [Var(x)], {}))]
        body.append(If(cond, a1 if then_only else a2, a2 if then_only else a1))
        p.returns = [Var("G_SCALE")]
        p.ret_types = [(p.params[0][1], p.params[0][2])]
        return p
    if kind in ("return_in_static_if_in_branch", "return_in_static_if_in_loop"):
        if p.params[0][1] == "BOOL":
            return None
        ret = "if G_FLAG:\n    return " + ", ".join(scriptgen.expr_src(Call("Identity", [e], {})) for e in list(p.returns) + [Var("zz")])  # (as many values as the function returns, computed here)
        # (the branch / loop has a live result, so that nothing else about the program can be the reason for a refusal)
        if kind.endswith("branch"):
            cond = Bin(">", Call("ReduceSum", [Var(x)], {"keepdims": 0}), Lit(0))
            body.append(If(cond, [Assign(["zz"], Call("Identity", [Var(x)], {})), Raw(ret)], [Assign(["zz"], Call("Neg", [Var(x)], {}))]))
        else:
            body.append(Assign(["zz"], Call("Identity", [Var(x)], {})))
            body.append(For("q", Lit(2), [Assign(["zz"], Bin("+", Var("zz"), Var(x))), Raw(ret)]))
        p.returns = list(p.returns) + [Var("zz")]
        p.ret_types = list(p.ret_types) + [(p.params[0][1], p.params[0][2])]
        return p
    if kind == "return_in_branch":
        if p.params[0][1] == "BOOL":
            return None
        cond = Bin(">", Call("ReduceSum", [Var(x)], {"keepdims": 0}), Lit(0))
        ret = "return " + ", ".join(scriptgen.expr_src(e) for e in p.returns)
        body.append(If(cond, [Raw(ret)], [Assign(["zz"], Call("Identity", [Var(x)], {}))]))
        return p
    if kind == "return_in_loop":
        ret = "return " + ", ".join(scriptgen.expr_src(e) for e in p.returns)
        body.append(For("q", Lit(2), [Assign(["zz"], Call("Identity", [Var(x)], {})), Raw(ret)]))
        return p
    if kind == "loop_var_after_loop":
        body.append(For("lv", Lit(2), [Assign(["zz"], Call("Identity", [Var(x)], {}))]))
        body.append(Assign(["zz2"], Call("Identity", [Var("lv")], {})))
        p.returns = [Var("zz2")]
        p.ret_types = [("INT64", 0)]
        return p
    if kind == "call_same_name_two_domains":
        fp = [(n, dt, r) for n, dt, r in p.params if dt in ("FLOAT", "DOUBLE")]
        if not fp:
            return None
        X = fp[0][0]
        body.append(Raw(f"tw_sum = op.Add(twin_a({X}), twin_b({X}))"))
        p.returns = list(p.returns) + [Var("tw_sum")]
        p.ret_types = list(p.ret_types) + [(fp[0][1], fp[0][2])]
        return p
    if kind.startswith("graph_"):
        fp = [(n, dt, r) for n, dt, r in p.params if dt in ("FLOAT", "DOUBLE") and r >= 1]
        if not fp:
            return None
        X = fp[0][0]
        inner = "msop.Gelu(sc_x)" if kind == "graph_scan_msdomain" else "op.Mul(sc_x, sc_k)"
        lines = [f"sc_k = op.CastLike(op.Constant(value_float=2.0), {X})",
                 "@graph()",
                 f"def sc_body(sc_acc: {scriptgen._ann(fp[0][1], fp[0][2] - 1)}, sc_x: {scriptgen._ann(fp[0][1], fp[0][2] - 1)}) -> ({scriptgen._ann(fp[0][1], fp[0][2] - 1)}, {scriptgen._ann(fp[0][1], fp[0][2] - 1)}):",  # (annotated, as in the documentation's Scan examples)
                 f"    sc_y = {inner}"]
        if kind == "graph_scan_returns_outer":
            lines.insert(0, f"sc_o = op.ReduceSum({X} * 0.0, [0], keepdims=0)")
            lines.append("    return sc_o, op.Add(sc_acc, sc_y)")
        elif kind == "graph_capture_rebound_inside":
            lines.append("    sc_k = op.Add(sc_x, sc_y)")
            lines.append("    return op.Add(sc_acc, sc_k), sc_y")
        else:
            lines.append("    return op.Add(sc_acc, sc_y), sc_y")
        if kind in ("graph_capture_modified", "graph_capture_rebound_inside"):
            lines.append(f"sc_k = op.CastLike(op.Constant(value_float=10.0), {X})")
        lines += [f"sc_zero = op.ReduceSum({X} * 0.0, [0], keepdims=0)",  # (the state has the type of one scanned slice)
                  f"sc_total, sc_ys = op.Scan(sc_zero, {X}, body=sc_body, num_scan_inputs=1)"]
        body.append(Raw("\n".join(lines)))
        p.returns = list(p.returns) + [Var("sc_ys")]
        p.ret_types = list(p.ret_types) + [(fp[0][1], fp[0][2])]
        return p
    raw = {
        "augassign": f"{x} += 1",
        "del": f"del {x}",
        "try": f"try:\n    zz = op.Identity({x})\nexcept Exception:\n    zz = op.Identity({x})",
        "with": f"with open('/dev/null') as fh:\n    zz = op.Identity({x})",
        "comprehension": f"zz = [op.Identity({x}) for _i in range(2)]",
        "chained_compare": f"zz = 0 < {x} < 1",
        "multi_target": f"zz = zz2 = op.Identity({x})",
        "bad_loop_bound": f"for q in [0, 1]:\n    zz = op.Identity({x})",
        "arity_mismatch": f"zz, zz2 = op.Abs({x})" if p.params[0][1] != "BOOL" else None,
        "while_non_name": f"while op.ReduceSum({x}, keepdims=0) > 0:\n    zz = op.Identity({x})" if p.params[0][1] != "BOOL" else None,
        "break_not_last": f"for q in range(2):\n    zc = op.ReduceSum({x}, keepdims=0) > 0\n    if zc:\n        break\n    zz = op.Identity({x})" if p.params[0][1] != "BOOL" else None,
    }[kind]
    if raw is None:
        return None
    pos = draw(st.integers(0, len(body)))
    body.insert(pos, Raw(raw))
    return p


def has_subgraph(stmts):
    return any(isinstance(s, (If, For, While)) for s in stmts)


def check_accepted(mod, prog):
    """Well-formedness of the protos of an accepted program."""
    verdicts = []
    info = {}
    fn = getattr(mod, prog.name)
    fns = [fn] + [getattr(mod, h.name) for h in prog.helpers]
    for f in fns:
        try:
            fp = f.to_function_proto()
        except Exception as e:  # noqa: BLE001
            verdicts.append(("to_function_proto_raises", f"{type(e).__name__}: {str(e)[:300]}"))
            continue
        local = {(h.function_ir.domain, h.name) for h in fns}
        for k, msg in wellformed.check_function(fp, local_funcs=local, **WALK)[:3]:
            verdicts.append((f"function_proto:{k}", msg))
    try:
        mp = fn.to_model_proto()
    except Exception as e:  # noqa: BLE001
        info["to_model_proto_refused"] = f"{type(e).__name__}: {str(e)[:100]}"
        mp = None
    if mp is not None:
        for k, msg in wellformed.check_model(mp, **WALK)[:3]:
            sub = _checker_class(msg) if k == "checker" else ""
            verdicts.append((f"model_proto:{k}{sub}", msg))
        # every call to a script function of the program resolves to a FunctionProto of the model (the generator knows which domains hold
        # script functions; the walker is lenient about schema-less nodes of foreign domains because contrib operators look the same)
        defined = {(f.domain, f.name) for f in mp.functions}

        def calls(g):
            for n in g.node:
                if n.domain in SCRIPT_FUNCTION_DOMAINS:
                    yield (n.domain, n.op_type)
                for a in n.attribute:
                    if a.type == onnx.AttributeProto.GRAPH:
                        yield from calls(a.g)

        missing = sorted(set(calls(mp.graph)) | {c for f in mp.functions for c in calls(f)} - defined)
        missing = [c for c in missing if c not in defined]
        if missing:
            verdicts.append(("model_proto:call_to_undefined_function", f"{missing} called but not among the model's functions {sorted(defined)}"))
    return verdicts, info


def _checker_class(msg):
    if "expect a float" in msg or "expect an integer" in msg or "ref_attr_name" in msg or "should not have more than one" in msg or "Attribute 'value" in msg:
        return ":attr_ref_in_main_graph"
    m = re.search(r"\(op_type:(\w+)", msg)
    return ":" + m.group(1) if m else ""


def evaluate(source, prog, kind):
    info = {"kind": kind}
    try:
        import onnxscript
        from onnxscript import values as _values

        mod = scriptgen.compile_source(source, prog.opset, extra_globals={"graph": onnxscript.graph, "msop": _values.Opset("com.microsoft", 1),
                                                                          "G_FLAG": True, "G_SCALE": 2.0})
    except Exception as e:  # noqa: BLE001
        msg = f"{type(e).__name__}: {e}"
        info["refused"] = msg[:200]
        info["has_position"] = bool(re.search(r"line \d+|at: Function", msg))
        return [], info
    try:
        if kind in MUST_REFUSE:
            v, i2 = check_accepted(mod, prog)
            return [(f"must_refuse_but_accepted:{kind}", "decorator accepted a program whose only translation leaves a value undefined on a path")] + v, info
        v, i2 = check_accepted(mod, prog)
        info.update(i2)
        return v, info
    finally:
        scriptgen.release(mod)


def run_shard(spec):
    col = Collector()

    def body(case):
        gp, kind, data = case
        prog = mutate(gp.prog, kind, data.draw)
        if prog is None:
            col.skip("mutation_not_applicable")
            return
        source = scriptgen.program_src(prog)
        if kind == "call_same_name_two_domains":
            source = TWIN_SRC + source
        verdicts, info = evaluate(source, prog, kind)
        refused = "refused" in info
        nontrivial = (refused and kind != "none") or (not refused and has_subgraph(prog.body))
        classes = ["mutation:" + kind, ("refused:" if refused else "accepted:") + kind]
        if refused:
            classes.append("refusal_has_position" if info.get("has_position") else "refusal_without_position")
            if kind == "none":
                classes.append("grammar_program_refused")
        if info.get("to_model_proto_refused"):
            classes.append("to_model_proto_refused")
        col.case(source, nontrivial, classes, sample={"mutation": kind, "refused": info.get("refused"), "source": source})
        for bucket, detail in verdicts:
            col.violation(bucket, detail, {"source": source, "kind": kind, "name": prog.name, "helpers": [h.name for h in prog.helpers], "opset": prog.opset},
                          size=len(source))

    drive(st.tuples(scriptgen.programs(), st.sampled_from(MUTATIONS), st.data()), body, spec["n"], spec["seed"])
    return col.result()


def replay(case):
    prog = scriptgen.Program(case["name"], [], [], [], [], [], case["opset"], [scriptgen.Program(h, [], [], [], [], [], case["opset"]) for h in case["helpers"]])
    verdicts, _ = evaluate(case["source"], prog, case["kind"])
    return verdicts


def _attribute_parameter_with_default(case):
    import re

    return bool(re.search(r":\s*(float|int|bool)\s*=", case.get("source", "")))


REGIONS = {"attribute_parameter_with_default_in_model_proto": _attribute_parameter_with_default}
