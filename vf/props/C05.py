"""C05 - each shipped rewrite rule preserves semantics wherever it fires."""
from __future__ import annotations

import importlib
import os
import pkgutil

import onnx

from vf import compare, modelgen, optcommon, wellformed
from vf.hyp import drive, st
from vf.runner import Collector

ID = "C05"
EARLY_ATTRIBUTION = True  # region predicates are cheap scans of the stored case
LEVEL = "exploration"
RULE = ("For every rule object exported by onnxscript.rewriter.rules.common (and the module-level rules of rules.fusion) a host "
        "strategy (vf/rulehosts) emits a small model embedding an instance or a near-miss of the rule's target pattern with "
        "parameters drawn from the rule's parameter space (ranks, broadcast shapes, eps-sized/almost-equal constants, inverted "
        "bounds, non-default attributes, symbolic dims, extra consumers, operands as input/initializer/Constant/overridable), "
        "host opset 13..23. Exactly that rule (set) is applied with RewriteRuleSet.apply_to_model; count>0 => result passes the "
        "walker + onnx.checker for the declared opset and is equivalent on >=3 inputs (ORT + onnx.reference decision table). "
        "Non-trivial = the rule fired; distinct by (rule, model hash).")
ASSUMPTIONS = ["onnxruntime CPU (optimisations off) and onnx.reference implement ONNX semantics", "onnx.checker + vf/wellformed.py define validity",
               "host strategies enumerate only the parameter combinations listed in vf/rulehosts/*.py docstrings"]
FLOOR = {"quick": 300, "thorough": 3000}
TIMEOUT = {"quick": 1500, "thorough": 5 * 3600}
MIN_FIRED_PER_RULE = 5


import functools


@functools.lru_cache(maxsize=1)
def rule_units():
    """{export name: RewriteRuleSet} for every exported rule / rule set, taken from the packages at run time."""
    import onnxscript.rewriter.rules.common as C
    import onnxscript.rewriter.rules.fusion as F
    from onnxscript.rewriter._rewrite_rule import RewriteRule, RewriteRuleSet

    units = {}
    for n in C.__all__:
        r = getattr(C, n)
        if callable(r) and not isinstance(r, (RewriteRule, RewriteRuleSet)):
            r = r()
        if isinstance(r, RewriteRule):
            r = RewriteRuleSet([r])
        elif isinstance(r, (list, tuple)):
            r = RewriteRuleSet(list(r))
        units[n] = r
    for n in getattr(F, "__all__", []):  # rules.fusion exports nothing today; a future export is picked up here
        r = getattr(F, n)
        if isinstance(r, RewriteRule):
            units[n] = RewriteRuleSet([r])
        elif isinstance(r, RewriteRuleSet):
            units[n] = r
    if os.environ.get("VERIF_C05_FUSION_MODULES") != "1":
        return units
    # not exported (outside the property's quantifier): module-level rules of rules/fusion/*.py, on request only
    for m in pkgutil.iter_modules(F.__path__):
        if m.name.endswith("_test"):
            continue
        mod = importlib.import_module("onnxscript.rewriter.rules.fusion." + m.name)
        for k, v in vars(mod).items():
            if isinstance(v, RewriteRule):
                units[f"fusion.{m.name}.{k}"] = RewriteRuleSet([v])
            elif isinstance(v, RewriteRuleSet):
                units[f"fusion.{m.name}.{k}"] = v
    return units


def hosts():
    from vf.rulehosts.plant import HOSTS

    return HOSTS


def plan(tier, seed, budget):
    units = rule_units()
    names = sorted(units)
    H = hosts()
    per_rule = int((240 if tier == "quick" else 6000) * budget)
    only = os.environ.get("VERIF_ONLY")
    specs = []
    for n in names:
        if only and only not in n:
            continue
        if n in H:
            reps = 1 if tier == "quick" else 4
            scale = max(1, min(4, len(units[n].rules) // 10))  # large rule sets (38 expand rules) get proportionally more hosts
            for r in range(reps):
                specs.append({"rule": n, "n": max(1, per_rule * scale // reps), "rep": r})
    specs.append({"rule": None, "uncovered": [n for n in names if n not in H], "n": 0})
    return specs


@st.composite
def host_models(draw, planter, stratum=None):
    cfg = {"value_info": True, "zero_dims": False, "overridable": True, "max_depth": 1, "stratum": stratum}
    g = modelgen.Gen(draw, cfg)
    outs = planter(g)
    if not outs:
        return None
    extra = draw(st.integers(0, 2))
    if extra:
        g.cfg["disable"] = ("g_if", "g_loop", "g_function_call", "g_sequence")
        g.grow(extra)
    return modelgen.assemble(g, draw, force_outputs=[o for o in outs if isinstance(o.arr, __import__("numpy").ndarray)])


def apply_rule(model, rule_name, commute=False):
    from onnxscript import ir
    from onnxscript.rewriter._rewrite_rule import RewriteRuleSet

    rs = rule_units()[rule_name]
    if commute:
        try:
            rs = RewriteRuleSet(list(rs.rules), commute=True)
        except Exception:  # noqa: BLE001  (e.g. variadic Min/Max patterns cannot be commuted: use the rule as exported)
            pass
    mi = ir.serde.deserialize_model(model)
    try:
        count = rs.apply_to_model(mi)
    except Exception as e:  # noqa: BLE001
        return ("raise", f"{type(e).__name__}: {str(e)[:300]}", optcommon.innermost_frame(e))
    try:
        return ("ok", count, ir.serde.serialize_model(mi))
    except Exception as e:  # noqa: BLE001  the rewritten model cannot even be serialised
        return ("raise", f"{type(e).__name__}: {str(e)[:300]}", "unserializable_result:" + optcommon.innermost_frame(e))


def check(model, rule_name, feeds_list, commute=False):
    verdicts, info = [], {"fired": 0}
    r = apply_rule(model, rule_name, commute)
    if r[0] == "raise":
        return [(f"raise:{rule_name}:{r[2]}", r[1])], info
    _, count, new = r
    info["fired"] = count
    if not count:
        return verdicts, info
    for kind, msg in wellformed.check_model(new)[:2]:
        verdicts.append((f"invalid:{rule_name}:{kind}", msg))
    src = compare.Source(model)
    v, d = compare.decide(src, new, feeds_list)
    info["verdict"] = v
    if v.startswith("violation"):
        single = ":single-runtime" if ("ref: None" in d or "ort: None" in d) else ""
        verdicts.append((f"{v}:{rule_name}{single}", d))
    return verdicts, info


def run_shard(spec):
    col = Collector()
    if spec["rule"] is None:
        col.extra["uncovered_rules"] = list(spec["uncovered"])
        return col.result()
    rule = spec["rule"]
    planters = hosts()[rule]
    fired = [0]

    def body(case):
        commute, gm = case
        if gm is None:
            col.skip("planter_declined")
            return
        if wellformed.check_model(gm.model):
            col.skip("host_invalid:" + rule)
            return
        seeds = gm.seeds(3)
        feeds_list = [gm.sample_feeds] + [gm.feeds(s) for s in seeds[:2]] + ([gm.feeds(seeds[2], override=True)] if gm.overridable else [])
        src = compare.Source(gm.model)
        a, b, _ = src.run(gm.sample_feeds)
        if a[0] != "ok" and b[0] != "ok":
            col.skip("host_not_executable:" + rule)
            return
        verdicts, info = check(gm.model, rule, feeds_list, commute)
        f = info.get("fired", 0)
        if f:
            fired[0] += 1
        planted = [x for x in gm.features if x.startswith("planted:")]
        classes = [("fired:" if f else "not_fired:") + rule] + [p + (":fired" if f else ":not_fired") for p in planted]
        if info.get("verdict"):
            classes.append("verdict:" + info["verdict"])
        col.case((rule, modelgen.model_hash(gm.model)), bool(f), classes,
                 sample={"rule": rule, "model": modelgen.model_text(gm.model, 1200)})
        for bucket, detail in verdicts:
            col.violation(bucket, detail, {"rule": rule, "model": optcommon.model_to_json(gm.model), "text": modelgen.model_text(gm.model, 4000),
                                           "feeds": [optcommon.feeds_to_json(x) for x in feeds_list], "features": gm.features, "commute": commute}, size=gm.n_nodes)

    # planters that declare scenarios (fn.strata = K) are run once per scenario, each with its share of the budget (stratified near-miss classes)
    K = max(getattr(p, "strata", 1) for p in planters)
    for k in range(K):
        strat = st.tuples(st.booleans(), st.sampled_from(planters).flatmap(lambda p, k=k: host_models(p, k if K > 1 else None)))
        drive(strat, body, max(1, spec["n"] // K), spec["seed"] + 7919 * k)
    col.extra["fired_per_rule"] = {rule: fired[0]}
    return col.result()


def finalize(merged, tier):
    fired = merged["extra"].get("fired_per_rule", {})
    low = sorted(r for r, c in fired.items() if c < MIN_FIRED_PER_RULE)
    merged["extra"]["rules_below_fire_floor"] = low
    merged["extra"]["rules_covered"] = len(fired)


def replay(case):
    model = optcommon.model_from_json(case["model"])
    feeds = [optcommon.feeds_from_json(f) for f in case["feeds"]]
    verdicts, _ = check(model, case["rule"], feeds, case.get("commute", False))
    return verdicts


from vf.known_regions import REGIONS  # noqa: E402
