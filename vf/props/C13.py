"""C13 - ONNX -> Python (proto2python) -> ONNX round-trips to an equivalent model."""
from __future__ import annotations

import linecache
import sys
import types

import numpy as np
import onnx
from onnx import helper

from vf import compare, modelgen, optcommon, scriptgen, wellformed
from vf.hyp import drive, st
from vf.runner import Collector

ID = "C13"
EARLY_ATTRIBUTION = True  # region predicates are cheap scans of the stored case
LEVEL = "exploration"
RULE = ("(i) ModelProtos/FunctionProtos obtained from grammar-generated script functions (the documented round trip) and (ii) "
        "Hypothesis-generated tensor-typed models over standard-domain operators with If/Loop bodies without scan outputs, value names "
        "needing clean-up (dots, leading digits, keywords, names colliding after clean-up) and special constants; x option tuples "
        "(rename, use_operators, inline_const, skip_initializers: drawn in quick, all 16 in thorough). Oracle: proto2python does not "
        "raise; the text compiles and exec()s; it defines a script function (make_model(**initializers) for skip_initializers) whose "
        "to_model_proto() has the same number/order/types of graph inputs and outputs and agrees on >=3 inputs (onnxruntime + "
        "onnx.reference decision table). Non-trivial = control flow, >=2 names needing clean-up or a special constant; distinct by "
        "(model hash, options).")
ASSUMPTIONS = ["onnxruntime CPU (optimisations off) and onnx.reference implement ONNX semantics", "names are compared positionally (the documented clean-up renames them)"]
FLOOR = {"quick": 100, "thorough": 1500}
TIMEOUT = {"quick": 1500, "thorough": 5 * 3600}

CFG = {"weird_names": True, "zero_dims": True, "value_info": False, "max_nodes": 8, "scan_outputs": False,
       "disable": ("g_sequence", "g_function_call"), "overridable": False}
OPTS = ["rename", "use_operators", "inline_const", "skip_initializers"]


def _effective_attr_diff(before, after):
    from collections import Counter

    def settings(m):
        ver = {o.domain or "": o.version for o in m.opset_import}
        out = {}

        def walk(nodes):
            for n in nodes:
                for a in n.attribute:
                    if a.type == onnx.AttributeProto.GRAPH:
                        walk(a.g.node)
                if n.domain not in ("", "ai.onnx") or n.op_type in ("Constant", "ConstantOfShape", "If", "Loop", "Scan", "Cast", "CastLike"):
                    continue
                try:
                    sch = onnx.defs.get_schema(n.op_type, ver.get("", 1), "")
                except Exception:  # noqa: BLE001
                    continue
                eff = {}
                for name, ad in sch.attributes.items():
                    if ad.type in (onnx.AttributeProto.INT, onnx.AttributeProto.FLOAT, onnx.AttributeProto.STRING, onnx.AttributeProto.INTS) and ad.default_value.name:
                        eff[name] = helper.get_attribute_value(ad.default_value)
                for a in n.attribute:
                    if a.ref_attr_name:
                        eff[a.name] = ("ref", a.ref_attr_name)
                    elif a.type in (onnx.AttributeProto.INT, onnx.AttributeProto.FLOAT, onnx.AttributeProto.STRING, onnx.AttributeProto.INTS):
                        eff[a.name] = helper.get_attribute_value(a)
                key = tuple(sorted((k, repr(list(v) if isinstance(v, (list, tuple)) or hasattr(v, "__len__") and not isinstance(v, (str, bytes)) else v)) for k, v in eff.items()))
                out.setdefault(n.op_type, Counter())[key] += 1

        walk(m.graph.node)
        return out

    sb, sa = settings(before), settings(after)
    for opt, cb in sorted(sb.items()):
        ca = sa.get(opt)
        if ca is None or sum(ca.values()) != sum(cb.values()) or ca == cb:
            continue
        lost, gained = list((cb - ca).elements())[:1], list((ca - cb).elements())[:1]
        return opt, f"{opt}: {lost} -> {gained}"
    return None


def _plant_loop_cond_passthrough(g):
    """Loop(M, cond, ...) with a positive constant trip count and a condition (false / true constant, or a bool graph input) that the body
    hands on unchanged: a false condition means zero iterations.  The exporter may refuse this form; it must not turn it into `for i in range(M)`."""
    if g.depth or "g_loop" in g.cfg.get("disable", ()):
        return None
    return g.g_loop(cond_passthrough=g.pick(["false", "false", "input", "true"]))


def _plant_old_opset_attr(g):
    import numpy as np

    if not g.set_opset(g.pick([11, 12, 12])):
        return None
    rank = g.pick([2, 3, 3, 4])
    x = g.add_input(np.dtype("float32"), tuple(g.pick([1, 2, 3]) for _ in range(rank)))
    op = g.pick(["Softmax", "LogSoftmax", "Hardmax", "Softmax"])
    ax = g.pick([-1, -1, -1, rank - 1, 1, 0, None])
    r = g.emit(op, [x], **({} if ax is None else {"axis": ax}))
    g.features.add(f"old_opset_attr:{op}:axis={ax}")
    if r:
        g.__dict__.setdefault("forced", []).extend(r)
    return r


def plan(tier, seed, budget):
    n = int((1600 if tier == "quick" else 24000) * budget)
    shards = 16 if tier == "quick" else 64
    specs = [{"n": max(1, n // shards), "kind": "gen"} for _ in range(shards - 4)]
    specs += [{"n": max(1, n // shards), "kind": "script"} for _ in range(4)]
    return specs


_COUNT = [0]


def exec_text(text, initializers=None):
    """exec the generated python text; returns the OnnxFunction it defines."""
    _COUNT[0] += 1
    modname = f"verif_p2p_{_COUNT[0]}"
    fn = f"<verif:{modname}>"
    linecache.cache[fn] = (len(text), None, text.splitlines(True), fn)
    mod = types.ModuleType(modname)
    sys.modules[modname] = mod
    try:
        code = compile(text, fn, "exec", dont_inherit=True)
        exec(code, mod.__dict__)  # noqa: S102
        import onnxscript

        if "make_model" in mod.__dict__ and initializers is not None:
            f = mod.make_model(**initializers)
            return f
        fs = [v for v in mod.__dict__.values() if isinstance(v, onnxscript.OnnxFunction)]
        if not fs:
            raise RuntimeError("generated text defines no script function")
        return fs[-1]
    finally:
        sys.modules.pop(modname, None)


def sig_types(model):
    def t(v):
        tt = v.type.tensor_type
        return (tt.elem_type, len(tt.shape.dim) if tt.HasField("shape") else None)

    return [t(v) for v in model.graph.input if v.name not in {i.name for i in model.graph.initializer}], [t(v) for v in model.graph.output]


def check(model, opts, feeds_list):
    import onnxscript

    verdicts, info = [], {}
    tag = "+".join(k for k in OPTS if opts.get(k)) or "default"
    try:
        text = onnxscript.proto2python(model, **opts)
    except Exception as e:  # noqa: BLE001
        return [(f"export_raises:{optcommon.innermost_frame(e)}", f"{type(e).__name__}: {str(e)[:300]}")], info
    info["text"] = text
    inits = None
    if opts.get("skip_initializers"):
        from onnx import numpy_helper

        inits = {}
        for i in model.graph.initializer:
            inits[i.name] = numpy_helper.to_array(i)
        sub = [i for i in _all_inits(model.graph)][len(model.graph.initializer):]
        if sub:
            # initializers of subgraphs are lifted into make_model parameters as well: resolvable by (cleaned) name only
            if opts.get("rename") or len({i.name for i in sub} | set(inits)) != len(sub) + len(inits):
                inits = None if not any(np.prod(i.dims) > 4 for i in sub) else "unmappable"
            else:
                for i in sub:
                    inits[i.name] = numpy_helper.to_array(i)
    try:
        compile(text, "<p2p>", "exec", dont_inherit=True)
    except SyntaxError as e:
        return [(f"text_not_python:{'skip_initializers' if opts.get('skip_initializers') else 'any'}:{type(e).__name__}", f"{e}\n{text[:1500]}")], info
    if isinstance(inits, str):
        info["outcomes"] = ["harness_cannot_call_make_model"]
        return [], info
    if inits is None and opts.get("skip_initializers"):
        inits = {i.name: numpy_helper.to_array(i) for i in model.graph.initializer}
    try:
        if inits is not None:
            # the generated make_model takes the cleaned-up initializer names
            import inspect

            f = None
            ns = {}
            try:
                f = exec_text(text, _match_inits(text, inits))
            except TypeError:
                raise
        else:
            f = exec_text(text)
        new = f if isinstance(f, onnx.ModelProto) else f.to_model_proto()  # make_model() of the skip_initializers form returns the proto
    except _HarnessLimit:
        info["outcomes"] = ["harness_cannot_call_make_model"]
        return [], info
    except Exception as e:  # noqa: BLE001
        return [(f"text_not_executable:{type(e).__name__}:{_msg_class(str(e))}", f"{type(e).__name__}: {str(e)[:300]}\n{text[:1500]}")], info
    bi, bo = sig_types(model)
    ai, ao = sig_types(new)
    if [x[0] for x in bi] != [x[0] for x in ai] or len(bi) != len(ai):
        verdicts.append(("signature:inputs", f"{bi} -> {ai}"))
    if [x[0] for x in bo] != [x[0] for x in ao] or len(bo) != len(ao):
        verdicts.append(("signature:outputs", f"{bo} -> {ao}"))
    # declared static dimensions of graph inputs / outputs must come back as they were (symbolic / unknown ones may be renamed or dropped)
    def static_dims(m):
        ini = {i.name for i in m.graph.initializer}

        def d(v):
            tt = v.type.tensor_type
            return [x.dim_value if x.HasField("dim_value") else None for x in tt.shape.dim] if tt.HasField("shape") else None

        return [d(v) for v in m.graph.input if v.name not in ini], [d(v) for v in m.graph.output]

    if not verdicts:
        for what, b, a in zip(("inputs", "outputs"), static_dims(model), static_dims(new)):
            for x, y in zip(b, a):
                if x is not None and (y is None or len(x) != len(y) or any(p is not None and p != q for p, q in zip(x, y))):
                    verdicts.append((f"signature:{what}-dims", f"{b} -> {a}"))
                    break
    if verdicts:
        return verdicts, info
    # effective attributes: for every operator type that occurs equally often before and after, the multiset of attribute settings - an
    # omitted attribute standing for the default of the schema AT THE MODEL'S OWN OPSET - must be the same (decided on the protos: a
    # runtime whose kernel does not honour an old default cannot mask it)
    d_attr = _effective_attr_diff(model, new)
    if d_attr:
        verdicts.append((f"roundtrip:attribute_changed:{d_attr[0]}", f"{d_attr[1]}\n{text[:1200]}"))
        return verdicts, info
    # positional renaming of feeds
    inits_b = {i.name for i in model.graph.initializer}
    inits_a = {i.name for i in new.graph.initializer}
    old_names = [v.name for v in model.graph.input if v.name not in inits_b]
    new_names = [v.name for v in new.graph.input if v.name not in inits_a]
    src = compare.Source(model, use_ref=not _reference_unreliable(model))
    newsrc = compare.Source(new, use_ref=not _reference_unreliable(new))
    outcomes = []
    for feeds in feeds_list:
        f2 = {n2: feeds[n1] for n1, n2 in zip(old_names, new_names) if n1 in feeds}
        a, b, scale = src.run(feeds)
        if a[0] != "ok" and b[0] != "ok":
            outcomes.append("skip_source_fails")
            continue
        k = 16 * src.nnodes
        if a[0] == "ok" and b[0] == "ok" and compare.same_outputs(a[1], b[1], scale, k):
            outcomes.append("skip_runtime_disagreement")
            continue
        c, d, _ = newsrc.run(f2)
        comps = []
        if a[0] == "ok":
            comps.append(("EXEC " + c[1]) if c[0] != "ok" else (compare.same_outputs(a[1], c[1], scale, k) or ""))
        if b[0] == "ok" and newsrc.ev is not None or (b[0] == "ok" and newsrc.ev_err is not None):  # (not when the reference runtime is switched off for the result)
            comps.append(("EXEC " + d[1]) if d[0] != "ok" else (compare.same_outputs(b[1], d[1], scale, k) or ""))
        if not comps:
            outcomes.append("skip_no_common_runtime")
            continue
        if all(x == "" for x in comps):
            outcomes.append("ok")
        elif all(x != "" for x in comps):
            kind = "not_executable" if all(x.startswith("EXEC") for x in comps) else "different_computation"
            verdicts.append((f"roundtrip:{kind}:{tag}", f"{comps} | inputs {compare._feeds_repr(feeds)}\n{text[:1500]}"))
            outcomes.append("violation")
            break
        else:
            outcomes.append("split")
    info["outcomes"] = outcomes
    return verdicts, info


def _reference_unreliable(model):
    """onnx.reference runs ZERO iterations of a Loop whose condition operand is omitted when the body hands its condition input on
    (`cond_out = Identity(cond_in)`: the missing operand reaches the body as None) - the form every `for i in range(n)` of a script is
    translated to.  ONNX and onnxruntime run n iterations.  Models with such a Loop are executed on onnxruntime only."""
    def walk(g):
        for n in g.node:
            for a in n.attribute:
                if a.type == onnx.AttributeProto.GRAPH and walk(a.g):
                    return True
            if n.op_type == "Loop" and (len(n.input) < 2 or n.input[1] == ""):
                body = next(a.g for a in n.attribute if a.name == "body")
                cin, cout = body.input[1].name, body.output[0].name
                if cin == cout or any(x.op_type == "Identity" and list(x.input) == [cin] and list(x.output) == [cout] for x in body.node):
                    return True
        return False

    return walk(model.graph)


class _HarnessLimit(Exception):
    """The harness cannot drive this generated text (not a verdict about the exporter)."""


def _msg_class(msg):
    import re

    if "Unbound name" in msg:
        return "Unbound name"
    m = re.sub(r"['\"].*?['\"]", "_", msg)
    m = re.sub(r"\d+", "N", m)
    return m[:50]


def _match_inits(text, inits):
    """Map the model's initializers onto the parameters of the generated make_model(): the exporter lifts only initializers with more than
    4 elements.  By cleaned-up name where possible, else by position (main-graph initializers keep their order)."""
    import re

    m = re.search(r"def make_model\((.*?)\):", text, re.S)
    params = [p.strip().split(":")[0].strip() for p in m.group(1).split(",") if p.strip()] if m else []
    by_clean = {}
    for k, v in inits.items():
        by_clean.setdefault(re.sub(r"\W", "_", k), []).append(v)
    if all(p in by_clean and len(by_clean[p]) == 1 for p in params):
        return {p: by_clean[p][0] for p in params}
    big = [v for v in inits.values() if getattr(v, "size", 0) > 4]
    if len(params) == len(big):
        return dict(zip(params, big))
    vals = list(inits.values())
    if len(params) != len(vals):
        raise _HarnessLimit(f"make_model takes {params}, model has initializers {list(inits)}")
    return dict(zip(params, vals))


def nontrivial(model):
    names = [n for nd in model.graph.node for n in nd.output] + [i.name for i in model.graph.input]
    weird = sum(1 for n in names if not n.isidentifier() or n in ("if", "for", "class", "lambda", "in"))
    cf = any(nd.op_type in ("If", "Loop") for nd in model.graph.node)
    return cf or weird >= 2


def run_shard(spec):
    col = Collector()
    all16 = spec["tier"] == "thorough"
    opt_strategy = st.fixed_dictionaries({k: st.booleans() for k in OPTS})

    def handle(model, feeds_list, opts, classes):
        verdicts, info = check(model, opts, feeds_list)
        key = (modelgen.model_hash(model), sorted(opts.items()))
        col.case(key, nontrivial(model), classes + ["opts:" + ("+".join(k for k in OPTS if opts[k]) or "default")] + ["outcome:" + o for o in set(info.get("outcomes", []))],
                 sample={"options": opts, "model": modelgen.model_text(model, 800), "python": (info.get("text") or "")[:800]})
        for bucket, detail in verdicts:
            col.violation(bucket, detail, {"model": optcommon.model_to_json(model), "opts": opts, "text": modelgen.model_text(model, 3000),
                                           "feeds": [optcommon.feeds_to_json(f) for f in feeds_list]}, size=len(model.graph.node))

    if spec["kind"] == "gen":
        def body(case):
            opts, gm = case
            if wellformed.check_model(gm.model):
                col.skip("generator_invalid")
                return
            feeds_list = [gm.sample_feeds] + [gm.feeds(s) for s in gm.seeds()]
            feats = [f for f in gm.features if not f.startswith(("op:", "in:", "const:"))]
            for o in ([opts] if not all16 else [dict(zip(OPTS, bits)) for bits in __import__("itertools").product([False, True], repeat=4)]):
                handle(gm.model, feeds_list, o, feats)

        from vf.rulehosts.plant_noop import plant_if_scopes, plant_loop_scopes, plant_operator_table

        cfg = dict(CFG, extra_generators=[plant_if_scopes, plant_loop_scopes, plant_loop_scopes, plant_operator_table, plant_operator_table, _plant_loop_cond_passthrough],
                   extra_weight=2)
        n_main = spec["n"] if not all16 else max(1, spec["n"] // 16)
        drive(st.tuples(opt_strategy, modelgen.models(cfg)), body, n_main, spec["seed"])
        # models of OLDER opsets whose nodes spell out an attribute: the exported text names the operator of the model's own opset, whose
        # defaults are not those of the current schema (Softmax family: axis 1 with 2-D coercion before opset 13, -1 afterwards)
        drive(st.tuples(opt_strategy, modelgen.models(dict(cfg, pre=_plant_old_opset_attr, min_inputs=0, max_inputs=1, max_nodes=3, min_nodes=0))), body,
              max(2, n_main // 8), spec["seed"] + 13)
    else:
        def body(case):
            opts, gp = case
            if gp.prog.attrs:
                col.skip("script_has_attribute_params")
                return
            try:
                mod = scriptgen.compile_source(gp.source, gp.prog.opset)
            except Exception:  # noqa: BLE001
                col.skip("script_refused")
                return
            try:
                model = getattr(mod, gp.prog.name).to_model_proto()
            except Exception:  # noqa: BLE001
                col.skip("to_model_proto_refused")
                return
            finally:
                scriptgen.release(mod)
            if wellformed.check_model(model):
                col.skip("script_model_invalid(see C02)")
                return
            names = [p[0] for p in gp.prog.params]
            feeds_list = [dict(zip(names, gp.sample_inputs))] + [dict(zip(names, gp.inputs(s))) for s in (11, 23)]
            handle(model, feeds_list, opts, ["from_script"] + [f for f in gp.features if f in ("if", "for", "while", "subcall")])

        # (a function with attribute parameters cannot be exported as a model: the main function has none; helpers keep theirs)
        drive(st.tuples(opt_strategy, scriptgen.programs(main_attrs=False, multicall_one_in=3)), body, spec["n"], spec["seed"])
    return col.result()


def replay(case):
    model = optcommon.model_from_json(case["model"])
    feeds = [optcommon.feeds_from_json(f) for f in case["feeds"]]
    verdicts, _ = check(model, case["opts"], feeds)
    return verdicts


def _m(case):
    return optcommon.model_from_json(case["model"])


def _all_names(g, out):
    out += [i.name for i in g.input] + [i.name for i in g.initializer] + [o.name for o in g.output]
    for n in g.node:
        out += [o for o in n.output if o]
        for a in n.attribute:
            if a.type == onnx.AttributeProto.GRAPH:
                _all_names(a.g, out)
    return out


def _collide(case):
    import re

    names = set(_all_names(_m(case).graph, []))
    seen = {}
    for n in names:
        k = re.sub(r"\W", "_", n)
        if k in seen and seen[k] != n:
            return True
        seen[k] = n
    return False


def _nodes(g):
    for n in g.node:
        yield n
        for a in n.attribute:
            if a.type == onnx.AttributeProto.GRAPH:
                yield from _nodes(a.g)


def _dead_if(case):
    m = _m(case)
    used = set(o.name for o in m.graph.output)
    for n in _nodes(m.graph):
        used.update(n.input)
    return any(n.op_type == "If" and not any(o in used for o in n.output) for n in _nodes(m.graph))


def _empty_1d_const(case):
    from onnx import numpy_helper

    m = _m(case)
    for i in m.graph.initializer:
        if list(i.dims) == [0]:
            return True
    for n in _nodes(m.graph):
        if n.op_type == "Constant":
            for a in n.attribute:
                if a.name == "value" and list(a.t.dims) == [0]:
                    return True
                if a.name in ("value_ints", "value_floats") and len(a.ints) + len(a.floats) == 0:
                    return True
    return False


def _all_inits(g):
    yield from g.initializer
    for n in g.node:
        for a in n.attribute:
            if a.type == onnx.AttributeProto.GRAPH:
                yield from _all_inits(a.g)


def _dup_init_names(case):
    from collections import Counter

    n = Counter(i.name for i in _all_inits(_m(case).graph))
    return any(v > 1 for v in n.values())


def _opset(case):
    return next((o.version for o in _m(case).opset_import if o.domain in ("", "ai.onnx")), 99)


_PY_OPERATORS = {"Add", "Sub", "Mul", "MatMul", "Div", "Pow", "And", "Or", "Greater", "Equal", "Lesser", "GreaterOrEqual", "LessOrEqual"}


def _operator_only_body(case):
    m = _m(case)
    inline = bool(case["opts"].get("inline_const"))

    def only_ops(nodes):
        nodes = [n for n in nodes if not (inline and n.op_type == "Constant")]
        return bool(nodes) and all(n.op_type in _PY_OPERATORS and n.domain in ("", "ai.onnx") for n in nodes)

    return only_ops(m.graph.node) or any(only_ops(f.node) for f in m.functions)


REGIONS = {
    # two value names that become the same Python identifier after clean-up ('a.b' / 'a_b'): wrong computation or duplicate argument
    "names_collide_after_cleanup": _collide,
    # (main graph or any subgraph: initializers of branches / loop bodies are skipped as well)
    "skip_initializers_random_weights_unsupported_dtype": lambda c: bool(c["opts"].get("skip_initializers")) and any(i.data_type != 1 for i in _all_inits(_m(c).graph)),
    # Python constants (inlined Constant nodes / initializers passed as numpy parameters) are typed by the converter with CastLike,
    # which does not exist before opset 15: the generated script denotes a model that no runtime accepts
    "python_constants_need_castlike_before_opset15": lambda c: (bool(c["opts"].get("inline_const")) or bool(c["opts"].get("skip_initializers"))) and _opset(c) < 15,
    "inline_const_drops_still_referenced_definition": lambda c: bool(c["opts"].get("inline_const")),
    "inline_const_empty_list": lambda c: bool(c["opts"].get("inline_const")) and _empty_1d_const(c),
    "if_with_unused_outputs": _dead_if,
    # skip_initializers=True turns every large initializer of every (sub)graph into one parameter of make_model, keyed by name: the same
    # name in two disjoint scopes (legal ONNX) makes the exporter give up with RuntimeError('... already present in skipped_initializers')
    "skip_initializers_same_name_in_two_scopes": lambda c: bool(c["opts"].get("skip_initializers")) and _dup_init_names(c),
    "loop_nested_in_if_branch": lambda c: any(n.op_type == "If" and any(x.op_type == "Loop" for a in n.attribute if a.type == onnx.AttributeProto.GRAPH for x in _nodes(a.g))
                                              for n in _nodes(_m(c).graph)),
    "loop_with_condition_break_first": lambda c: any(n.op_type == "Loop" for n in _nodes(_m(c).graph)),
}
