"""C12 - Python literals are promoted identically by converter, eager mode and builder."""
from __future__ import annotations

import keyword
import math
import os
import re

import numpy as np

from vf import optcommon
from vf.hyp import drive, st
from vf.runner import Collector

ID = "C12"
EARLY_ATTRIBUTION = True  # region predicates are cheap scans of the stored case
LEVEL = "exploration"
EXHAUSTIVE = True
RULE = ("Exhaustive part: every non-deprecated (op, since_version) of the default domain reachable from opsets 13..23 (thorough: 1..23) that "
        "has >=1 input and no graph attribute x every input position that admits a tensor (plus one position in a variadic tail; thorough: "
        "three) x literals {0, 1, -3, 2.5, -0.0, True, [1, 2], [0.5]} (thorough: 8 more float32-exact ones) x layout (optional predecessors "
        "as tensors / as None; literal alone or followed by a tensor in a variadic) x call form (positional; the literal passed by keyword as "
        "the last provided input, with or without omitted optional inputs before it; Python operator `X + LIT` / `LIT + X` for the 14 ops the "
        "converter maps operators to) x sibling mode (siblings = other operands whose formal parameter has the same schema type variable: "
        "tensors of every schema-allowed dtype among 13 numpy-backed dtypes / all siblings literal / no sibling). The call text "
        "`op.Op(X0, LIT, ..., required_attr=dummy)` is (1) translated inside a @script function (all statements of one op in one function) and "
        "the Constant[+CastLike] chain feeding operand p is evaluated with onnx.reference for the sibling dtype, (2) evaluated as Python under "
        "a spy BaseEvaluator that records the adapted inputs and returns dummies, (3) evaluated against GraphBuilder.op with typed inputs "
        "(initializer read back) and with untyped inputs (initializer + CastLike evaluated with onnx.reference); operator forms have no "
        "builder route. The op itself is never executed. Oracle: each front end yields, AT THE SCHEMA POSITION of the literal, the element "
        "type given by the rule (sibling's dtype if a type variable is shared, else INT64/FLOAT/BOOL by Python type), the literal's shape "
        "(scalar -> rank 0, list -> rank 1) and the literal's value converted to that type (bit-exact incl. the sign of zero; float literal -> "
        "FLOAT is round-to-nearest); a refusal is accepted only where the literal is not exactly representable in the target type, and then "
        "no value is demanded. A front end that also refuses the same call with a tensor in place of the literal is not judged on that call. "
        "Sequence part (Hypothesis): 2..8 literal uses from a 30-op table in ONE script function / ONE GraphBuilder (typed and untyped), "
        "literal pool grouped by ==-equality (0/0.0/-0.0/False, 1/True/1.0, 2**53 neighbours, 2**24+1, NaN, inf, 0.1, 0.001, lists thereof); "
        "same oracle per use (catches constant-cache sharing); lists mixing bool/int/float have no rule target: there the front ends that "
        "accept the list must agree pairwise on type and value. Non-trivial = a sibling of a dtype other than the literal's default dtype "
        "exists, or the position is optional/variadic; distinct by (op, since, text, position, dtypes).")
ASSUMPTIONS = ["onnx.reference implements Constant and CastLike(Cast) exactly for values representable in the target type",
               "numpy (with ml_dtypes for bfloat16) converts a Python number to a dtype by correct rounding; this defines the expected value",
               "onnx.defs schemas define which operands share a type variable; ill-typed calls (siblings of different dtypes) are outside the domain",
               "evaluating the call text with op bound to the opset object under a spy evaluator is what eager mode does inside a script function",
               "a CastLike node emitted under an opset < 15 (where ONNX has no CastLike; a validity matter for C02, not judged here) means CastLike-15+",
               "only the operand at the literal's schema position is observed; the op is never executed (dummy required attributes, shape [2] operands)"]
FLOOR = {"quick": 15000, "thorough": 40000}
TIMEOUT = {"quick": 1500, "thorough": 5 * 3600}

# Named regions of confirmed findings the generators keep out of (development switch; the regions of committed known findings
# are added at run time, see active_exclusions).  Names: float_literal_rounded_via_float32, builder_cache_conflates_signed_zero,
# builder_nan_literal_twice, mixed_type_list (sequence part; the exhaustive part cannot reach them: fresh builder per case,
# float32-exact homogeneous literals)
# and keyword_input_after_omitted_optional (both parts).
EXCLUDE: set = set(filter(None, os.environ.get("VERIF_C12_EXCLUDE", "").split(",")))

SUP = ["FLOAT", "DOUBLE", "FLOAT16", "BFLOAT16", "INT8", "INT16", "INT32", "INT64", "UINT8", "UINT16", "UINT32", "UINT64", "BOOL"]
TYPE_STR = {"tensor(float)": "FLOAT", "tensor(double)": "DOUBLE", "tensor(float16)": "FLOAT16", "tensor(bfloat16)": "BFLOAT16",
            "tensor(int8)": "INT8", "tensor(int16)": "INT16", "tensor(int32)": "INT32", "tensor(int64)": "INT64",
            "tensor(uint8)": "UINT8", "tensor(uint16)": "UINT16", "tensor(uint32)": "UINT32", "tensor(uint64)": "UINT64",
            "tensor(bool)": "BOOL", "tensor(string)": "STRING"}
OPERAND_PREF = ["FLOAT", "INT64", "BOOL", "DOUBLE", "INT32", "UINT8", "FLOAT16", "INT8", "BFLOAT16", "INT16", "UINT16", "UINT32", "UINT64", "STRING"]
# onnx's C++ shape inference for SplitToSequence divides by the constant `split` (SIGFPE kills the process when a typed
# GraphBuilder infers the node).  An onnx defect, unrelated to literal promotion: the typed-builder observation is skipped there.
NATIVE_CRASH = {("SplitToSequence", 1, "0")}
MAIN_LITERALS = ["0", "1", "-3", "2.5", "-0.0", "True", "[1, 2]", "[0.5]"]
THOROUGH_LITERALS = MAIN_LITERALS + ["False", "1.0", "255", "-128", "65504.0", "[True, False]", "[-0.0]", "[3]"]  # all float32-exact
FRONTENDS = ["static", "eager", "builder", "builder_untyped"]
# Python operators the converter maps to ops (converter.primop_map) and onnxscript.tensor.Tensor overloads for eager mode.
# Reflected forms (literal on the left) only where Tensor defines the reflected method; comparisons are right-literal only
# because Python swaps `1 < X` into `X > 1` in eager mode (another op, another position).  ir.Value has no operators: no builder.
OPSYM = {"Add": "+", "Sub": "-", "Mul": "*", "Div": "/", "Pow": "**", "Mod": "%", "Less": "<", "LessOrEqual": "<=", "Greater": ">",
         "GreaterOrEqual": ">=", "Equal": "==", "And": "&", "Or": "|", "MatMul": "@"}
REFLECTED = {"+", "-", "*", "&"}


# ----------------------------------------------------------------------------- small helpers
def _ir():
    import onnx_ir as ir

    return ir


def np_dtype(name):
    if name == "STRING":
        return np.dtype(object)
    return np.dtype(_ir().DataType[name].numpy())


def lit_value(text):
    """The Python value denoted by a literal text (only texts produced by this module)."""
    return eval(text, {"__builtins__": {}}, {"NAN": float("nan")})  # noqa: S307


def default_dtype(v):
    if isinstance(v, list):
        return default_dtype(v[0])
    if isinstance(v, bool):
        return "BOOL"
    if isinstance(v, int):
        return "INT64"
    return "FLOAT"


def is_mixed(v):
    """A list whose elements are not all of one Python type (bool, int, float are three types)."""
    return isinstance(v, list) and len({type(e) for e in v}) > 1


def lit_class(v):
    if is_mixed(v):
        return "mixedlist"
    if isinstance(v, list):
        return lit_class(v[0]) + "list"
    if isinstance(v, bool):
        return "bool"
    if isinstance(v, int):
        return "bigint" if abs(v) > 2 ** 24 else ("negint" if v < 0 else "int")
    if math.isnan(v):
        return "nan"
    if math.isinf(v):
        return "inf"
    if v == 0 and math.copysign(1.0, v) < 0:
        return "negzero"
    with np.errstate(all="ignore"):
        f32 = float(np.float32(v))
    return "float" if f32 == v else "float_not_f32_exact"


def _elem_kind(e, target):
    """exact | rounded | lossy : how the Python number e relates to the element type `target`."""
    if target == "BOOL":
        return "exact" if (not (isinstance(e, float) and math.isnan(e)) and e in (0, 1)) else "lossy"
    npt = np_dtype(target)
    if npt.kind in "iu":
        if isinstance(e, bool):
            return "exact"
        if isinstance(e, float):
            if not math.isfinite(e) or e != int(e):
                return "lossy"
            e = int(e)
        info = np.iinfo(npt)
        return "exact" if info.min <= e <= info.max else "lossy"
    # floating targets
    if isinstance(e, bool):
        return "exact"
    if isinstance(e, int):
        try:
            with np.errstate(all="ignore"):
                back = npt.type(e)
            return "exact" if math.isfinite(float(back)) and int(back) == e else "lossy"
        except (OverflowError, ValueError):
            return "lossy"
    if math.isnan(e) or math.isinf(e):
        return "exact"
    if target == "DOUBLE":
        return "exact"
    with np.errstate(all="ignore"):
        back = float(npt.type(e))
    if back == e:
        return "exact"
    if target == "FLOAT" and abs(e) <= float(np.finfo(np.float32).max):
        return "rounded"  # a Python float is a double; double -> float32 is a single correctly rounded conversion
    return "lossy"  # float16/bfloat16 inexact: direct vs via-float32 rounding may legitimately differ


def expect(v, target):
    """(kind, array|None): the tensor the literal v must become in element type `target`."""
    elems = v if isinstance(v, list) else [v]
    kinds = {_elem_kind(e, target) for e in elems}
    if "lossy" in kinds:
        return "lossy", None
    with np.errstate(all="ignore"):
        arr = np.array(v, dtype=np_dtype(target))
    return ("rounded" if "rounded" in kinds else "exact"), arr


def arr_obs(a, dtype_name):
    a = np.asarray(a)
    return ("val", dtype_name, tuple(int(d) for d in a.shape), a.tobytes().hex(), _short(a))


def _short(a):
    try:
        return repr(a.tolist())[:60]
    except Exception:  # noqa: BLE001
        return "?"


def dtype_name_of_np(dt):
    ir = _ir()
    try:
        return ir.DataType.from_numpy(np.dtype(dt)).name
    except Exception:  # noqa: BLE001
        return str(dt)


def refusal(e):
    return ("refuse", type(e).__name__, str(e)[:200], optcommon.innermost_frame(e))


# ----------------------------------------------------------------------------- schema registry -> statements
def op_table(lo, hi):
    """[(name, since, V)] for the default domain: V = lowest opset in lo..hi whose schema for `name` has that since_version."""
    import onnx
    import onnxscript

    names = sorted({s.name for s in onnx.defs.get_all_schemas_with_history() if s.domain == ""})
    table, skipped = {}, {}
    for V in range(lo, hi + 1):
        opset = getattr(onnxscript, f"opset{V}", None)
        if opset is None:
            continue
        for n in names:
            try:
                s = onnx.defs.get_schema(n, V, "")
            except Exception:  # noqa: BLE001
                continue
            key = (n, s.since_version)
            if key in table or key in skipped:
                continue
            if s.deprecated:
                skipped[key] = "deprecated"
            elif not hasattr(opset, n):
                skipped[key] = "no_opset_method"
            elif not s.inputs:
                skipped[key] = "no_inputs"
            elif any(a.type in (onnx.defs.OpSchema.AttrType.GRAPH, onnx.defs.OpSchema.AttrType.GRAPHS) for a in s.attributes.values()):
                skipped[key] = "graph_attribute"
            else:
                table[key] = V
    return sorted((n, sv, V) for (n, sv), V in table.items()), skipped


def formals(schema):
    import onnx

    P = onnx.defs.OpSchema.FormalParameterOption
    cons = {c.type_param_str: list(c.allowed_type_strs) for c in schema.type_constraints}
    out = []
    for f in schema.inputs:
        allowed = cons.get(f.type_str, [f.type_str])
        tens = [TYPE_STR[a] for a in allowed if a in TYPE_STR]
        if tens:
            kind = "tensor"
        elif any(a.startswith("tensor(") for a in allowed):
            kind = "exotic"
        elif any(a.startswith("seq(") for a in allowed):
            kind = "seq"
        else:
            kind = "opt"
        out.append({"name": f.name, "ts": f.type_str, "isvar": f.type_str in cons, "allowed": allowed, "tens": tens, "kind": kind,
                    "option": "optional" if f.option == P.Optional else ("variadic" if f.option == P.Variadic else "single"),
                    "homog": bool(f.is_homogeneous), "min_arity": int(f.min_arity)})
    return out


_ATTR_DUMMY = {"INT": "1", "FLOAT": "1.0", "STRING": "'a'", "INTS": "[1]", "FLOATS": "[1.0]", "STRINGS": "['a']"}


def required_attrs(schema):
    """Source text of dummy values for required attributes, or None if one cannot be written."""
    parts = []
    for name in sorted(schema.attributes):
        a = schema.attributes[name]
        if a.required:
            t = a.type.name
            if t not in _ATTR_DUMMY:
                return None
            parts.append(f"{name}={_ATTR_DUMMY[t]}")
    return parts


def operand_default(f):
    for d in OPERAND_PREF:
        if d in f["tens"]:
            return d
    return None


def shares(fp, fq):
    """Do two formal parameters share a type constraint (a schema type variable)?"""
    def het(f):
        return f["option"] == "variadic" and not f["homog"]
    return fp["isvar"] and fq["isvar"] and fp["ts"] == fq["ts"] and not het(fp) and not het(fq)


def build_stmts(name, since, V, literals, tail_extra, skip=None, exclude=(), excluded=lambda r: None):
    """All statements (call texts with one observed literal position) for one (op, since_version)."""
    import onnx

    schema = onnx.defs.get_schema(name, V, "")
    F = formals(schema)
    n = len(F)
    attrs = required_attrs(schema)
    skip = skip if skip is not None else (lambda r: None)
    if attrs is None:
        skip("required_attr_not_writable")
        return []
    variadic = F[-1]["option"] == "variadic"
    last_req = max([i for i, f in enumerate(F) if f["option"] == "single" or (f["option"] == "variadic" and f["min_arity"] >= 1)], default=-1)
    positions = list(range(n)) + ([n + k for k in range(tail_extra)] if variadic else [])
    stmts = []
    for p in positions:
        fp = F[min(p, n - 1)]
        if fp["kind"] != "tensor" or not [d for d in fp["tens"] if d in SUP]:
            skip("position_admits_no_supported_tensor_type")
            continue
        poskind = "tail" if p >= n else fp["option"]
        his = [max(p, last_req)]
        if variadic and p == n - 1:
            his = [n, n - 1]  # literal first in the variadic followed by a tensor; literal alone
        opt_before = [q for q in range(min(p, n)) if F[q]["option"] == "optional"]
        for hi in his:
            for optnone in ([False, True] if opt_before else [False]):
                present = [q for q in range(hi + 1) if q != p and not (optnone and q in opt_before)]
                bad = [q for q in present if F[min(q, n - 1)]["kind"] == "exotic"]
                if bad:
                    skip("operand_type_unsupported")
                    continue
                sibs = [q for q in present if F[min(q, n - 1)]["kind"] == "tensor" and shares(fp, F[min(q, n - 1)])]
                modes = ["sib", "allit"] if sibs else ["nosib"]
                for mode in modes:
                    lit_pos = [p] + (sibs if mode == "allit" else [])
                    others = [q for q in present if q not in lit_pos]
                    if mode == "allit" and not others:
                        skip("no_tensor_operand_left")
                        continue
                    if not others and mode == "nosib":
                        skip("no_tensor_operand_left")
                        continue
                    operands = {}
                    for q in others:
                        fq = F[min(q, n - 1)]
                        if fq["kind"] == "tensor":
                            operands[f"X{q}"] = {"kind": "tensor", "dtype": operand_default(fq), "sib": q in sibs}
                        else:
                            operands[f"X{q}"] = {"kind": fq["kind"], "dtype": "FLOAT", "sib": False}
                    sib_dtypes = [d for d in fp["tens"] if d in SUP] if mode == "sib" else [None]
                    for lit in literals:
                        toks = []
                        for q in range(hi + 1):
                            if q in lit_pos:
                                toks.append(lit)
                            elif q in others:
                                toks.append(f"X{q}")
                            else:
                                toks.append("None")
                        text = f"op.{name}({', '.join(toks + attrs)})"
                        base = f"op.{name}({', '.join([('X99' if q == p else t) for q, t in enumerate(toks)] + attrs)})"
                        common = {"op": name, "since": since, "V": V, "p": p, "lit": lit, "mode": mode, "poskind": poskind, "optnone": optnone,
                                  "alone": bool(variadic and p == n - 1 and hi == n - 1), "operands": operands, "sib_dtypes": sib_dtypes}
                        stmts.append(dict(common, text=text, base=base, form="positional"))
                        if p == hi and 1 <= p < n and fp["option"] != "variadic" and mode != "allit" and fp["name"].isidentifier() \
                                and not keyword.iskeyword(fp["name"]):
                            # the literal as the last provided input, passed by keyword (omitted optional predecessors stay omitted)
                            head = [t for t in toks[:p]]
                            while head and head[-1] == "None":
                                head.pop()
                            if len(head) < p and "keyword_input_after_omitted_optional" in exclude:
                                if lit == literals[0]:
                                    excluded("keyword_input_after_omitted_optional")
                            elif len(head) == p or optnone:
                                kw = f"op.{name}({', '.join(head + [fp['name'] + '=' + lit] + attrs)})"
                                kwb = f"op.{name}({', '.join(head + [fp['name'] + '=X99'] + attrs)})"
                                stmts.append(dict(common, text=kw, base=kwb, form="keyword", kwgap=len(head) < p))
    sym = OPSYM.get(name)
    if sym and n == 2 and F[0]["kind"] == "tensor" and F[1]["kind"] == "tensor":
        sib = shares(F[0], F[1])
        for p in ((1, 0) if sym in REFLECTED else (1,)):
            fp = F[p]
            q = 1 - p
            operands = {f"X{q}": {"kind": "tensor", "dtype": operand_default(F[q]), "sib": sib}}
            sib_dtypes = [d for d in fp["tens"] if d in SUP] if sib else [None]
            for lit in literals:
                text = f"X0 {sym} {lit}" if p == 1 else f"{lit} {sym} X1"
                base = f"X0 {sym} X99" if p == 1 else f"X99 {sym} X1"
                stmts.append({"op": name, "since": since, "V": V, "p": p, "lit": lit, "mode": "sib" if sib else "nosib", "poskind": "single",
                              "optnone": False, "alone": False, "operands": operands, "sib_dtypes": sib_dtypes, "text": text, "base": base,
                              "form": "operator"})
    return stmts


def instantiate(stmt, d):
    """One case: the statement with sibling dtype d (None when no tensor sibling)."""
    operands = {k: dict(v) for k, v in stmt["operands"].items()}
    if d is not None:
        for v in operands.values():
            if v["sib"]:
                v["dtype"] = d
    v = lit_value(stmt["lit"])
    has_sib = any(o["sib"] for o in operands.values())
    target = d if (has_sib and d is not None) else default_dtype(v)
    return {"V": stmt["V"], "op": stmt["op"], "since": stmt["since"], "text": stmt["text"], "base": stmt["base"], "form": stmt.get("form", "positional"), "kwgap": bool(stmt.get("kwgap")),
            "p": stmt["p"], "lit": stmt["lit"],
            "operands": operands, "target": target, "mode": stmt["mode"], "poskind": stmt["poskind"], "optnone": stmt["optnone"],
            "alone": stmt.get("alone", False)}


# ----------------------------------------------------------------------------- evaluating Constant [+ CastLike]
_CAST_CACHE: dict = {}


def eval_castlike(tensor_proto, target):
    """onnx.reference value of CastLike(Constant(tensor_proto), Y) for Y of element type `target`."""
    import onnx
    from onnx import TensorProto, helper
    from onnx.reference import ReferenceEvaluator

    key = (tensor_proto.SerializeToString(), target)
    if key not in _CAST_CACHE:
        t = onnx.TensorProto()
        t.CopyFrom(tensor_proto)
        t.name = "c"
        et = getattr(TensorProto, target)
        g = helper.make_graph(
            [helper.make_node("Constant", [], ["c"], value=t), helper.make_node("CastLike", ["c", "y"], ["o"])],
            "g", [helper.make_tensor_value_info("y", et, [2])], [helper.make_tensor_value_info("o", et, None)])
        m = helper.make_model(g, opset_imports=[helper.make_opsetid("", 21)], ir_version=10)
        try:
            out = ReferenceEvaluator(m).run(None, {"y": np.zeros((2,), dtype=np_dtype(target))})[0]
            _CAST_CACHE[key] = ("ok", np.asarray(out))
        except Exception as e:  # noqa: BLE001
            _CAST_CACHE[key] = ("err", f"{type(e).__name__}: {e}")
    return _CAST_CACHE[key]


def tensor_to_obs(tensor_proto, like_dtype):
    """Observation for a constant TensorProto optionally passed through CastLike(., Y:like_dtype)."""
    import onnx
    from onnx import numpy_helper

    if like_dtype is None:
        a = numpy_helper.to_array(tensor_proto)
        return arr_obs(a, onnx.TensorProto.DataType.Name(tensor_proto.data_type))
    st_, out = eval_castlike(tensor_proto, like_dtype)
    if st_ != "ok":
        return ("harness", "reference CastLike failed: " + out)
    return arr_obs(out, dtype_name_of_np(out.dtype))


# ----------------------------------------------------------------------------- front end 1: static (converter)
_NAME = re.compile(r"\b[XS]\d+(?:_\d+)?\b")


class StaticUnit:
    """Translate many call texts in one @script function (fallback: one function per text)."""

    def __init__(self, V, texts):
        self.V = V
        self.entries = [None] * len(texts)
        try:
            by_out, inputs = self._translate(texts)
            for k in range(len(texts)):
                self.entries[k] = ("ok", by_out, inputs, f"r{k}")
        except Exception:  # noqa: BLE001
            for k, t in enumerate(texts):
                try:
                    by_out, inputs = self._translate([t])
                    self.entries[k] = ("ok", by_out, inputs, "r0")
                except Exception as e:  # noqa: BLE001
                    self.entries[k] = ("refuse", e)

    def _translate(self, texts):
        from vf import scriptgen

        params = sorted({m for t in texts for m in _NAME.findall(t)}, key=lambda s: (len(s), s))
        body = "".join(f"    r{k} = {t}\n" for k, t in enumerate(texts))
        src = f"@script(default_opset=op)\ndef f({', '.join(params) or 'X0'}):\n{body}    return r0\n"
        mod = scriptgen.compile_source(src, opset=self.V, extra_globals={"NAN": float("nan")})
        try:
            fp = mod.f.to_function_proto()
        finally:
            scriptgen.release(mod)
        by_out = {}
        for node in fp.node:
            for o in node.output:
                by_out[o] = node
        return by_out, set(fp.input)

    def observe(self, k, p, operands):
        e = self.entries[k]
        if e[0] == "refuse":
            return refusal(e[1])
        _, by_out, inputs, out = e
        node = by_out.get(out)
        if node is None:
            return ("odd", "no node writes the statement target", out)
        if p >= len(node.input) or not node.input[p]:
            return ("odd", "no input at the literal's position", f"{node.op_type}{list(node.input)}")
        return _proto_chain(by_out, inputs, node.input[p], operands)


def _proto_chain(by_out, inputs, name, operands):
    prod = by_out.get(name)
    if prod is None:
        return ("odd", "operand is not produced by a node", name)
    like = None
    if prod.op_type == "CastLike":
        if list(prod.attribute):
            return ("odd", "CastLike with attributes", "")
        y = prod.input[1]
        if y not in inputs or y not in operands or operands[y]["kind"] != "tensor":
            return ("odd", "CastLike target is not a tensor parameter", y)
        like = operands[y]["dtype"]
        prod = by_out.get(prod.input[0])
        if prod is None:
            return ("odd", "CastLike source is not produced by a node", "")
    if prod.op_type != "Constant" or len(prod.attribute) != 1 or prod.attribute[0].name != "value":
        return ("odd", f"literal operand produced by {prod.op_type}", str([a.name for a in prod.attribute]))
    return tensor_to_obs(prod.attribute[0].t, like)


# ----------------------------------------------------------------------------- front end 2: eager (spy evaluator)
_SPY = {}


def spy():
    if "spy" not in _SPY:
        from onnxscript import tensor
        from onnxscript._internal import evaluator

        class Spy(evaluator.BaseEvaluator):
            def __init__(self):
                super().__init__()
                self.calls = []

            def _eval(self, schema, inputs, attributes, closure):
                self.calls.append((schema.name, schema.since_version, list(inputs)))
                dummy = tensor.Tensor(np.zeros((2,), dtype=np.float32))
                return [dummy] * max(1, len(schema.outputs))

        _SPY["spy"] = Spy()
    return _SPY["spy"]


def _eager_env(V, operands):
    import onnxscript
    from onnxscript import tensor

    env = {"op": getattr(onnxscript, f"opset{V}"), "NAN": float("nan")}
    for name, o in operands.items():
        if o["kind"] == "tensor":
            if o["dtype"] == "STRING":
                env[name] = tensor.Tensor(np.array(["a", "b"], dtype=object), opset=env["op"])
            else:
                env[name] = tensor.Tensor(np.zeros((2,), dtype=np_dtype(o["dtype"])), opset=env["op"])
        elif o["kind"] == "seq":
            env[name] = [tensor.Tensor(np.zeros((2,), dtype=np.float32))]
        else:
            env[name] = tensor.Tensor(np.zeros((2,), dtype=np.float32))
    return env


def observe_eager(V, text, p, operands):
    from onnxscript import tensor
    from onnxscript._internal import evaluator

    s = spy()
    s.calls.clear()
    try:
        with evaluator.default_as(s):
            eval(text, _eager_env(V, operands))  # noqa: S307
    except Exception as e:  # noqa: BLE001
        return refusal(e)
    if not s.calls:
        return ("odd", "evaluator not called", "")
    inputs = s.calls[-1][2]
    if p >= len(inputs):
        return ("odd", "no input at the literal's position", f"evaluator received {len(inputs)} inputs")
    x = inputs[p]
    if not isinstance(x, tensor.Tensor):
        return ("odd", f"operand reaches the evaluator unpromoted as {type(x).__name__}", "")
    return arr_obs(x.value, dtype_name_of_np(x.value.dtype))


# ----------------------------------------------------------------------------- front end 3: GraphBuilder
class BuilderSession:
    """One GraphBuilder (one constant cache).  typed=False leaves every input without a type (dynamic CastLike path)."""

    def __init__(self, V, typed):
        from onnxscript._internal import builder

        ir = _ir()
        self.V, self.typed = V, typed
        self.graph = ir.Graph(inputs=[], outputs=[], nodes=[], opset_imports={"": V}, name="g")
        self.gb = builder.GraphBuilder(self.graph)
        self.inputs = {}

    def _env(self, operands):
        ir = _ir()
        env = {"op": self.gb.op, "NAN": float("nan")}  # a fresh NaN object per use, as float("nan") in user code
        for name, o in operands.items():
            if name not in self.inputs:
                if not self.typed:
                    self.inputs[name] = self.gb.input(name)
                elif o["kind"] == "tensor":
                    self.inputs[name] = self.gb.input(name, dtype=ir.DataType[o["dtype"]], shape=[2])
                elif o["kind"] == "seq":
                    self.inputs[name] = self.gb.input(name, type=ir.SequenceType(ir.TensorType(ir.DataType.FLOAT)))
                else:
                    self.inputs[name] = self.gb.input(name, type=ir.OptionalType(ir.TensorType(ir.DataType.FLOAT)))
            env[name] = self.inputs[name]
        return env

    def observe(self, text, p, operands):
        ir = _ir()
        try:
            r = eval(text, self._env(operands))  # noqa: S307
        except Exception as e:  # noqa: BLE001
            return refusal(e)
        if isinstance(r, ir.Value):
            node = r.producer()
        elif isinstance(r, (list, tuple)) and r and isinstance(r[0], ir.Value):
            node = r[0].producer()
        else:
            return ("odd", f"builder call returned {type(r).__name__}", "")
        if node is None or p >= len(node.inputs) or node.inputs[p] is None:
            return ("odd", "no input at the literal's position", f"{node.op_type if node is not None else None}{[i.name if i is not None else None for i in node.inputs] if node is not None else ''}")
        return self._chain(node.inputs[p], operands)

    def _chain(self, val, operands):
        ir = _ir()
        like = None
        prod = val.producer()
        if prod is not None and prod.op_type == "CastLike":
            y = prod.inputs[1]
            if y is None or y.name not in operands or self.inputs.get(y.name) is not y or operands[y.name]["kind"] != "tensor":
                return ("odd", "CastLike target is not a tensor graph input", "")
            if y.type is not None:
                return ("odd", "CastLike although the target's type is known", "")
            like = operands[y.name]["dtype"]
            val = prod.inputs[0]
            prod = val.producer()
        if prod is not None:
            if prod.op_type != "Constant" or "value" not in prod.attributes:
                return ("odd", f"literal operand produced by {prod.op_type}", "")
            t = prod.attributes["value"].as_tensor()
        else:
            if val.const_value is None:
                return ("odd", "operand has no producer and no const_value", val.name)
            if self.graph.initializers.get(val.name) is not val:
                return ("odd", "operand is not registered as an initializer of the graph", val.name)
            t = val.const_value
            if val.type is not None and val.type.dtype != t.dtype:
                return ("odd", "initializer declared type differs from its tensor", f"{val.name} declared {val.type.dtype.name} holds {t.dtype.name}")
        return tensor_to_obs(ir.serde.serialize_tensor(t), like)


# ----------------------------------------------------------------------------- oracle
def judge(case, obs):
    """obs: {frontend: observation}.  Returns (verdicts [(bucket, detail)], info)."""
    v = lit_value(case["lit"])
    target = case["target"]
    if is_mixed(v):
        return judge_mixed(case, obs, v)
    kind, exp = expect(v, target)
    lc = lit_class(v)
    has_sib = any(o["sib"] for o in case["operands"].values())
    problems = {}  # (kind, signature) -> [frontends]
    info = {"expect": kind, "refusals": []}
    for fe in FRONTENDS:
        o = obs.get(fe)
        if o is None:
            continue
        if o[0] == "harness":
            raise RuntimeError(f"{o[1]} on case {case}")
        if o[0] == "skip":
            continue
        if o[0] == "odd":
            problems.setdefault(("odd", o[1]), []).append(fe)
            continue
        if o[0] == "refuse":
            info["refusals"].append(fe)
            if kind != "lossy":
                problems.setdefault(("refuse", o[3]), []).append(fe)
            continue
        _, dt, shape, hexbytes, short = o
        if dt != target:
            got_d = "literal's default dtype" if dt == default_dtype(v) else "a third dtype"
            want_d = "sibling's dtype" if has_sib else f"default {target}"
            problems.setdefault(("dtype", f"{got_d} instead of {want_d}"), []).append(fe)
            continue
        want_shape = (len(v),) if isinstance(v, list) else ()
        if tuple(shape) != want_shape:
            problems.setdefault(("shape", f"{list(shape)} instead of {list(want_shape)}"), []).append(fe)
            continue
        if kind == "lossy":
            continue
        if hexbytes != exp.tobytes().hex():
            got = np.frombuffer(bytes.fromhex(hexbytes), dtype=exp.dtype).reshape(exp.shape)
            with np.errstate(all="ignore"):
                if exp.dtype.kind == "f" or exp.dtype.name == "bfloat16":
                    e64, g64 = exp.astype(np.float64), got.astype(np.float64)
                    if np.array_equal(np.isnan(e64), np.isnan(g64)) and np.array_equal(e64[~np.isnan(e64)], g64[~np.isnan(g64)]):
                        if np.array_equal(np.signbit(e64), np.signbit(g64)) or np.isnan(e64).all():
                            continue  # equal up to NaN payload
                        sub = "sign-of-zero"
                    else:
                        sub = "number"
                else:
                    sub = "number"
            problems.setdefault(("value", sub), []).append(fe)
            info.setdefault("got", {})[fe] = short
    misplaced = ("odd", "no input at the literal's position")
    if misplaced in problems and any(f.startswith("builder") for f in problems[misplaced]):
        # the other GraphBuilder variant choking on the literal at the wrong position is the same root cause
        for key in [k for k in problems if k[0] == "refuse" and all(f.startswith("builder") for f in problems[k])]:
            problems[misplaced] = [f for f in FRONTENDS if f in problems[misplaced] or f in problems[key]]
            del problems[key]
    verdicts = []
    for (pk, sig), fes in sorted(problems.items()):
        # Buckets name a root cause: (kind of deviation, deviating front ends, Python type / class of the literal) - never the
        # op, position or sibling dtype (those are in the detail and in coverage.violations_by_bucket_and_op).
        fe_s = "+".join(fes)
        merged = "+".join(dict.fromkeys("builder" if f == "builder_untyped" else f for f in fes))
        first = v[0] if isinstance(v, list) else v
        pyt = "bool" if isinstance(first, bool) else ("int" if isinstance(first, int) else "float")
        base = lc[:-4] if lc.endswith("list") else lc
        if (pk, sig) == ("value", "sign-of-zero"):
            bucket = f"value:{merged}:sign-of-zero"  # typed and untyped GraphBuilder share one constant cache
        elif pk == "value":
            route = ("static", "builder_untyped")  # both emit a default-typed constant followed by CastLike
            if set(fes) <= set(route) and all(f in fes or obs.get(f, ("skip",))[0] == "skip" for f in route):
                fe_s = "+".join(route)
            bucket = f"value:{fe_s}:{base} literal:{sig}"
        elif pk == "odd":
            bucket = f"odd:{merged}:{sig}:form={case.get('form', 'positional')}"
        elif pk == "shape":
            bucket = f"shape:{fe_s}:{'list' if isinstance(v, list) else 'scalar'} literal"
        elif pk == "refuse":  # the raising site is the root cause
            bucket = f"refuse:{merged}:{pyt} literal:{sig}"
        else:
            bucket = f"dtype:{fe_s}:{pyt} literal:{sig}"
        seen = {fe: (obs[fe][:3] + obs[fe][4:] if obs[fe][0] == "val" else obs[fe]) for fe in FRONTENDS if fe in obs}
        detail = (f"{case['text']} (opset {case['V']}, position {case['p']}, operands "
                  f"{ {k: o['dtype'] for k, o in case['operands'].items()} }): rule demands {target} "
                  f"{_short(exp) if exp is not None else '<not exactly representable>'}; {pk} [{sig}] in {fes}; observed {seen}")
        verdicts.append((bucket, detail))
    return verdicts, info


def judge_mixed(case, obs, v):
    """Lists mixing bool/int/float: the rule names no element type (the converter table and the builder docs cover homogeneous
    lists only), so a refusal is accepted anywhere; the front ends that do accept the list must still agree on type and value."""
    vals = {}
    for fe in FRONTENDS:
        o = obs.get(fe)
        if o is None or o[0] in ("skip", "refuse"):
            continue
        if o[0] == "harness":
            raise RuntimeError(f"{o[1]} on case {case}")
        vals[fe] = (o[1], tuple(o[2]), o[3]) if o[0] == "val" else ("odd", o[1])
    info = {"expect": "mixed", "refusals": [fe for fe in FRONTENDS if obs.get(fe, ("",))[0] == "refuse"]}
    if len(set(vals.values())) <= 1:
        return [], info
    groups = {}
    for fe, val in vals.items():
        groups.setdefault(val, []).append(fe)
    seen = {fe: (o[:3] + o[4:] if o[0] == "val" else o[:3]) for fe, o in obs.items()}
    detail = (f"{case['text']} (opset {case['V']}, position {case['p']}, operands { {k: o['dtype'] for k, o in case['operands'].items()} }): "
              f"front ends that accept the mixed-type list disagree: {seen}")
    return [("disagree:mixed-type list literal", detail)], info


def baseline_refuses(fe, case, session_factory):
    """Does front end `fe` also refuse the same call with a tensor of the target type in place of the literal?"""
    text = case["base"]
    operands = dict(case["operands"])
    operands["X99"] = {"kind": "tensor", "dtype": case["target"], "sib": False}
    if fe == "static":
        u = StaticUnit(case["V"], [text])
        return u.entries[0][0] == "refuse"
    if fe == "eager":
        return observe_eager(case["V"], text, 0, operands)[0] == "refuse"
    s = session_factory(case["V"], fe == "builder")
    try:
        eval(text, s._env(operands))  # noqa: S307
        return False
    except Exception:  # noqa: BLE001
        return True


def observe_case(case, static_obs=None, sessions=None):
    """All four observations of one case.  sessions: {True: BuilderSession, False: BuilderSession} to share caches."""
    obs = {}
    if static_obs is None:
        static_obs = StaticUnit(case["V"], [case["text"]]).observe(0, case["p"], case["operands"])
    obs["static"] = static_obs
    obs["eager"] = observe_eager(case["V"], case["text"], case["p"], case["operands"])
    for typed, fe in ((True, "builder"), (False, "builder_untyped")):
        if case.get("form") == "operator":
            obs[fe] = ("skip", "not_applicable", "ir.Value defines no Python operators")
            continue
        if typed and (case["op"], case["p"], case["lit"]) in NATIVE_CRASH:
            obs[fe] = ("skip", "native_crash_avoided", "onnx shape inference crashes the process on this call")
            continue
        s = sessions[typed] if sessions else BuilderSession(case["V"], typed)
        obs[fe] = s.observe(case["text"], case["p"], case["operands"])
    # a front end that refuses the call itself (not the literal) is not judged on this case
    for fe in FRONTENDS:
        if obs[fe][0] == "refuse" and baseline_refuses(fe, case, BuilderSession):
            obs[fe] = ("skip", "refuses_call", "front end refuses the call even with a tensor operand: " + obs[fe][1] + ": " + obs[fe][2])
    return obs


def case_classes(case, info, obs):
    v = lit_value(case["lit"])
    cl = [f"form:{case.get('form', 'positional')}", f"pos:{case['poskind']}", f"mode:{case['mode']}", f"lit:{lit_class(v)}", f"target:{case['target']}", f"expect:{info['expect']}",
          f"opset_of_schema:{case['V']}"]
    if case["optnone"]:
        cl.append("optional_predecessor_None" if not case.get("kwgap") else "optional_predecessor_omitted_then_keyword")
    if case.get("alone"):
        cl.append("literal_alone_in_variadic")
    for fe in FRONTENDS:
        o = obs.get(fe)
        if o is not None and o[0] in ("refuse", "skip"):
            cl.append(f"{fe}:{'refuses_literal' if o[0] == 'refuse' else o[1]}")
    return cl


def nontrivial(case):
    v = lit_value(case["lit"])
    sib = any(o["sib"] for o in case["operands"].values())
    return (sib and case["target"] != default_dtype(v)) or case["poskind"] in ("optional", "variadic", "tail")


# ----------------------------------------------------------------------------- exhaustive part
def run_exhaustive(spec, col):
    only = os.environ.get("VERIF_ONLY")
    EXCL = active_exclusions(spec)
    vio_ops = {}
    ncase = 0
    for name, since, V in spec["ops"]:
        if only and only != name:
            col.extra["exhaustive_complete"] = False
            continue
        stmts = build_stmts(name, since, V, spec["literals"], spec["tail_extra"], skip=col.skip, exclude=EXCL, excluded=col.exclude)
        col.hist[f"ops_enumerated"] += 1
        if not stmts:
            continue
        unit = StaticUnit(V, [s["text"] for s in stmts])
        for k, stmt in enumerate(stmts):
            for d in stmt["sib_dtypes"]:
                ncase += 1
                case = instantiate(stmt, d)
                sobs = unit.observe(k, case["p"], case["operands"])
                obs = observe_case(case, static_obs=sobs)
                verdicts, info = judge(case, obs)
                key = (name, since, case["text"], case["p"], tuple(sorted((n, o["dtype"]) for n, o in case["operands"].items())))
                col.case(key, nontrivial(case), case_classes(case, info, obs),
                         sample=None if ncase % 211 else {"call": case["text"], "opset": V, "position": case["p"], "operands": {n: o["dtype"] for n, o in case["operands"].items()},
                                 "rule_target": case["target"], "observed": {fe: list(o[:3]) + list(o[4:]) if o[0] == "val" else list(o)[:3] for fe, o in obs.items()}})
                for bucket, detail in verdicts:
                    col.violation(bucket, detail, {"kind": "single", "case": case}, size=1)
                    vio_ops[f"{bucket} | {name}"] = vio_ops.get(f"{bucket} | {name}", 0) + 1
    col.extra["violations_by_bucket_and_op"] = vio_ops


# ----------------------------------------------------------------------------- sequence part
SEQ_OPS = ["Add", "Sub", "Mul", "Div", "Pow", "Max", "Min", "Sum", "Mean", "Where", "Clip", "Equal", "Less", "Greater", "And", "Or",
           "PRelu", "Mod", "Concat", "Reshape", "Expand", "Gather", "Pad", "MatMul", "Gemm", "ScatterElements", "Range", "CumSum",
           "Tile", "BitShift"]
SEQ_V = 18
SEQ_GROUPS = {
    "zero": ["0", "0.0", "-0.0", "False", "[0]", "[0.0]", "[-0.0]", "[False]", "[0.0, -0.0]", "[-0.0, 0.0]", "[0, 0]"],
    "one": ["1", "True", "1.0", "[1]", "[1.0]", "[True]", "[1, 2]", "[1.0, 2.0]", "[True, False]"],
    "small": ["-1", "2", "3", "-3", "2.5", "0.5", "[0.5]", "[2, -1]", "255", "256", "-128", "65504.0", "65520.0"],
    "inexact": ["0.1", "0.001", "1e-9", "1e39", "[0.1]", "16777217", "16777217.0", "[16777217.0]"],
    "big": ["9007199254740992", "9007199254740993", "9007199254740992.0", "9007199254740994.0", "9223372036854775807",
            "[9007199254740993]"],
    "mixed": ["[1, 2.5]", "[2.5, 1]", "[True, 2]", "[1, True]", "[0.5, True]", "[0, 1.0]", "[1, 2]", "[0.5]"],
    "special": ["NAN", "1e999", "-1e999", "[1e999]", "0.0", "-0.0"],
}
SEQ_LITERALS = sorted({x for g in SEQ_GROUPS.values() for x in g})
SEQ_DTYPES = ["FLOAT", "DOUBLE", "FLOAT16", "BFLOAT16", "INT64", "INT32", "INT8", "UINT8", "BOOL"]
_SEQ_TABLE = {}


def seq_table():
    """[(stmt skeletons for op)] built with a placeholder literal 'LIT'."""
    if not _SEQ_TABLE:
        import onnx

        for name in SEQ_OPS:
            s = onnx.defs.get_schema(name, SEQ_V, "")
            _SEQ_TABLE[name] = build_stmts(name, s.since_version, SEQ_V, ["LIT"], 1)
    return _SEQ_TABLE


def _lit_tokens_replace(text, lit):
    return re.sub(r"\bLIT\b", lit, text)


def _builder_key(c, typed):
    """(cache key, bytes of the tensor the literal must become) as GraphBuilder._get_or_create_constant forms the key."""
    v = lit_value(c["lit"])
    first = v[0] if isinstance(v, list) else v
    has_sib = any(o["sib"] for o in c["operands"].values())
    if typed and has_sib:
        dt = c["target"]
    else:
        dt = None if isinstance(first, bool) else default_dtype(v)
    kind, exp = expect(v, dt or "BOOL")
    return (tuple(v) if isinstance(v, list) else v, dt), (exp.tobytes() if exp is not None else None)


def _is_nan(e):
    return isinstance(e, float) and math.isnan(e)


def _region_hits(items):
    """[(region name, index of the use that enters it)] for the regions of recorded findings (predicates over generator parameters)."""
    hits = []
    for i, c in enumerate(items):
        v = lit_value(c["lit"])
        elems = v if isinstance(v, list) else [v]
        if is_mixed(v):
            hits.append(("mixed_type_list", i))
            continue
        # static route and untyped builder: float literal -> FLOAT constant -> CastLike: value passes through float32
        if any(isinstance(e, float) and not isinstance(e, bool) and math.isfinite(e) and float(np.float32(e)) != e for e in elems) \
                and c["target"] != "FLOAT" and expect(v, c["target"])[0] == "exact":
            hits.append(("float_literal_rounded_via_float32", i))
        for typed in (True, False):
            key, bits = _builder_key(c, typed)
            for j in range(i):
                if is_mixed(lit_value(items[j]["lit"])):
                    continue  # heterogeneous lists never enter the cache
                key2, bits2 = _builder_key(items[j], typed)
                if key2[1] != key[1]:
                    continue
                if not isinstance(v, list) and _is_nan(v) and _is_nan(key2[0]):
                    hits.append(("builder_nan_literal_twice", i))  # same initializer name const_nan_<dtype>, key never equal
                elif key2 == key and bits is not None and bits2 is not None and bits != bits2:
                    hits.append(("builder_cache_conflates_signed_zero", i))  # == / hash equal, different tensors
    return sorted(set(hits))


@st.composite
def sequences(draw):
    table = seq_table()
    n = draw(st.integers(2, 8))
    # bias towards collisions: a small sub-pool of literals and dtypes per sequence
    group = draw(st.sampled_from(sorted(SEQ_GROUPS)))
    pool = draw(st.lists(st.sampled_from(SEQ_GROUPS[group]), min_size=1, max_size=4))
    if draw(st.booleans()):
        pool.append(draw(st.sampled_from(SEQ_LITERALS)))
    dts = draw(st.lists(st.sampled_from(SEQ_DTYPES), min_size=1, max_size=2))
    ops = draw(st.lists(st.sampled_from(SEQ_OPS), min_size=1, max_size=3))
    uses = []
    for i in range(n):
        name = draw(st.sampled_from(ops))
        skel = draw(st.sampled_from(table[name]))
        lit = draw(st.sampled_from(pool))
        d = None
        if skel["sib_dtypes"] != [None]:
            allowed = [x for x in dts if x in skel["sib_dtypes"]] or skel["sib_dtypes"]
            d = draw(st.sampled_from(allowed))
        uses.append((name, table[name].index(skel), lit, d))
    return uses


def materialise(uses):
    """uses -> list of cases with operand names made unique per use (S<i>_<pos>)."""
    table = seq_table()
    items = []
    for i, (name, k, lit, d) in enumerate(uses):
        skel = dict(table[name][k])
        skel["lit"] = lit
        skel["text"] = _lit_tokens_replace(skel["text"], lit)
        skel["base"] = _lit_tokens_replace(skel["base"], lit)
        c = instantiate(skel, d)
        ren = {old: f"S{i}_{old[1:]}" for old in c["operands"]}
        c["text"] = re.sub(r"\bX(\d+)\b", lambda m: ren.get(m.group(0), m.group(0)), c["text"])
        c["base"] = re.sub(r"\bX(\d+)\b", lambda m: ren.get(m.group(0), m.group(0)), c["base"])
        c["operands"] = {ren[o]: v for o, v in c["operands"].items()}
        items.append(c)
    return items


def check_sequence(items):
    """Oracle on a sequence of uses in one function / one builder.  Returns (verdicts, per-item infos, per-item obs)."""
    V = items[0]["V"]
    unit = StaticUnit(V, [c["text"] for c in items])
    sessions = {True: BuilderSession(V, True), False: BuilderSession(V, False)}
    verdicts, infos, all_obs = [], [], []
    for k, c in enumerate(items):
        sobs = unit.observe(k, c["p"], c["operands"])
        obs = observe_case(c, static_obs=sobs, sessions=sessions)
        vs, info = judge(c, obs)
        for b, dtl in vs:
            verdicts.append((b, f"use {k} of {len(items)}: " + dtl))
        infos.append(info)
        all_obs.append(obs)
    return verdicts, infos, all_obs


def active_exclusions(spec):
    """EXCLUDE plus the regions of the committed known findings the runner told this shard about."""
    ex = set(EXCLUDE)
    if spec.get("known_ids"):
        from vf.runner import load_known

        ex |= {e.get("region") for e in load_known(ID) if e.get("id") in spec["known_ids"] and e.get("region")}
    return ex


def run_sequences(spec, col):
    EXCL = active_exclusions(spec)

    def body(uses):
        if "keyword_input_after_omitted_optional" in EXCL:
            table, redirected_uses = seq_table(), []
            for (n, k, lit, d) in uses:
                if table[n][k].get("kwgap"):  # the positional form of the same layout precedes its keyword form in the table
                    col.exclude("keyword_input_after_omitted_optional")
                    k -= 1
                redirected_uses.append((n, k, lit, d))
            uses = redirected_uses
        items = materialise(uses)
        hits = _region_hits(items)
        redirected = False
        for region, i in hits:
            if region in EXCL:
                col.exclude(region)
                redirected = True
        if redirected:
            bad = {i for region, i in hits if region in EXCL}
            uses = [(n, k, ("7" if i in bad else lit), d) for i, (n, k, lit, d) in enumerate(uses)]
            items = materialise(uses)
        verdicts, infos, all_obs = check_sequence(items)
        regions = sorted({r for r, _ in _region_hits(items)})
        classes = ["seq:len:%d" % len(items)] + [f"seq:region:{r}" for r in regions]
        for c, info, obs in zip(items, infos, all_obs):
            classes += ["seq:" + x for x in case_classes(c, info, obs) if not x.startswith("opset_of_schema")]
        lits = [c["lit"] for c in items]
        if len(set(lits)) < len(lits):
            classes.append("seq:repeated_literal")
        key = tuple((c["text"], c["p"], tuple(sorted((n, o["dtype"]) for n, o in c["operands"].items()))) for c in items)
        col.case(("seq", key), any(nontrivial(c) for c in items), classes,
                 sample={"sequence": [c["text"] + "  # " + ",".join(f"{n}:{o['dtype']}" for n, o in c["operands"].items()) for c in items]})
        for b, dtl in verdicts:
            col.violation(b, dtl, {"kind": "seq", "items": items}, size=1 + len(items))

    drive(sequences(), body, spec["n"], spec["seed"])


# ----------------------------------------------------------------------------- module contract
def plan(tier, seed, budget):
    lo, hi, tail, lits = (13, 23, 1, MAIN_LITERALS) if tier == "quick" else (1, 23, 3, THOROUGH_LITERALS)
    table, skipped = op_table(lo, hi)
    nsh = 16 if tier == "quick" else 48
    specs = [{"part": "exhaustive", "ops": [], "tail_extra": tail, "literals": lits} for _ in range(nsh)]  # ops dealt round-robin
    for i, t in enumerate(table):
        specs[i % nsh]["ops"].append(list(t))
    specs[0]["skipped_ops"] = {f"{n}-{sv}": why for (n, sv), why in sorted(skipped.items())}
    nseq = int((4000 if tier == "quick" else 120000) * budget)
    ssh = 8 if tier == "quick" else 32
    for _ in range(ssh):
        specs.append({"part": "seq", "n": max(1, nseq // ssh)})
    specs.append({"part": "functions"})
    return specs


# ----------------------------------------------------------------------------- function bodies (build_function)
FN_OPS = [("Add", 2), ("Sub", 2), ("Mul", 2), ("Div", 2), ("Max", 2), ("Min", 2), ("Where", 3), ("Clip", 3), ("Equal", 2), ("Less", 2)]
# (Pow is left out: base and exponent have type variables of their own, so neither is the sibling of the other)
FN_DTYPES = ["FLOAT", "DOUBLE", "FLOAT16", "BFLOAT16", "INT32", "INT64", "UINT8", "INT8", "INT16"]
FN_LITS = [1, 2, 0, 3.0, 2.5, 0.5, -0.0]


def function_case(op, arity, dtype, lit, pos):
    """A function body traced with builder.build_function: `op(x, <literal>)` with a typed input.  The literals of a function body are
    lifted into Constant nodes: the serialized Constant must carry the element type of the sibling (same rule as in a graph)."""
    from onnx import numpy_helper

    from onnxscript._internal import builder

    ir = _ir()
    dt = ir.DataType[dtype]
    if isinstance(lit, float) and not dt.is_floating_point():
        return None

    def make(name, d=dt):
        return ir.Value(name=name, type=ir.TensorType(d), shape=ir.Shape([2]))

    if op == "Where":
        ins = [make("c", ir.DataType.BOOL), make("x")]
        args = lambda o, c, x: (c, x, lit) if pos else (c, lit, x)  # noqa: E731
        lit_index = 2 if pos else 1
    elif op == "Clip":
        ins = [make("x")]
        args = lambda o, x: (x, lit, None) if pos == 0 else (x, None, lit)  # noqa: E731
        lit_index = 1 if pos == 0 else 2
    else:
        ins = [make("x")]
        args = lambda o, x: (x, lit) if pos else (lit, x)  # noqa: E731
        lit_index = 1 if pos else 0
    try:
        fn = builder.build_function(lambda o, *a: getattr(o, op)(*args(o, *a)), ins, domain="verif.fn", name="f", opset_imports={"": 21})
        fp = ir.serde.serialize_function(fn)
    except Exception as e:  # noqa: BLE001
        return ("refuse", f"{type(e).__name__}: {str(e)[:120]}")
    node = next((n for n in fp.node if n.op_type == op), None)
    if node is None or lit_index >= len(node.input):
        return ("odd", "operator node not found")
    name = node.input[lit_index]
    prod = next((n for n in fp.node if name in n.output), None)
    like = None
    if prod is not None and prod.op_type == "CastLike":
        like = prod.input[1]
        name = prod.input[0]
        prod = next((n for n in fp.node if name in n.output), None)
    if prod is None or prod.op_type != "Constant" or not prod.attribute:
        return ("odd", f"literal operand produced by {prod.op_type if prod is not None else None}")
    a = prod.attribute[0]
    if a.name == "value":
        arr = numpy_helper.to_array(a.t)
        et = ir.DataType(a.t.data_type).name
    elif a.name == "value_int":
        arr, et = np.asarray(a.i), "INT64"
    elif a.name == "value_float":
        arr, et = np.asarray(a.f, dtype=np.float32), "FLOAT"
    else:
        return ("odd", "Constant form " + a.name)
    if like is not None:
        return ("odd", "CastLike although the sibling's type is known")
    return ("val", et, float(np.asarray(arr, dtype=np.float64).reshape(-1)[0]), bool(np.signbit(np.asarray(arr, dtype=np.float64).reshape(-1)[0])), tuple(np.shape(arr)))


def run_functions(spec, col):
    for op, arity in FN_OPS:
        for dtype in FN_DTYPES:
            for lit in FN_LITS:
                for pos in (0, 1):
                    r = function_case(op, arity, dtype, lit, pos)
                    if r is None:
                        continue
                    case = {"op": op, "arity": arity, "dtype": dtype, "lit": repr(lit), "pos": pos}
                    col.case(("fn", op, dtype, repr(lit), pos), dtype not in ("FLOAT", "INT64"), [f"function_body:{op}", f"function_body:sibling:{dtype}", "function_body:" + r[0]],
                             sample={"build_function": f"op.{op}(x: {dtype}, {lit!r}) literal at operand {pos}", "observed": list(r)} if (op, dtype, pos) in (("Mul", "FLOAT16", 1), ("Where", "INT32", 0)) else None)
                    for bucket, detail in judge_function(case, r):
                        col.violation(bucket, detail, {"kind": "function", "case": case}, size=1)


def judge_function(case, r):
    if r[0] != "val":
        return []  # a refusal or an unfamiliar lifting form is not judged here (the graph front end is judged in the exhaustive part)
    lit = eval(case["lit"])  # noqa: S307
    out = []
    if r[1] != case["dtype"]:
        out.append((f"function_body:dtype:{'float' if isinstance(lit, float) else 'int'} literal", f"build_function op.{case['op']}(x: {case['dtype']}, {case['lit']}) at operand {case['pos']}: "
                    f"lifted Constant has element type {r[1]}, the sibling's type is {case['dtype']}"))
    elif r[2] != float(lit) or (isinstance(lit, float) and r[3] != bool(np.signbit(lit))) or r[4] != ():
        out.append(("function_body:value", f"build_function op.{case['op']}(x: {case['dtype']}, {case['lit']}): lifted Constant holds {r[2]} (sign bit {r[3]}, shape {r[4]})"))
    return out


def run_shard(spec):
    import logging
    import warnings

    warnings.filterwarnings("ignore")
    logging.disable(logging.WARNING)
    col = Collector()
    if spec["part"] == "exhaustive":
        if "skipped_ops" in spec:
            col.extra["skipped_ops"] = {k: 1 for k in spec["skipped_ops"]}
            for why in spec["skipped_ops"].values():
                col.skip("op:" + why)
        run_exhaustive(spec, col)
    elif spec["part"] == "functions":
        run_functions(spec, col)
    else:
        run_sequences(spec, col)
    return col.result()


def replay(case):
    if case["kind"] == "function":
        c = case["case"]
        r = function_case(c["op"], c["arity"], c["dtype"], eval(c["lit"]), c["pos"])  # noqa: S307
        return judge_function(c, r) if r else []
    if case["kind"] == "single":
        c = case["case"]
        verdicts, _ = judge(c, observe_case(c))
        return verdicts
    verdicts, _, _ = check_sequence(case["items"])
    return verdicts


def shrink(case, bucket):
    """Structural ddmin over the uses of a sequence while the bucket is preserved."""
    if case["kind"] != "seq":
        return case
    items = list(case["items"])

    def fails(its):
        try:
            return any(b == bucket for b, _ in check_sequence(its)[0])
        except Exception:  # noqa: BLE001
            return False

    changed = True
    while changed and len(items) > 1:
        changed = False
        for i in range(len(items)):
            cand = items[:i] + items[i + 1:]
            if cand and fails(cand):
                items, changed = cand, True
                break
    return {"kind": "seq", "items": items}


def _case_items(case):
    return [case["case"]] if case.get("kind") == "single" else list(case.get("items", []))


REGIONS = {name: (lambda case, _n=name: any(r == _n for r, _ in _region_hits(_case_items(case))))
           for name in ("float_literal_rounded_via_float32", "builder_cache_conflates_signed_zero", "builder_nan_literal_twice", "mixed_type_list")}
REGIONS["keyword_input_after_omitted_optional"] = lambda case: any(c.get("form") == "keyword" and c.get("kwgap") for c in _case_items(case))
