"""C19 - ONNX Runtime fusions preserve numerical results.

Hosts come from vf/fusionhosts.py.  Each case = (host model M, unit, two input seeds); unit is either the family's chain of
individual fuse_* functions (applied as the repository's tests do: optimizer.optimize first, internal `ai.onnxruntime._fusion`
operators lowered by the following steps of the chain) or optimize_for_ort.  REGIONS names the parameter regions of the
findings recorded so far (predicates over the stored case: family / near_miss / params); for development
VERIF_C19_EXCLUDE=<names|ALL> keeps the generator out of them (counted in excluded_by_known_findings), VERIF_ONLY=<family>
restricts the run to matching shard groups.
"""
from __future__ import annotations

import os
import re

import numpy as np
import onnx

from vf import compare, execs, fusionhosts, optcommon
from vf.hyp import drive, st
from vf.runner import Collector

ID = "C19"
EARLY_ATTRIBUTION = True  # region predicates are cheap scans of the stored case
LEVEL = "exploration"
RULE = ("Hypothesis-parametrised host models (vf/fusionhosts.py, built with onnx.helper only) for each ORT fusion family - RMS norm, "
        "skip RMS/Layer norm, GELU tanh/erf, bias-GELU, rotary embedding (+cos/sin cache, partial), SDPA, MHA (+rotary, +bias, +Attention, "
        "past/present, cross), GQA (kv_heads, past, causal mask), FusedMatMul rule set, softmax upcast, InstanceNorm->GroupNorm - over B in {1,2}, S in {1,3,8}, "
        "H in {1,2,4}, D in {2,4,8,16}, float32/float16, static/symbolic dims, operand orders, constant placement/shape, eps, bias "
        "none/pre/post, mask shapes, scaling variants, plus near-misses (wrong constant/axis, extra consumer, broadcasting or "
        "non-divisible sizes, wrong ranks). Each host M is transformed by (a) the family's chain of individual fuse_* functions "
        "applied the way the repository's tests apply them (optimizer.optimize first) and (b) optimize_for_ort. Oracle: "
        "ort(F(M))(x) ~ ort(M)(x) on 2 drawn inputs with rtol/atol by dtype (f32 1e-3, f16 2e-2, atol scaled by the output "
        "magnitude); M is cross-checked against onnx.reference where it can run it (disagreement => case skipped); unchanged is "
        "accepted; an exception from the transformation or a result ORT cannot load/run is a violation (missing CPU kernels are "
        "skipped). Non-trivial = a fused operator that was not in M is present afterwards; distinct by (unit, family, parameter tuple).")
ASSUMPTIONS = ["onnxruntime 1.30 CPU kernels (incl. com.microsoft contrib ops) executed with graph optimisations disabled define the meaning "
               "of the fused operators", "onnx.reference is an independent second opinion on the *source* model only",
               "tolerances: float32 rtol 1e-3 / atol 1e-3*max(1,|out|max); float16 rtol 2e-2 / atol 2e-2*max(1,|out|max)",
               "vf/fusionhosts.py emits valid ONNX (hosts that ORT does not execute are skipped and counted)",
               "com.microsoft.GroupNorm has no CPU kernel: InstanceNorm->GroupNorm results are executed by onnx.reference with a numpy "
               "GroupNorm written from the contrib-op documentation (NHWC, per-channel gamma/beta, optional SiLU)"]
FLOOR = {"quick": 800, "thorough": 8000} if not os.environ.get("VERIF_ONLY") else {"quick": 1, "thorough": 1}
TIMEOUT = {"quick": 1200, "thorough": 4 * 3600}

# fusions that must fire at least this often per run, else the run is a harness error (generator rotted)
MIN_FIRED = {"quick": 10, "thorough": 100}
# (fuse_qkv_gqa / mha_scale never fire on these hosts and are not required; see the report)
REQUIRED_FUSIONS = ["rms_normalization", "skip_rms_normalization", "skip_layer_normalization", "gelu", "erf_gelu", "bias_gelu",
                    "rotary_embedding", "cos_sin_cache", "partial_rotary_embedding", "sdpa", "sdpa_via_mha", "mha", "mha_bias", "gqa",
                    "attention", "fused_matmul", "softmax"]


# ----------------------------------------------------------------------------- named regions of recorded findings
def _p(case):
    return case.get("params", {})


REGIONS = {
    # BiasGelu needs bias length == last dim of the input; the rule only checks rank(bias) == 1
    "bias_gelu_bias_len_mismatch": lambda c: c["family"] == "bias_gelu" and c.get("near_miss") in ("bias_len1", "input_last1"),
    # com.microsoft.RotaryEmbedding wants position_ids [B,S]; source broadcasts [S] / [1,S] ids over the batch
    "rotary_position_ids_not_per_batch": lambda c: c["family"] == "rotary_embedding" and _p(c).get("mode") != "inputs" and _p(c).get("B", 1) > 1
    and (_p(c).get("pos_rank") == 1 or _p(c).get("pos_batch1")),
    # cos/sin cache is sized max(position_ids)+1 at run time; ids whose maximum is < S-1 give a cache shorter than the sequence
    "rotary_cos_cache_shorter_than_sequence": lambda c: c["family"] == "rotary_embedding" and _p(c).get("pos_mode") == "random"
    and not _p(c).get("pos_const"),
    # float(ndarray of shape (1,1)) raises under numpy 2
    "fused_matmul_div_const_rank_ge2": lambda c: c["family"] == "fused_matmul" and (_p(c).get("div") == "scalar11" or c.get("near_miss") == "div_rank3"),
    # rules never look at the element type; FusedMatMul is float-only
    "fused_matmul_non_float": lambda c: c["family"] == "fused_matmul" and c.get("near_miss") == "int32",
    # Transpose(FusedMatMul(x, y, transA != transB)) flips each flag instead of exchanging them
    "fused_matmul_transpose_of_mixed_trans": lambda c: c["family"] == "fused_matmul" and _p(c).get("t_out") and _p(c).get("transA") != _p(c).get("transB"),
    # scale is Cast to the compute type and the product is not cast back: result type is the compute type, the fused op yields the scale type
    "rms_scale_cast_without_target_cast": lambda c: c["family"] == "rms_normalization" and _p(c).get("cast_scale") and not _p(c).get("cast_out")
    and _p(c).get("dtype") == "float16",
    # SDPA drops the Where(IsNaN(softmax), 0, softmax) guard: a query row whose keys are all masked with -inf gives 0 in M, NaN after
    "sdpa_nan_guard_fully_masked_row": lambda c: c["family"] in ("sdpa", "mha") and bool(_p(c).get("mask_inf_row")),
    # fuse_gqa tests `_causal_mask_pattern.match(...) is None`, but a failed match is a falsy MatchResult: any computed mask is accepted
    "gqa_mask_not_checked": lambda c: c["family"] == "gqa" and c.get("near_miss") == "mask_computed",
    # ORT's CPU GroupQueryAttention (do_rotary=1) wants head_size % 16 == 0 (and % 8 == 0 in general); the rule never looks at it
    "gqa_head_size_constraint": lambda c: c["family"] == "gqa" and _p(c).get("Dh", 16) % 16 != 0,
    # ORT's CPU GroupQueryAttention: "batch_size must be 1 when sequence_length > 1 and past context is given"
    "gqa_batch_gt1_with_past": lambda c: c["family"] == "gqa" and _p(c).get("B", 1) > 1 and _p(c).get("S", 1) > 1 and bool(_p(c).get("with_past")),
    # mha_bias does not check that the q/k/v biases are 1-D
    "mha_bias_not_1d": lambda c: c["family"] == "mha" and c.get("near_miss") == "bias_rank3" and _p(c).get("bias") != "none",
}

# development only: regions the generator stays out of (empty by default, so every finding is reported until it is a recorded one)
EXCLUDE: set = set(x for x in os.environ.get("VERIF_C19_EXCLUDE", "").replace("ALL", ",".join(REGIONS)).split(",") if x)

FUSED_OPS = {("", "SimplifiedLayerNormalization"), ("com.microsoft", "SkipSimplifiedLayerNormalization"),
             ("com.microsoft", "SkipLayerNormalization"), ("com.microsoft", "FastGelu"), ("com.microsoft", "Gelu"),
             ("com.microsoft", "BiasGelu"), ("com.microsoft", "RotaryEmbedding"), ("ai.onnxruntime._fusion", "RotaryEmbedding"),
             ("ai.onnxruntime._fusion", "SDPA"), ("com.microsoft", "MultiHeadAttention"), ("com.microsoft", "Attention"),
             ("com.microsoft", "GroupQueryAttention"), ("com.microsoft", "FusedMatMul"), ("com.microsoft", "GroupNorm")}


# ----------------------------------------------------------------------------- units (what is applied to a host)
_PRIORITY = ["Attention", "GroupQueryAttention", "MultiHeadAttention", "SDPA", "RotaryEmbedding", "SkipSimplifiedLayerNormalization",
             "SkipLayerNormalization", "SimplifiedLayerNormalization", "BiasGelu", "FastGelu", "Gelu", "GroupNorm", "FusedMatMul"]


def _chains():
    import onnxscript.rewriter.ort_fusions._core as core
    from onnxscript.rewriter.ort_fusions import fused_matmul_rule_sets, instance_to_group_normalization, shape_optimization, softmax

    def ruleset(rs):
        return lambda model: rs.apply_to_model(model)

    def cse(model):
        core.common_passes.CommonSubexpressionEliminationPass()(model)
        return 0

    sdpa_mha = [("rotary_embedding", core.fuse_rotary_embedding), ("cos_sin_cache", core.fuse_cos_sin_cache), ("cse", cse),
                ("sdpa", lambda m: core.fuse_sdpa(m, apply_shape_inference=True)), ("mha1", core.fuse_mha1), ("mha2", core.fuse_mha2),
                ("mha_scale", core.fuse_mha_scale), ("mha_bias", core.fuse_mha_bias), ("attention", core.fuse_attention),
                ("sdpa_via_mha", core.replace_sdpa_by_mha)]
    return {
        "rms_normalization": [("rms_normalization", core.fuse_rms_normalization)],
        "skip_rms_normalization": [("rms_normalization", core.fuse_rms_normalization), ("skip_rms_normalization", core.fuse_skip_rms_normalization)],
        "skip_layer_normalization": [("skip_layer_normalization", core.fuse_skip_layer_normalization)],
        "gelu": [("erf_gelu", core.fuse_erfgelu), ("gelu", core.fuse_gelu)],
        "bias_gelu": [("erf_gelu", core.fuse_erfgelu), ("gelu", core.fuse_gelu), ("bias_gelu", core.fuse_bias_gelu)],
        "rotary_embedding": [("rotary_embedding", core.fuse_rotary_embedding), ("cos_sin_cache", core.fuse_cos_sin_cache),
                             ("partial_rotary_embedding", core.fuse_partial_rotary_embedding)],
        "sdpa": [("sdpa", lambda m: core.fuse_sdpa(m, apply_shape_inference=True)), ("sdpa_via_mha", core.replace_sdpa_by_mha)],
        "mha": sdpa_mha,
        "gqa": [("shape_inference", lambda m: (core.common_passes.ShapeInferencePass()(m), 0)[1]),
                ("sdpa", lambda m: core.fuse_sdpa(m, apply_shape_inference=True)), ("gqa", core.fuse_gqa),
                ("packed_qkv_for_gqa", core.fuse_qkv_gqa), ("sdpa_via_mha", core.replace_sdpa_by_mha)],
        "fused_matmul": [("fused_matmul", ruleset(fused_matmul_rule_sets.fused_matmul_rule_sets()))],
        "softmax": [("softmax", ruleset(softmax.rules))],
        "shape_optimization": [("shape_optimization", ruleset(shape_optimization.rules))],
        "instance_to_group_normalization": [("instance_to_group_normalization", ruleset(instance_to_group_normalization.rules))],
    }


def apply_unit(model: onnx.ModelProto, unit: str, chain: str):
    """Returns ("ok", new ModelProto, {fusion: count}) or ("raise", text, frame, stage)."""
    from onnxscript import ir

    stage = "deserialize"
    try:
        mi = ir.serde.deserialize_model(model)
        counts = {}
        if unit == "optimize_for_ort":
            from onnxscript.rewriter.ort_fusions import optimize_for_ort

            stage = "optimize_for_ort"
            mi, c = optimize_for_ort(mi)
            counts = {k: int(v or 0) for k, v in c.items()}
        else:
            from onnxscript.optimizer import optimize

            stage = "optimize"
            optimize(mi)
            for name, fn in _chains()[chain]:
                stage = name
                counts[name] = int(fn(mi) or 0)
        stage = "serialize"
        return ("ok", ir.serde.serialize_model(mi), counts)
    except Exception as e:  # noqa: BLE001
        return ("raise", f"{type(e).__name__}: {str(e)[:300]}", optcommon.innermost_frame(e), stage)


def _ops(model):
    return {k for k in optcommon.op_multiset(model) if not str(k[0]).startswith("fn:")}


def fused_ops_added(before, after):
    b, a = _ops(before), _ops(after)
    return sorted(f"{d or 'onnx'}.{o}" for (d, o) in (a - b) if (d, o) in FUSED_OPS)


def _softmax_upcast_removed(before, after):
    """True iff `before` has Cast(float16 -> FLOAT) -> Softmax -> Cast(-> FLOAT16) and `after` feeds that Softmax directly."""
    f16_inputs = {i.name for i in before.graph.input if i.type.tensor_type.elem_type == onnx.TensorProto.FLOAT16}
    prod = {o: n for n in before.graph.node for o in n.output}
    upcast = False
    for n in before.graph.node:
        if n.op_type == "Softmax" and n.input[0] in prod and prod[n.input[0]].op_type == "Cast" and prod[n.input[0]].input[0] in f16_inputs:
            cons = [c for c in before.graph.node if n.output[0] in c.input]
            if len(cons) == 1 and cons[0].op_type == "Cast" and any(a.name == "to" and a.i == onnx.TensorProto.FLOAT16 for a in cons[0].attribute):
                upcast = True
    if not upcast:
        return False
    return any(n.op_type == "Softmax" and n.input[0] in f16_inputs for n in after.graph.node)


_UNAVAILABLE = ("NOT_IMPLEMENTED", "Could not find an implementation", "Kernel not found", "Failed to find kernel")


def _ort_error_key(msg):
    """Root-cause key of an ORT load/run failure: (operator, normalised status message)."""
    m = (re.search(r"running (\w+) node", msg) or re.search(r"operator \((\w+)\)", msg) or re.search(r"Op \((\w+)\)", msg)
         or re.search(r"of node \((?:node_)?([A-Za-z]+)", msg))
    opname = m.group(1) if m else "?"
    m = re.search(r"Status Message: (.*)", msg)
    text = m.group(1) if m else msg.split(":", 3)[-1]
    text = re.sub(r"[^A-Za-z ]+", " ", text)
    return f"{opname}:{'_'.join(text.split()[:8])}"


def _groupnorm_ref_ops():
    from onnx.reference.op_run import OpRun

    class GroupNorm(OpRun):
        op_domain = "com.microsoft"

        def _run(self, x, gamma, beta, activation=0, channels_last=1, epsilon=1e-5, groups=1):  # noqa: ARG002
            xf = x.astype(np.float32)
            if not channels_last:
                xf = np.moveaxis(xf, 1, -1)
            n, c = xf.shape[0], xf.shape[-1]
            sp = xf.shape[1:-1]
            g = xf.reshape(n, -1, groups, c // groups)
            mean = g.mean(axis=(1, 3), keepdims=True)
            var = g.var(axis=(1, 3), keepdims=True)
            y = ((g - mean) / np.sqrt(var + epsilon)).reshape(n, *sp, c)
            y = y * gamma.astype(np.float32) + beta.astype(np.float32)
            if activation:
                y = y / (1.0 + np.exp(-y))
            if not channels_last:
                y = np.moveaxis(y, -1, 1)
            return (y.astype(x.dtype),)

    return [GroupNorm]


def _run_fused_by_reference(new, feeds):
    from onnx.reference import ReferenceEvaluator

    try:
        ev = ReferenceEvaluator(new, new_ops=_groupnorm_ref_ops())
        return ("ok", [np.asarray(o) for o in ev.run(None, feeds)])
    except Exception as e:  # noqa: BLE001
        return ("err", f"{type(e).__name__}: {str(e)[:300]}")


def tolerances(outputs):
    """(rel, abs) per the property: by dtype, absolute part scaled by the output magnitude."""
    f16 = any(np.asarray(o).dtype == np.float16 for o in outputs)
    rel = 2e-2 if f16 else 1e-3
    s = 1.0
    for o in outputs:
        o = np.asarray(o)
        if o.dtype.kind == "f" and o.size:
            f = np.abs(o[np.isfinite(o)].astype(np.float64))
            if f.size:
                s = max(s, float(f.max()))
    return rel, rel * s


def _reference_unreliable(model):
    """onnx.reference has a single Softmax/LogSoftmax/Hardmax kernel (the opset-13 meaning: one axis, default -1).  Before opset 13 these
    operators flatten the input to 2-D at `axis` (default 1), which onnxruntime - the runtime the property names - implements.  The
    cross-check of the SOURCE against onnx.reference is skipped for such models; the fused result is judged on onnxruntime as always."""
    opset = next((o.version for o in model.opset_import if o.domain in ("", "ai.onnx")), 99)
    return opset < 13 and any(n.op_type in ("Softmax", "LogSoftmax", "Hardmax") for n in model.graph.node)


def check(model, unit, chain, feeds_list):
    """Oracle on one (host model, unit).  Returns (verdicts, info)."""
    info = {"fired": [], "counts": {}, "verdict": "unchanged"}
    verdicts = []
    # 1. source on both runtimes
    src = compare.Source(model)
    if src.sess is None:
        info["verdict"] = "skip:source_not_loadable_by_ort"
        info["source_error"] = src.sess_err
        return verdicts, info
    expected = []
    for feeds in feeds_list:
        a = execs.run_ort(None, feeds, src.sess)
        if a[0] != "ok":
            info["verdict"] = "skip:source_fails_on_ort"
            info["source_error"] = a[1]
            return verdicts, info
        if src.ev is not None and not _reference_unreliable(model):
            b = execs.run_ref(None, feeds, src.ev)
            if b[0] == "ok":
                rel, abs_ = tolerances(a[1])
                d = compare.same_outputs(a[1], b[1], rel=rel, abs_=abs_)
                if d:
                    info["verdict"] = "skip:runtime_disagreement_on_source"
                    info["source_error"] = d
                    return verdicts, info
                info["ref_checked"] = True
        expected.append(a[1])
    # 2. transform
    r = apply_unit(model, unit, chain)
    if r[0] == "raise":
        info["verdict"] = "raise"
        verdicts.append((f"raise:{r[2]}", f"stage {r[3]}: {r[1]}"))
        return verdicts, info
    _, new, counts = r
    info["counts"] = counts
    info["fired"] = fused_ops_added(model, new)
    info["changed"] = optcommon.folded_or_rewritten(model, new)
    if "softmax" not in counts and _softmax_upcast_removed(model, new):
        counts["softmax"] = 1  # the upcast-removal rule leaves no new operator behind (and rewrite() returns no counts)
    info["fired_any"] = bool(info["fired"]) or any(counts.values())
    fired_names = "+".join(sorted(k for k, v in counts.items() if v)) or "+".join(info["fired"]) or "none"
    # 3. result on ORT
    sess, by_ref = None, False
    try:
        sess = execs.ort_session(new)
    except Exception as e:  # noqa: BLE001
        msg = f"{type(e).__name__}: {str(e)[:400]}"
        if any(u in msg for u in _UNAVAILABLE):
            if "GroupNorm" not in msg:
                info["verdict"] = "skip:fused_kernel_unavailable_on_cpu"
                return verdicts, info
            by_ref = True
        else:
            info["verdict"] = "not_loadable"
            verdicts.append((f"not_loadable:{_ort_error_key(msg)}", f"fusions {fired_names}: {msg}"))
            return verdicts, info
    for feeds, exp in zip(feeds_list, expected):
        c = _run_fused_by_reference(new, feeds) if by_ref else execs.run_ort(None, feeds, sess)
        if c[0] != "ok":
            if by_ref or any(u in c[1] for u in _UNAVAILABLE):
                info["verdict"] = "skip:fused_kernel_unavailable_on_cpu"
                info["source_error"] = c[1]
                return verdicts, info
            info["verdict"] = "run_fails"
            verdicts.append((f"run_fails:{_ort_error_key(c[1])}", f"fusions {fired_names}: {c[1]}"))
            return verdicts, info
        rel, abs_ = tolerances(exp)
        d = compare.same_outputs(exp, c[1], rel=rel, abs_=abs_)
        if d:
            info["verdict"] = "values"
            what = "shape" if "shape " in d else ("dtype" if "dtype " in d else ("count" if "output count" in d else ("nan" if "NaN positions" in d else "values")))
            have = {o for (dom, o) in _ops(new) if (dom, o) in FUSED_OPS}
            present = next((o for o in _PRIORITY if o in have), "none")  # the most derived fused operator present
            verdicts.append((f"{what}:{present}", f"fusions {fired_names}: {d} | input {str(compare._feeds_repr(feeds))[:300]}"))
            return verdicts, info
    info["verdict"] = ("equal_by_reference" if by_ref else "equal") if info["changed"] else "unchanged"
    return verdicts, info


# ----------------------------------------------------------------------------- plan / run
# (families, weight): 16 shard groups; the attention hosts are the most expensive per case, so they get fewer cases per shard
GROUPS = [(["rms_normalization"], 1.0), (["skip_normalization"], 1.0), (["gelu"], 1.0), (["bias_gelu"], 1.0), (["rotary_embedding"], 0.8),
          (["rotary_embedding"], 0.8), (["sdpa"], 0.9), (["sdpa"], 0.9), (["mha"], 0.6), (["mha"], 0.6), (["gqa"], 0.6), (["fused_matmul"], 1.2),
          (["softmax", "instance_to_group_normalization", "shape_optimization"], 1.5), (["skip_normalization"], 1.0), (["fused_matmul"], 1.2),
          (["rms_normalization", "gelu", "bias_gelu"], 1.0)]


def plan(tier, seed, budget):
    n = int((360 if tier == "quick" else 6400) * budget)
    only = os.environ.get("VERIF_ONLY")
    reps = 1 if tier == "quick" else 4
    specs = []
    for grp, w in GROUPS:
        if only and not any(only in f for f in grp):
            continue
        for r in range(reps):
            specs.append({"families": grp, "n": max(1, int(n * w) // reps), "rep": r})
    return specs


def case_json(host, unit, seeds, feeds_list):
    return {"family": host.family, "chain": host.chain, "unit": unit, "params": {k: (list(v) if isinstance(v, tuple) else v) for k, v in host.params.items()},
            "near_miss": host.near_miss, "model": optcommon.model_to_json(host.model), "text": _text(host.model), "seeds": list(seeds),
            "feeds": [optcommon.feeds_to_json(f) for f in feeds_list]}


def _text(model, limit=5000):
    try:
        return onnx.printer.to_text(model)[:limit]
    except Exception:  # noqa: BLE001
        return str(model.graph)[:limit]


def run_shard(spec):
    col = Collector()
    fired_total, fired_ops, by_region = {}, {}, {}

    def body(case):
        host, unit, seeds = case
        if EXCLUDE:
            hc = {"family": host.family, "near_miss": host.near_miss, "params": host.params}
            hit = [r for r in sorted(EXCLUDE) if r in REGIONS and REGIONS[r](hc)]
            if hit:
                col.exclude(hit[0])
                return
        feeds_list = [fusionhosts.make_feeds(host.feeds, s) for s in seeds]
        verdicts, info = check(host.model, unit, host.chain, feeds_list)
        v = info["verdict"]
        if v.startswith("skip:"):
            col.skip(f"{v[5:]}:{host.family}")
            if len(col.extra.setdefault("skip_samples", [])) < 3:
                col.extra["skip_samples"].append(f"{host.family}/{host.near_miss}: {info.get('source_error', '')[:200]}")
            return
        fired = bool(info.get("fired_any"))
        for k, c in info["counts"].items():
            if c:
                fired_total[k] = fired_total.get(k, 0) + 1
        for o in info["fired"]:
            fired_ops[o] = fired_ops.get(o, 0) + 1
        ukind = "pipeline" if unit == "optimize_for_ort" else "chain"
        classes = [f"family:{host.family}", f"unit:{ukind}", f"{host.family}:{ukind}:{'fired' if fired else 'not_fired'}", f"verdict:{v}",
                   f"dtype:{host.params.get('dtype')}", f"near_miss:{host.family}:{host.near_miss}:{'fired' if fired else 'not_fired'}"]
        classes += [f"fused_op:{o}" for o in info["fired"]]
        classes += [f"count:{k}" for k, c in info["counts"].items() if c]
        if info.get("ref_checked"):
            classes.append("source_cross_checked_by_reference")
        for k in ("B", "S", "H", "D", "Dh"):
            if k in host.params:
                classes.append(f"{k}={host.params[k]}")
        col.case((unit, host.key()), fired, classes,
                 sample={"family": host.family, "unit": unit, "params": {k: str(v) for k, v in host.params.items()}, "fused": info["fired"],
                         "counts": {k: c for k, c in info["counts"].items() if c}, "model": _text(host.model, 1500)})
        if verdicts:
            hc = {"family": host.family, "near_miss": host.near_miss, "params": host.params}
            regs = [r for r in sorted(REGIONS) if REGIONS[r](hc)] or ["<outside every recorded region>"]
            for bucket, detail in verdicts:
                for r in regs:
                    by_region[f"{r} | {bucket}"] = by_region.get(f"{r} | {bucket}", 0) + 1
                col.violation(bucket, f"[{host.family} near_miss={host.near_miss} unit={unit} regions={regs}] {detail}",
                              case_json(host, unit, seeds, feeds_list), size=len(host.model.graph.node))

    fams = [fusionhosts.FAMILIES[f] for f in spec["families"]]
    strat = st.tuples(st.sampled_from(fams).flatmap(lambda f: f()), st.sampled_from(["chain", "chain", "optimize_for_ort"]),
                      st.tuples(st.integers(0, 10**6), st.integers(0, 10**6)))
    drive(strat, body, spec["n"], spec["seed"])
    import onnxscript

    col.extra["code_under_test"] = os.path.dirname(onnxscript.__file__)
    col.extra["fired_per_fusion"] = fired_total
    col.extra["fused_ops_introduced"] = fired_ops
    col.extra["violating_cases_by_region_and_bucket"] = by_region
    return col.result()


def finalize(merged, tier):
    fired = merged["extra"].get("fired_per_fusion", {})
    # fuse_xformers reports mha1/mha2 separately
    fired = dict(fired)
    fired["mha"] = fired.get("mha1", 0) + fired.get("mha2", 0)
    merged["extra"]["fired_per_fusion"] = dict(sorted(fired.items()))
    if os.environ.get("VERIF_ONLY"):
        return
    nominal = {"quick": 5000, "thorough": 80000}.get(tier, 5000)
    need = max(3, int(MIN_FIRED.get(tier, 1) * min(1.0, merged["evaluations"] / nominal)))
    merged["extra"]["fire_floor_per_fusion"] = need
    low = sorted(f for f in REQUIRED_FUSIONS if fired.get(f, 0) < need)
    merged["extra"]["fusions_below_fire_floor"] = low
    if low:
        # vacuity guard: trip the runner's FLOOR so the run ends as a harness error (exit 2), never as "held"
        merged["extra"]["distinct_nontrivial_before_fire_floor_failure"] = len(merged["nontrivial"])
        merged["nontrivial"] = set()
        print(f"C19: fusions that fired fewer than {need} times: {low}")


def replay(case):
    model = optcommon.model_from_json(case["model"])
    feeds = [optcommon.feeds_from_json(f) for f in case["feeds"]]
    verdicts, info = check(model, case["unit"], case["chain"], feeds)
    return verdicts
