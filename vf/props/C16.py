"""C16 - every registered torch_lib overload binds correctly to its ATen schema (DESIGN.md "### C16")."""
from __future__ import annotations

import inspect
import math
import operator
import os
import re
import sys
import warnings

from vf.hyp import drive, st
from vf.runner import Collector

ID = "C16"
EARLY_ATTRIBUTION = True  # region predicates are cheap scans of the stored case
LEVEL = "exploration"
EXHAUSTIVE = True
RULE = ("Finite domain, enumerated completely: every (qualified name, function, is_complex) returned by "
        "onnxscript._framework_apis.torch_2_5.get_torchlib_ops(), resolved the way the exporter's _get_overload does "
        "(_operator::x -> operator.x, math::x -> math.x, else torch.ops.<ns>.<name>.<overload|default> after importing torchvision "
        "and the quantized_decomposed library) against <overload>._schema of the installed PyTorch. Static verdict per entry: the "
        "overload exists; the name is well-formed and not '.default'; (name, real/complex) is registered exactly once (registry "
        "list + the registry's duplicate warnings recorded during the first import); binding positional schema arguments by "
        "position and keyword-only ones by name on function.op_signature puts every Tensor/Tensor?/Tensor[]/Tensor?[] argument on "
        "an input parameter, leaves no required parameter unbound (also when defaulted schema arguments are omitted, as FX does), "
        "drops nothing but generator/layout/device/pin_memory/memory_format/requires_grad, keeps schema order; for scripted "
        "functions str/ScalarType/Device/Layout/MemoryFormat land on attribute parameters of a compatible type and "
        "to_function_proto() passes onnx.checker.check_function (+ the independent walker). Dynamic layer per entry: three fixed calls "
        "(everything passed / every defaulted argument omitted / every optional = None) plus Hypothesis-sampled calls drawn from the "
        "schema (how many trailing defaults are passed, which keyword-only arguments, None vs value, small values per type, converted "
        "like the exporter's fx->onnx argument conversion) are bound with the exporter's own "
        "torch.onnx._internal.exporter._building._construct_named_inputs_and_attrs (unique tokens -> exact placement), for trace-only "
        "functions additionally with Python's own call binding (TracedOnnxFunction.__call__ is a plain call), for scripted functions "
        "additionally through OpRecorder.eval_function (the recorded function node must carry attributes of the declared types). The "
        "set of mismatch kinds seen dynamically must equal the static verdict. Python-builtin targets have no schema: existence and "
        "arity only. Non-trivial = the overload has >=1 keyword-only, optional or defaulted argument; distinct by (qualified name, "
        "is_complex). One bucket per (qualified name, mismatch kind).")
ASSUMPTIONS = ["torch.ops.<ns>.<name>.<overload>._schema of the installed PyTorch (2.14) + torchvision is the specification of the ATen signatures",
               "FX call convention: positional schema arguments positionally with trailing defaulted ones omitted, keyword-only ones by name "
               "when not None/default, Generator never passed, kwarg dtype=None replaced by -1 (torch.onnx._internal.exporter._core)",
               "torch.onnx._internal.exporter._building (_construct_named_inputs_and_attrs, OpRecorder) is the exporter's binding routine; "
               "trace-only functions are called as plain Python functions",
               "onnx.checker.check_function defines validity of a FunctionProto",
               "for trace-only functions only structural mismatches count (a Python parameter accepts any non-tensor value); "
               "type-kind mismatches there are recorded as info classes, not violations"]
FLOOR = {"quick": 150, "thorough": 150}
TIMEOUT = {"quick": 600, "thorough": 3 * 3600}
SHARDS = 8
EXCLUDE: set = set()  # development only: qualified names to skip (counted with col.exclude)
TRACED_KWARGS_STRICT = True  # a trace-only function that cannot take a droppable argument raises TypeError in the exporter's plain Python call:
#                              True = violation 'traced_rejects_droppable' (confirmed with torch.onnx.export), False = info class only
WIDESPREAD = 40  # more buckets than this of one kind = one global root cause -> collapsed into one bucket

_NAME_RE = re.compile(r"^(?P<namespace>[a-zA-Z0-9_]+)::(?P<name>[a-zA-Z0-9_]+)(?P<overload>\.[a-zA-Z0-9._]+)?$")  # documented form
DROPPABLE = ("generator", "layout", "device", "pin_memory", "memory_format", "requires_grad")
TENSOR_KINDS = ("Tensor", "List[Tensor]", "List[Optional[Tensor]]")
ATTR_ONLY_KINDS = ("str", "ScalarType", "Device", "Layout", "MemoryFormat")
# attribute types that take a value of the given schema kind unchanged (the exporter turns an int into a float for FLOAT attributes)
ACCEPT = {"int": ("INT", "FLOAT"), "bool": ("INT", "FLOAT"), "float": ("FLOAT",), "number": ("FLOAT",), "str": ("STRING",),
          "ScalarType": ("INT",), "Device": ("STRING",), "Layout": ("STRING",), "MemoryFormat": ("STRING",),
          "List[int]": ("INTS",), "List[bool]": ("INTS",), "List[float]": ("FLOATS",), "List[number]": ("FLOATS",), "List[str]": ("STRINGS",)}
# kinds on which the static verdict and the dynamic layer must agree
COMPARABLE = ("tensor_on_attribute", "positional_without_param", "dropped_argument", "traced_rejects_droppable", "kw_collides_positional",
              "required_param_unbound", "required_param_for_defaulted_arg", "none_on_required_attribute", "attr_only_kind_on_input",
              "attr_type_incompatible")
TENSOR_MARK = "<T>"
_MISSING = object()


# ----------------------------------------------------------------------------- registry loading (once per process)
_STATE = None


class Entry:
    __slots__ = ("qname", "is_complex", "function", "traced", "pyfunc", "params", "target", "target_kind", "why", "args", "sig")


def load():
    """Import torch + the registry once; record the registry's duplicate warnings emitted during the first import."""
    global _STATE
    if _STATE is not None:
        return _STATE
    preimported = "onnxscript.function_libs.torch_lib.ops" in sys.modules
    with warnings.catch_warnings(record=True) as rec:
        warnings.simplefilter("always")
        import torch  # noqa: F401
        from onnxscript._framework_apis import torch_2_5

        metas = torch_2_5.get_torchlib_ops()
    dups = []
    for w in rec:
        m = re.match(r"(Real|Complex) overload for '([^']+)' already registered", str(w.message))
        if m:
            dups.append((m.group(2), m.group(1) == "Complex"))
    libs = {}
    for name, modname in (("torchvision", "torchvision"), ("quantized_decomposed", "torch.ao.quantization.fx._decomposed"),
                          ("prims", "torch._prims")):
        try:
            __import__(modname)
            libs[name] = True
        except Exception:  # noqa: BLE001
            libs[name] = False
    import onnxscript
    from torch.onnx._internal.exporter import _building, _tensors

    import onnx_ir

    _STATE = {"metas": metas, "dups": sorted(dups), "dups_observable": not preimported, "libs": libs, "B": _building, "T": _tensors,
              "ir": onnx_ir, "onnxscript": onnxscript, "repo": os.path.dirname(os.path.dirname(os.path.abspath(onnxscript.__file__))),
              "opset": onnxscript.values.Opset("", 18)}
    return _STATE


def resolve(qname):
    """(target, kind, why) mirroring torch.onnx._internal.exporter._registration._get_overload."""
    import torch

    S = load()
    if "::" not in qname:
        return None, "unresolved", "no namespace separator"
    ns, rest = qname.split("::", 1)
    op_name, *ov = rest.split(".", 1)
    if ns == "_operator":
        t = getattr(operator, op_name, None)
        return (t, "builtin", "") if t is not None else (None, "unresolved", f"module operator has no '{op_name}'")
    if ns == "math":
        t = getattr(math, op_name, None)
        return (t, "builtin", "") if t is not None else (None, "unresolved", f"module math has no '{op_name}'")
    if ns in S["libs"] and not S["libs"][ns]:
        return None, "skip", f"library for namespace '{ns}' is not installed"
    try:
        packet = getattr(getattr(torch.ops, ns), op_name)
    except AttributeError:
        return None, "unresolved", f"torch.ops.{ns} has no operator '{op_name}'"
    names = list(packet.overloads())
    want = ov[0] if ov else "default"
    if want not in names:
        return None, "unresolved", f"torch.ops.{ns}.{op_name} has no overload '{want}' (it has {sorted(names)})"
    return getattr(packet, want), "overload", ""


def _arg_infos(schema):
    out = []
    for a in schema.arguments:
        rt = str(a.real_type)
        opt = rt.startswith("Optional[") and rt.endswith("]")
        base = rt[9:-1] if opt else rt
        has_def = a.has_default_value()
        d = a.default_value if has_def else None
        out.append({"name": a.name, "kind": base, "optional": opt, "kw": bool(a.kwarg_only), "has_default": bool(has_def), "default": d})
    return out


def entries():
    """All registry entries, sorted; each resolved against torch."""
    S = load()
    if "entries" in S:
        return S["entries"]
    ir, osc = S["ir"], S["onnxscript"]
    out = []
    for m in S["metas"]:
        e = Entry()
        e.qname, e.is_complex, e.function = m.qualified_name, bool(m.is_complex), m.function
        e.traced = isinstance(m.function, osc.values.TracedOnnxFunction)
        e.pyfunc = m.function.func if e.traced else getattr(m.function, "function", None)
        e.sig = m.function.op_signature
        e.params = [{"name": p.name, "input": isinstance(p, ir.schemas.Parameter), "required": bool(p.required),
                     "attr_type": None if isinstance(p, ir.schemas.Parameter) else p.type.name,
                     "has_default": (p.has_default() if isinstance(p, ir.schemas.Parameter) else p.default is not None),
                     "default": (p.default if isinstance(p, ir.schemas.Parameter) and p.has_default() else
                                 (p.default.value if not isinstance(p, ir.schemas.Parameter) and p.default is not None else None))}
                    for p in e.sig.params]
        e.target, e.target_kind, e.why = resolve(e.qname) if _NAME_RE.match(e.qname) else (None, "unresolved", "malformed name")
        e.args = _arg_infos(e.target._schema) if e.target_kind == "overload" else None
        out.append(e)
    out.sort(key=lambda e: (e.qname, e.is_complex))
    S["entries"] = out
    return out


def render(e):
    """Deterministic one-line description of the registered function and its op_signature."""
    ps = ", ".join(p["name"] + (": input" if p["input"] else ": " + p["attr_type"]) + ("" if p["required"] else " = <default>") for p in e.params)
    return f"{'trace_only' if e.traced else 'scripted'} {getattr(e.pyfunc, '__module__', '?')}.{e.function.name}({ps})"


def label(e):
    return e.qname + ("#complex" if e.is_complex else "")


def bucket(e, kind):
    return f"{label(e)}:{kind}"


# ----------------------------------------------------------------------------- static verdict
def _norm_default(v):
    if isinstance(v, tuple):
        return list(v)
    return v


def static_verdict(e):
    """-> (violations [(kind, detail)], infos [(kind, detail)]).  Pure reasoning on schema vs op_signature."""
    S = load()
    V, I = [], []
    if e.qname.endswith(".default") or not _NAME_RE.fullmatch(e.qname):
        V.append(("bad_name", f"'{e.qname}' is not '<namespace>::<name>[.<overload>]' with the default overload spelled without '.default'"))
    n_same = sum(1 for x in S["metas"] if x.qualified_name == e.qname and bool(x.is_complex) == e.is_complex)
    if n_same != 1:
        V.append(("duplicate_registration", f"{n_same} functions registered for ({e.qname}, complex={e.is_complex})"))
    if (e.qname, e.is_complex) in S["dups"]:
        V.append(("duplicate_registration", f"the registry warned that a second function was registered for ({e.qname}, complex={e.is_complex}); "
                  f"the first registration wins and the later one is silently unused"))
    if e.target_kind == "skip":
        return V, I
    if e.target_kind == "unresolved":
        V.append(("no_overload", f"PyTorch does not define this operator overload: {e.why}"))
        return V, I
    params = e.params
    names = [p["name"] for p in params]
    if e.pyfunc is not None:
        bad = [str(p) for p in inspect.signature(e.pyfunc).parameters.values() if p.kind is not p.POSITIONAL_OR_KEYWORD]
        if bad:
            I.append(("unsupported_python_signature", f"parameters {bad} are not positional-or-keyword"))
            return V, I
    if e.target_kind == "builtin":
        try:
            bsig = inspect.signature(e.target)
            arity = len(bsig.parameters)
        except (TypeError, ValueError):
            I.append(("builtin_without_signature", repr(e.target)))
            return V, I
        nreq = sum(1 for p in params if p["required"])
        if not (nreq <= arity <= len(params)):
            V.append(("builtin_arity", f"{e.target!r} takes {arity} argument(s); the function has {nreq} required of {len(params)} parameters {names}"))
        return V, I

    pos = [a for a in e.args if not a["kw"]]
    kw = [a for a in e.args if a["kw"]]
    landed = []  # (arg, param index)
    bound = set()
    for i, a in enumerate(pos):
        if i >= len(params):
            if a["name"] in DROPPABLE:
                if e.traced:
                    (V if TRACED_KWARGS_STRICT else I).append(("traced_rejects_droppable", f"positional argument '{a['name']}' has no parameter; the trace-only function is called as a "
                              f"plain Python function and raises TypeError when it is passed"))
            else:
                V.append(("positional_without_param", f"positional schema argument #{i} '{a['name']}: {a['kind']}' has no parameter in {names}: it is "
                          + ("rejected with TypeError by the plain Python call" if e.traced else "silently dropped by the exporter's binding")))
            continue
        landed.append((a, i))
        bound.add(i)
        if params[i]["name"] != a["name"] and a["name"] in names:
            V.append(("misordered", f"positional schema argument #{i} '{a['name']}' lands on parameter '{params[i]['name']}' although the function has a "
                      f"parameter '{a['name']}' at position {names.index(a['name'])}"))
    for a in kw:
        if a["name"] in names:
            j = names.index(a["name"])
            if j in bound:
                V.append(("kw_collides_positional", f"keyword-only argument '{a['name']}' names parameter #{j}, which a positional argument already binds"))
            else:
                landed.append((a, j))
                bound.add(j)
        elif a["name"] in DROPPABLE:
            if e.traced and a["kind"] != "Generator":
                (V if TRACED_KWARGS_STRICT else I).append(("traced_rejects_droppable", f"keyword-only argument '{a['name']}' has no parameter; the exporter calls the trace-only function as a "
                          f"plain Python function, so passing it raises TypeError instead of dropping it"))
        else:
            V.append(("dropped_argument", f"keyword-only schema argument '{a['name']}: {a['kind']}' has no parameter in {names} and is not one of {DROPPABLE}: "
                      + ("the plain Python call raises TypeError" if e.traced else "the exporter drops it silently although it can affect the result")))
    sink = V if not e.traced else I
    for a, j in landed:
        p = params[j]
        if a["kind"] in TENSOR_KINDS:
            if not p["input"]:
                V.append(("tensor_on_attribute", f"tensor argument '{a['name']}: {a['kind']}' lands on attribute parameter '{p['name']}: {p['attr_type']}'"))
        elif a["kind"] != "Generator":
            if p["input"]:
                if a["kind"] in ATTR_ONLY_KINDS:
                    sink.append(("attr_only_kind_on_input", f"'{a['name']}: {a['kind']}' lands on input parameter '{p['name']}' (the exporter would turn it into a tensor)"))
            else:
                ok = ACCEPT.get(a["kind"])
                if ok is None:
                    I.append(("unknown_schema_kind", f"{a['name']}: {a['kind']}"))
                elif p["attr_type"] not in ok:
                    sink.append(("attr_type_incompatible", f"'{a['name']}: {a['kind']}' lands on attribute parameter '{p['name']}: {p['attr_type']}'"))
                if a["optional"] and p["required"] and not e.traced and not (a["kw"] and a["name"] == "dtype"):
                    V.append(("none_on_required_attribute", f"optional argument '{a['name']}: {a['kind']}?' lands on required attribute '{p['name']}'; "
                              f"passing None raises 'Required attribute ... is not provided'"))
        if a["has_default"] and p["required"]:
            V.append(("required_param_for_defaulted_arg", f"schema argument '{a['name']}' has default {a['default']!r} (FX omits defaulted arguments) but parameter "
                      f"'{p['name']}' is required: the call without it does not bind"))
        if a["has_default"] and p["has_default"] and a["name"] not in DROPPABLE and a["kind"] not in ("ScalarType", "Layout", "MemoryFormat", "Device"):
            da, dp = _norm_default(a["default"]), _norm_default(p["default"])
            same = (da == dp and type(da) is type(dp)) or (isinstance(da, (int, float)) and isinstance(dp, (int, float))
                                                           and not isinstance(da, bool) and not isinstance(dp, bool) and float(da) == float(dp)) \
                or (isinstance(da, bool) and dp in (0, 1) and int(da) == dp)
            if da is None and (dp in (-1, "", None) or dp == []):
                same = True
            if not same:
                I.append(("default_differs", f"{label(e)}: schema {a['name']}={da!r} vs function {p['name']}={dp!r}"))
    for j, p in enumerate(params):
        if j not in bound and p["required"]:
            V.append(("required_param_unbound", f"required parameter '{p['name']}' is bound by no schema argument of {[a['name'] for a in e.args]}"))
    return V, I


def check_proto(e):
    """Scripted functions: to_function_proto() must pass onnx.checker.check_function (+ walker)."""
    import onnx

    from vf import wellformed

    try:
        fp = e.function.to_function_proto()
    except Exception as ex:  # noqa: BLE001
        return [("to_function_proto_raises", f"{type(ex).__name__}: {str(ex)[:300]}")]
    out = []
    try:
        onnx.checker.check_function(fp)
    except Exception as ex:  # noqa: BLE001
        out.append(("checker", f"onnx.checker.check_function: {type(ex).__name__}: {str(ex)[:400]}"))
    if not out:
        for kind, msg in wellformed.check_function(fp, run_checker=False)[:2]:
            out.append((f"walker_{kind}", msg))
    # the proto's signature must be the one binding was judged on
    want_in = [p["name"] for p in e.params if p["input"]]
    want_at = sorted(p["name"] for p in e.params if not p["input"])
    got_at = sorted(list(fp.attribute) + [a.name for a in fp.attribute_proto])
    if list(fp.input) != want_in or got_at != want_at:
        out.append(("proto_signature_differs", f"FunctionProto inputs {list(fp.input)} / attributes {got_at} vs op_signature inputs {want_in} / attributes {want_at}"))
    return out


# ----------------------------------------------------------------------------- calls
def fixed_calls(e):
    """full / minimal / all-None calls in JSON form."""
    if e.target_kind == "builtin":
        n = len(inspect.signature(e.target).parameters)
        return [("full", {"args": [TENSOR_MARK] * n, "kwargs": {}})]
    pos = [a for a in e.args if not a["kw"]]
    kw = [a for a in e.args if a["kw"] and a["kind"] != "Generator"]
    nreq = sum(1 for a in pos if not a["has_default"])
    full = {"args": [_sample_value(a, 0) for a in pos], "kwargs": {a["name"]: _sample_value(a, 0) for a in kw}}
    minimal = {"args": [_sample_value(a, 0) for a in pos[:nreq]], "kwargs": {a["name"]: _sample_value(a, 0) for a in kw if not a["has_default"]}}
    allnone = {"args": [None if a["optional"] else _sample_value(a, 0) for a in pos],
               "kwargs": {a["name"]: (None if a["optional"] else _sample_value(a, 0)) for a in kw}}
    out = [("full", full)]
    if minimal != full:
        out.append(("minimal", minimal))
    if allnone != full:
        out.append(("allnone", allnone))
    return out


_FIXED = {"int": [2, 0, -1], "float": [0.5, 1.5, -2.5], "bool": [True, False, True], "number": [1.5, 2, 0.25], "str": ["mean", "none", "abc"],
          "ScalarType": [1, 7, 11], "Device": ["cpu", "cuda:0", "cpu"], "Layout": ["torch.strided"] * 3,
          "MemoryFormat": ["torch.contiguous_format", "torch.preserve_format", "torch.channels_last"],
          "List[int]": [[1, 2], [0], [2, 1, 3]], "List[float]": [[0.5, 1.5], [2.5], [0.25]], "List[bool]": [[True, False], [True], [False]],
          "List[number]": [[1.5], [2.5, 0.5], [0.5]], "List[str]": [["a"], ["b"], ["c"]],
          "Tensor": [TENSOR_MARK] * 3, "List[Tensor]": [[TENSOR_MARK, TENSOR_MARK], [TENSOR_MARK], [TENSOR_MARK] * 3],
          "List[Optional[Tensor]]": [[TENSOR_MARK, None], [None, TENSOR_MARK], [TENSOR_MARK]]}


def _sample_value(a, i):
    v = _FIXED.get(a["kind"])
    return None if v is None else v[i]


def _value_strategy(a):
    k = a["kind"]
    base = {
        "int": st.integers(-3, 6), "float": st.sampled_from([0.5, 1.5, -2.5, 1e-5, 0.25, 3.5]), "bool": st.booleans(),
        "number": st.one_of(st.integers(-3, 6), st.sampled_from([0.5, 1.5, -2.5])), "str": st.sampled_from(["none", "mean", "sum", "floor", "trunc", "ij", "reflect", "tanh", "abc"]),
        "ScalarType": st.sampled_from([1, 6, 7, 9, 10, 11, 16]), "Device": st.sampled_from(["cpu", "cuda:0", "meta"]), "Layout": st.sampled_from(["torch.strided"]),
        "MemoryFormat": st.sampled_from(["torch.contiguous_format", "torch.preserve_format", "torch.channels_last"]),
        "List[int]": st.lists(st.integers(-2, 5), min_size=0, max_size=4), "List[float]": st.lists(st.sampled_from([0.5, 1.5, 2.5]), min_size=1, max_size=3),
        "List[bool]": st.lists(st.booleans(), min_size=1, max_size=3), "List[number]": st.lists(st.sampled_from([0.5, 1.5]), min_size=1, max_size=3),
        "List[str]": st.lists(st.sampled_from(["a", "b"]), min_size=1, max_size=2),
        "Tensor": st.just(TENSOR_MARK), "List[Tensor]": st.lists(st.just(TENSOR_MARK), min_size=1, max_size=3),
        "List[Optional[Tensor]]": st.lists(st.sampled_from([TENSOR_MARK, TENSOR_MARK, None]), min_size=1, max_size=3).filter(lambda xs: any(x is not None for x in xs)),
    }.get(k)
    if base is None:
        return None
    return st.one_of(st.none(), base, base) if a["optional"] else base


def call_strategy(e):
    pos = [a for a in e.args if not a["kw"]]
    kw = [a for a in e.args if a["kw"] and a["kind"] != "Generator"]
    nreq = sum(1 for a in pos if not a["has_default"])
    vs = {a["name"]: _value_strategy(a) for a in e.args}

    @st.composite
    def _call(draw):
        k = draw(st.integers(nreq, len(pos)))
        args = [draw(vs[a["name"]]) for a in pos[:k]]
        kwargs = {}
        for a in kw:
            if not a["has_default"] or draw(st.booleans()):
                kwargs[a["name"]] = draw(vs[a["name"]])
        return {"args": args, "kwargs": kwargs}

    return _call()


class _Tok:
    __slots__ = ("arg",)

    def __init__(self, arg):
        self.arg = arg

    def __repr__(self):
        return f"<tok {self.arg}>"


def _materialise(v, S, counter):
    if isinstance(v, str) and v == TENSOR_MARK:
        ir = S["ir"]
        counter[0] += 1
        return S["T"].SymbolicTensor(S["opset"], name=f"t{counter[0]}", shape=ir.Shape([2, 3]), type=ir.TensorType(ir.DataType.FLOAT))
    if isinstance(v, list):
        return [_materialise(x, S, counter) for x in v]
    return v


def _root(ex):
    seen = 0
    while ex.__cause__ is not None and seen < 10:
        ex = ex.__cause__
        seen += 1
    return ex


def judge_call(e, call, full_bound=None):
    """Bind one call the way the exporter does.  -> (violations [(kind, detail)], infos [(kind, detail)], bound parameter names)."""
    S = load()
    B, ir = S["B"], S["ir"]
    V, I = [], []
    names = [p["name"] for p in e.params]
    pmap = {p["name"]: p for p in e.params}
    if e.target_kind == "builtin":
        schema_pos = [{"name": f"arg{i}", "kind": "Tensor", "optional": False, "kw": False, "has_default": False} for i in range(len(call["args"]))]
        schema_kw = {}
    else:
        schema_pos = [a for a in e.args if not a["kw"]]
        schema_kw = {a["name"]: a for a in e.args if a["kw"]}
    a_args = schema_pos[:len(call["args"])]
    tok_args = [_Tok(a["name"]) for a in a_args]
    tok_kwargs = {k: _Tok(k) for k in call["kwargs"]}
    arginfo = {a["name"]: a for a in a_args}
    arginfo.update({k: schema_kw[k] for k in call["kwargs"] if k in schema_kw})
    passed_none = {a["name"] for a, v in zip(a_args, call["args"]) if v is None} | {k for k, v in call["kwargs"].items() if v is None}

    def required_kind(pname):
        if full_bound is not None and pname in full_bound:
            return "required_param_for_defaulted_arg"
        return "required_param_unbound"

    # A. the exporter's routine with unique tokens -> exact placement
    extra = {}
    ni = na = None
    for _ in range(len(names) + 1):
        try:
            ni, na = B._construct_named_inputs_and_attrs(e.sig, tok_args, {**tok_kwargs, **extra})
            break
        except ValueError as ex:
            m = re.match(r"Required (?:parameter|attribute) '([^']+)' is not provided", str(ex))
            if not m or m.group(1) in extra:
                V.append((f"raise_construct_named_inputs_and_attrs_{type(ex).__name__}", str(ex)[:300]))
                return V, I, set()
            V.append((required_kind(m.group(1)), f"_construct_named_inputs_and_attrs: required parameter '{m.group(1)}' is not provided by the call"))
            extra[m.group(1)] = _Tok(None)
        except Exception as ex:  # noqa: BLE001
            V.append((f"raise_construct_named_inputs_and_attrs_{type(ex).__name__}", str(ex)[:300]))
            return V, I, set()
    if ni is None:
        return V, I, set()
    where = {}
    for pname, v in ni.items():
        if isinstance(v, _Tok) and v.arg is not None:
            where[v.arg] = ("input", pname)
    for pname, v in na.items():
        if isinstance(v, _Tok) and v.arg is not None:
            where[v.arg] = ("attr", pname)
    bound_params = {w[1] for w in where.values()}
    sink = V if not e.traced else I
    for i, t in enumerate(tok_args + list(tok_kwargs.values())):
        a = arginfo.get(t.arg)
        if a is None:
            continue
        w = where.get(t.arg)
        if w is None:
            if a["name"] in DROPPABLE:
                continue  # scripted: dropped as allowed; traced: judged by the Python call below
            if a["kw"]:
                V.append(("dropped_argument", f"exporter binding drops keyword-only argument '{a['name']}: {a['kind']}' (no such parameter in {names})"))
            else:
                V.append(("positional_without_param", f"exporter binding drops positional argument #{i} '{a['name']}: {a['kind']}' (function has {len(names)} parameters)"))
            continue
        if a["kind"] in TENSOR_KINDS and w[0] == "attr":
            V.append(("tensor_on_attribute", f"tensor argument '{a['name']}' is bound as attribute '{w[1]}'"))
        if a["kind"] in ATTR_ONLY_KINDS and w[0] == "input":
            sink.append(("attr_only_kind_on_input", f"'{a['name']}: {a['kind']}' is bound as input '{w[1]}'"))

    # B. trace-only functions: TracedOnnxFunction.__call__ is a plain Python call
    if e.traced:
        pa, pk = list(tok_args), dict(tok_kwargs)
        psig = inspect.signature(e.pyfunc)
        for _ in range(2 * len(e.args or []) + len(names) + 4):
            try:
                psig.bind(*pa, **pk)
                break
            except TypeError as ex:
                msg = str(ex)
                m = re.search(r"unexpected keyword argument '([^']+)'", msg)
                if m:
                    k = m.group(1)
                    if k in DROPPABLE:
                        (V if TRACED_KWARGS_STRICT else I).append(("traced_rejects_droppable", f"the plain Python call of the trace-only function raises TypeError: {msg}"))
                    else:
                        V.append(("dropped_argument", f"the plain Python call of the trace-only function raises TypeError: {msg}"))
                    pk.pop(k, None)
                    continue
                if "too many positional arguments" in msg:
                    a = arginfo[pa[-1].arg]
                    kind = "traced_rejects_droppable" if a["name"] in DROPPABLE else "positional_without_param"
                    (I if kind == "traced_rejects_droppable" and not TRACED_KWARGS_STRICT else V).append((kind, f"the plain Python call of the trace-only function raises TypeError for positional argument '{a['name']}': {msg}"))
                    pa.pop()
                    continue
                m = re.search(r"missing a required argument: '([^']+)'", msg)
                if m:
                    V.append((required_kind(m.group(1)), f"the plain Python call of the trace-only function raises TypeError: {msg}"))
                    pk[m.group(1)] = _Tok(None)
                    continue
                m = re.search(r"multiple values for argument '([^']+)'", msg)
                if m:
                    V.append(("kw_collides_positional", f"the plain Python call raises TypeError: {msg}"))
                    pk.pop(m.group(1), None)
                    continue
                V.append(("raise_python_call_TypeError", msg[:300]))
                break

    # C. real values
    counter = [0]
    r_args = [_materialise(v, S, counter) for v in call["args"]]
    r_kwargs = {k: _materialise(v, S, counter) for k, v in call["kwargs"].items()}
    if r_kwargs.get("dtype", 0) is None:
        r_kwargs["dtype"] = -1  # torch.onnx._internal.exporter._core._handle_call_function_node_with_lowering
    if e.target_kind == "builtin":
        return V, I, bound_params
    if not e.traced:
        tracer = B.OpRecorder(S["opset"], {})
        # OpRecorder.eval_function binds on function._pt_onnx_signature when present: give it the signature under test
        # (function.op_signature, onnxscript/ir/_schemas.py) and put things back afterwards
        had = getattr(e.function, "_pt_onnx_signature", _MISSING)
        e.function._pt_onnx_signature = e.sig
        try:
            with S["onnxscript"].evaluator.default_as(tracer):
                e.function(*r_args, **r_kwargs)
        except Exception as ex:  # noqa: BLE001
            root = _root(ex)
            msg = str(root)
            m = re.match(r"Required (parameter|attribute) '([^']+)' is not provided", msg)
            if m and m.group(1) == "attribute" and m.group(2) in {where[x][1] for x in passed_none if x in where}:
                V.append(("none_on_required_attribute", f"OpRecorder.eval_function: None passed for '{m.group(2)}': {msg[:200]}"))
            elif m:
                V.append((required_kind(m.group(2)), f"OpRecorder.eval_function: {msg[:200]}"))
            elif any(k in ("tensor_on_attribute", "attr_only_kind_on_input", "attr_type_incompatible") for k, _ in V):
                I.append(("eval_function_raises_after_misbinding", f"{type(root).__name__}: {msg[:200]}"))
            else:
                V.append((f"raise_eval_function_{type(root).__name__}", f"OpRecorder.eval_function raised on a call that the schema allows: {type(root).__name__}: {msg[:300]}"))
        else:
            nodes = [n for n in tracer.nodes if n.op_type == e.function.name and n.domain == e.function.function_ir.domain]
            if len(nodes) != 1:
                V.append(("no_function_node", f"OpRecorder recorded {len(nodes)} nodes for {e.function.name}"))
            else:
                node = nodes[0]
                n_inputs = sum(1 for p in e.params if p["input"])
                if len(node.inputs) > n_inputs:
                    V.append(("too_many_node_inputs", f"{len(node.inputs)} node inputs for {n_inputs} function inputs"))
                for an, attr in node.attributes.items():
                    p = pmap.get(an)
                    if p is None or p["input"]:
                        V.append(("unknown_node_attribute", f"node attribute '{an}' is not an attribute parameter"))
                    elif attr.type.name != p["attr_type"] and not (isinstance(attr.value, (list, tuple)) and len(attr.value) == 0):
                        V.append(("attr_type_incompatible", f"node attribute '{an}' has type {attr.type.name}, the function declares {p['attr_type']} (value {attr.value!r})"))
        finally:
            if had is _MISSING:
                try:
                    del e.function._pt_onnx_signature
                except AttributeError:
                    pass
            else:
                e.function._pt_onnx_signature = had
    else:
        try:
            _, r_na = B._construct_named_inputs_and_attrs(e.sig, r_args, {**r_kwargs, **{k: 0 for k in extra}})
        except Exception:  # noqa: BLE001  (required attribute + None etc.: the Python call decides for trace-only functions)
            r_na = {}
        for an, v in r_na.items():
            if isinstance(v, ir.Attr) or isinstance(v, ir.Value) or (isinstance(v, (list, tuple)) and (len(v) == 0 or any(isinstance(x, ir.Value) for x in v))):
                continue
            try:
                t = ir.convenience.convert_attributes({an: v})[0].type.name
            except Exception as ex:  # noqa: BLE001
                I.append(("attr_not_convertible", f"{an}={v!r}: {type(ex).__name__}"))
                continue
            if t != pmap[an]["attr_type"]:
                I.append(("attr_type_incompatible", f"attribute '{an}' gets a {t} value, declared {pmap[an]['attr_type']}"))
    return V, I, bound_params


# ----------------------------------------------------------------------------- per-entry check
def schema_classes(e):
    c = ["fn:" + ("traced" if e.traced else "scripted"), "target:" + e.target_kind, "ns:" + e.qname.split("::")[0]]
    if e.is_complex:
        c.append("complex")
    if e.args is not None:
        if any(a["kw"] for a in e.args):
            c.append("schema:kwonly")
        if any(a["optional"] for a in e.args):
            c.append("schema:optional")
        if any(a["has_default"] for a in e.args):
            c.append("schema:defaulted")
        for k in sorted({a["kind"] for a in e.args}):
            c.append("argkind:" + k)
        c.append("nargs:" + str(min(len(e.args), 8)))
    return c


def nontrivial(e):
    return e.args is not None and any(a["kw"] or a["optional"] or a["has_default"] for a in e.args)


def _case(e, call=None, tag=None, kind=None):
    c = {"qualified_name": e.qname, "is_complex": e.is_complex, "kind": kind}
    if call is not None:
        c["call"] = call
        c["call_kind"] = tag
    if e.target_kind == "overload":
        c["schema"] = str(e.target._schema)
    c["function"] = render(e)
    return c


def check_entry(e, calls, do_static=True, do_proto=True, do_fixed=True, col=None, sample=None):
    """-> list[(bucket, detail, case, size)].  calls: extra [(tag, call_json)] to judge dynamically."""
    out = []
    sv, si = static_verdict(e) if do_static else ([], [])
    static_kinds = {k for k, _ in sv}
    for k, d in sv:
        out.append((bucket(e, k), d, _case(e, kind=k), 0))
    if do_proto and not e.traced and e.target_kind != "skip":
        for k, d in check_proto(e):
            out.append((bucket(e, k), d, _case(e, kind=k), 0))
    infos = list(si)
    dyn_kinds = set()
    unknown = sorted({a["kind"] for a in (e.args or []) if a["kind"] not in _FIXED and a["kind"] != "Generator"})
    if unknown:
        infos.append(("unknown_schema_kind_no_calls", f"{label(e)}: {unknown}"))
        if col is not None:
            col.skip("dynamic_layer:unknown_schema_kind:" + ",".join(unknown))
    if e.target_kind in ("overload", "builtin") and not unknown and not any(k == "unsupported_python_signature" for k, _ in si):
        fixed = fixed_calls(e)
        full_bound = None
        # parameters the full call binds (to tell 'unbound in every call' from 'unbound when a defaulted argument is omitted')
        _, _, full_bound = judge_call(e, fixed[0][1], None)
        todo = (fixed if do_fixed else []) + list(calls)
        for tag, call in todo:
            V, I, _ = judge_call(e, call, full_bound)
            size = len(call["args"]) + len(call["kwargs"])
            for k, d in V:
                dyn_kinds.add(k)
                out.append((bucket(e, k), f"[dynamic, {tag} call args={call['args']} kwargs={call['kwargs']}] {d}", _case(e, call, tag, kind=k), 1 + size))
            infos += I
            if col is not None:
                cls = ["call:" + tag]
                if e.args is not None:
                    npos = sum(1 for a in e.args if not a["kw"])
                    if len(call["args"]) < npos:
                        cls.append("call:omits_defaulted_positional")
                    if call["kwargs"]:
                        cls.append("call:passes_kwonly")
                    if any(v is None for v in call["args"]) or any(v is None for v in call["kwargs"].values()):
                        cls.append("call:passes_none")
                    cls += ["call_verdict:" + k for k in sorted({k for k, _ in V})] or ["call_verdict:binds"]
                col.case((e.qname, e.is_complex), nontrivial(e), cls, sample=sample)
        if do_static and do_fixed:
            s_cmp = {k for k in static_kinds if k in COMPARABLE}
            d_cmp = {k for k in dyn_kinds if k in COMPARABLE}
            if s_cmp != d_cmp:
                out.append((f"selfcheck:{label(e)}:static_vs_dynamic", f"static verdict {sorted(s_cmp)} vs kinds reproduced by binding calls {sorted(d_cmp)}", _case(e, kind="static_vs_dynamic"), 0))
    return out, infos


# ----------------------------------------------------------------------------- shards
def plan(tier, seed, budget):
    n = SHARDS if tier == "quick" else 16
    per = max(2, int((16 if tier == "quick" else 1000) * budget))
    return [{"index": i, "of": n, "calls_per_entry": per} for i in range(n)]


def run_shard(spec):
    col = Collector()
    S = load()
    es = entries()
    mine = es[spec["index"]::spec["of"]]
    only = os.environ.get("VERIF_ONLY")
    col.extra["registry_size"] = [len(es)]
    col.extra["entries_checked"] = 0
    col.extra["scripted_protos_checked"] = 0
    col.extra["info_observations"] = {}
    col.extra["default_differs"] = []
    col.extra["repo"] = S["repo"]
    if spec["index"] == 0:
        col.extra["duplicate_warnings"] = [f"{n}{'#complex' if c else ''}" for n, c in S["dups"]]
        if not S["dups_observable"]:
            col.skip("duplicate_warnings_unobservable(ops preimported)")
    for e in mine:
        if only and only not in e.qname:
            continue
        if e.qname in EXCLUDE:
            col.exclude(e.qname)
            continue
        if e.target_kind == "skip":
            col.skip("library_not_installed:" + e.qname.split("::")[0])
        sampled = []
        if e.target_kind == "overload" and all(_value_strategy(a) is not None or a["kind"] == "Generator" for a in e.args):
            drive(call_strategy(e), lambda c: sampled.append(("sampled", c)), spec["calls_per_entry"], spec["seed"] ^ (hash_name(label(e)) & 0xFFFFFFFF))
            seen, uniq = set(), []
            for tag, c in sampled:
                k = repr(c)
                if k not in seen:
                    seen.add(k)
                    uniq.append((tag, c))
            sampled = uniq
        sample = {"qualified_name": e.qname, "is_complex": e.is_complex, "schema": str(e.target._schema) if e.target_kind == "overload" else repr(e.target),
                  "function": render(e), "sampled_calls": [c for _, c in sampled[:3]]}
        verdicts, infos = check_entry(e, sampled, col=col, sample=sample)
        cls = schema_classes(e) + ["verdict:" + k for k in sorted({b.rsplit(":", 1)[1] for b, _, _, _ in verdicts})] + ["info:" + k for k in sorted({k for k, _ in infos})]
        if not verdicts:
            cls.append("verdict:binds")
        col.case((e.qname, e.is_complex), nontrivial(e), cls, sample=sample)
        col.extra["entries_checked"] += 1
        if not e.traced:
            col.extra["scripted_protos_checked"] += 1
        for k, d in infos:
            col.extra["info_observations"][k] = col.extra["info_observations"].get(k, 0) + 1
            if k == "default_differs" and d not in col.extra["default_differs"]:
                col.extra["default_differs"].append(d)
        for b, d, case, size in verdicts:
            col.violation(b, d, case, size)
    return col.result()


def hash_name(s):
    import hashlib

    return int.from_bytes(hashlib.sha256(s.encode()).digest()[:4], "big")


def finalize(merged, tier):
    x = merged["extra"]
    sizes = x.get("registry_size", [])
    x["registry_size"] = sizes[0] if sizes else 0
    x["exhaustive_complete"] = bool(sizes) and len(set(sizes)) == 1 and x.get("entries_checked", 0) == sizes[0] and not os.environ.get("VERIF_ONLY") and not EXCLUDE
    x["default_differs"] = sorted(set(x.get("default_differs", [])))
    if isinstance(x.get("repo"), str):
        x["onnxscript_imported_from"] = x.pop("repo")
    # one global root cause (e.g. a broken op_signature_from_function) would otherwise print hundreds of buckets
    by_kind = {}
    for b in merged["violations"]:
        by_kind.setdefault(b.rsplit(":", 1)[1], []).append(b)
    for kind, bs in sorted(by_kind.items()):
        if len(bs) > WIDESPREAD:
            items = []
            for b in sorted(bs):
                items += merged["violations"].pop(b)
            items.sort(key=lambda v: v["size"])
            items[0] = dict(items[0], detail=f"{len(bs)} registry entries show '{kind}' (e.g. {sorted(bs)[:8]}): {items[0]['detail']}")
            merged["violations"][f"widespread:{kind}"] = items[:3]


# ----------------------------------------------------------------------------- replay / regions
def replay(case):
    es = [e for e in entries() if e.qname == case["qualified_name"] and e.is_complex == bool(case.get("is_complex"))]
    if not es:
        return []  # the registration no longer exists: nothing is bound under this name
    calls = [(case.get("call_kind") or "replayed", case["call"])] if case.get("call") else []
    verdicts, _ = check_entry(es[0], calls)
    seen, out = set(), []
    kind = case.get("kind")  # a stored case is about ONE mismatch kind; the run itself re-checks every other kind of this entry
    for b, d, _, _ in verdicts:
        if kind and b.rsplit(":", 1)[1] != kind:
            continue
        if (b, d) not in seen:
            seen.add((b, d))
            out.append((b, d))
    return out


class _Regions(dict):
    """Named regions of recorded findings: 'entry:<qualified name>' = every case about that registered name (real and complex)."""

    def get(self, name, default=None):
        if isinstance(name, str) and name.startswith("entry:"):
            q = name[len("entry:"):]
            return lambda case, _q=q: case.get("qualified_name") == _q
        return default


REGIONS = _Regions()
