"""C14 - results are deterministic and independent of what the process did before."""
from __future__ import annotations

import json
import os
import subprocess
import sys

from vf import modelgen, optcommon, scriptgen, wellformed
from vf.hyp import drive, st
from vf.props import C02
from vf.runner import Collector

ID = "C14"
EARLY_ATTRIBUTION = True  # region predicates are cheap scans of the stored case
LEVEL = "exploration"
RULE = ("Targets = grammar-generated script sources (incl. near-misses that fail) and generated models with planted rewrite-rule hosts, "
        "each with an operation (translate / optimize / optimize_ir / rewrite with the shared module-level rule objects / fold_constants / "
        "convert_version). For every batch: process A (PYTHONHASHSEED=0) runs the targets in order in a fresh interpreter; process B runs "
        "them in another order after drawn histories of other operations (incl. failing scripts, a pattern constructor that raises) under a "
        "drawn hash seed; a sample runs alone in a fresh process under a third hash seed. Oracle: equal target => equal SHA-256 of the "
        "serialised result (or equal exception type). In-process: to_model_proto()/to_function_proto() three times byte-identical with "
        "function_ir unchanged; mutating referenced globals after decoration leaves the protos unchanged. A difference is classified by "
        "re-running B's operation list under PYTHONHASHSEED=0 (history-dependent vs hash-seed-dependent). Non-trivial = the target ran after "
        ">=1 failing operation or >=1 operation using the same rule/pass objects, or under a different hash seed; distinct by target hash.")
ASSUMPTIONS = ["protobuf SerializeToString of an identically built message is byte-stable within one installation",
               "nondeterminism that needs threads or other machines is out of reach"]
FLOOR = {"quick": 150, "thorough": 3000}
TIMEOUT = {"quick": 1500, "thorough": 5 * 3600}
HOME = os.environ.get("VERIF_HOME") or os.path.dirname(os.path.dirname(os.path.dirname(os.path.abspath(__file__))))
K = 6


def plan(tier, seed, budget):
    n = int((64 if tier == "quick" else 4000) * budget)  # batches
    shards = 16 if tier == "quick" else 32
    specs = [{"n": max(1, n // shards)} for _ in range(shards)]
    # single-rule batches: every rule's hosts, many per batch, run forward in one process and backward in another
    from vf.rulehosts import planters

    np_ = len(planters())
    fs = 16 if tier == "quick" else 32
    per = 60 if tier == "quick" else 600  # hosts per planter
    specs += [{"n": max(1, int(per * budget)), "focus": list(range(i, np_, fs))} for i in range(fs) if i < np_]
    return specs


def run_worker(ops, hashseed):
    env = dict(os.environ)
    env["PYTHONHASHSEED"] = str(hashseed)
    p = subprocess.run([sys.executable, "-W", "ignore", "-m", "vf.c14_worker"], input=json.dumps(ops).encode(), capture_output=True,
                       env=env, cwd=HOME, timeout=600)
    for line in p.stdout.decode(errors="replace").splitlines():
        if line.startswith("C14RESULT"):
            return json.loads(line[len("C14RESULT"):])
    raise RuntimeError(f"worker failed: {p.stderr.decode(errors='replace')[-2000:]}")


def _cfg():
    from vf.rulehosts import planters

    return {"overridable": False, "zero_dims": False, "value_info": True, "max_nodes": 8, "extra_generators": planters(), "extra_weight": 4}


GLOBAL_SCRIPT = '''
@script()
def gscript(x: FLOAT[None]) -> FLOAT[None]:
    c = op.Constant(value_float=GCONST)
    y = op.Transpose(op.Unsqueeze(x, [0]), perm=PERM)
    return op.Squeeze(y, [0]) + c
'''


# a script whose MODEL needs opset imports that the function itself does not: it only calls gfun (domain lib.a), which calls hfun (lib.b), which
# uses standard operators; repeated to_function_proto()/to_model_proto() calls must not leak the model's imports into the function
CHAIN_SCRIPT = '''
from onnxscript.values import Opset
liba = Opset("lib.a", 1)
libb = Opset("lib.b", 2)

@script(libb)
def hfun(x: FLOAT[None]) -> FLOAT[None]:
    return op.Abs(x) + CCONST

@script(liba)
def gfun(x: FLOAT[None]) -> FLOAT[None]:
    return GBODY

@script(default_opset=op)
def ffun(x: FLOAT[None]) -> FLOAT[None]:
    return FBODY
'''


# module globals that are numpy arrays, used as an operand and as a tensor attribute; the array objects are modified in place afterwards
NP_GLOBAL_SCRIPT = '''
@script(default_opset=op)
def npscript(x: FLOAT[2]) -> FLOAT[2]:
    return NPBODY
'''

# the same identifier is a tensor parameter in the target and a script-time constant (attribute parameter / literal local / module global)
# in the script translated just before it: what the converter remembers about NAMES must not outlive a translation
TWIN_TARGET = '''
@script()
def twin_target(x: FLOAT[None], NAME: FLOAT[None]) -> FLOAT[None]:
    y = op.Mul(x, NAME)
    return BODY
'''
TWIN_HISTORY = {
    "attribute": '''
@script()
def twin_history(x: FLOAT[None], NAME: float) -> FLOAT[None]:
    return op.Mul(x, NAME)
''',
    "literal_local": '''
@script()
def twin_history(x: FLOAT[None]) -> FLOAT[None]:
    NAME = 2.0
    return op.Mul(x, NAME)
''',
    "bool_attribute": '''
@script()
def twin_history(x: FLOAT[None], NAME: bool) -> FLOAT[None]:
    return op.Where(NAME, x, op.Neg(x))
'''}
TWIN_NAMES = ["alpha", "scale", "n", "k", "flag", "w"]

CUSTOM_DOMAINS = ["com.microsoft", "aa.custom", "zz.custom", "ai.onnx.contrib", "org.pytorch.aten", "m"]


@st.composite
def targets(draw, focus=None):
    kinds = ["script", "script", "script_repeat", "script_nearmiss", "optimize", "optimize", "optimize_ir", "rewrite", "fold", "convert", "mutate_globals", "script_chain",
             "mutate_np_global", "rewrite_custom", "script_twin", "fold_obj"]
    if focus is not None:
        kinds = ["optimize", "optimize_ir", "rewrite", "rewrite"]
    kind = draw(st.sampled_from(kinds))
    if kind == "mutate_globals":
        return {"kind": "script_mutate_globals", "source": GLOBAL_SCRIPT, "name": "gscript", "opset": 18, "eager_input": [1.0, -2.0],
                "globals": {"GCONST": draw(st.sampled_from([0.5, 2.0])), "PERM": [0, 1]}, "mutate": {"GCONST": 7.0, "PERM": [1, 0]}, "fails": False}
    if kind == "mutate_np_global":
        body = draw(st.sampled_from(["x + WARR", "op.Mul(x, op.Constant(value=WARR))", "op.Add(x + WARR, op.Constant(value=VARR))", "op.Where(x > WARR, x, VARR)"]))
        return {"kind": "script_mutate_globals", "source": NP_GLOBAL_SCRIPT.replace("NPBODY", body), "name": "npscript", "opset": 18, "eager_input": [1.0, -2.0],
                "globals_np": {"WARR": [[draw(st.sampled_from([0.5, 2.0])), 3.0], "float32"], "VARR": [[-1.0, 4.0], "float32"]},
                "mutate_inplace": {"WARR": [draw(st.sampled_from([0, 1])), 100.0], "VARR": [0, -50.0]}, "fails": False, "np_global": True}
    if kind == "script_twin":
        nm = draw(st.sampled_from(TWIN_NAMES))
        how = draw(st.sampled_from(sorted(TWIN_HISTORY)))
        body = draw(st.sampled_from(["op.Add(y, NAME)", "y + NAME", "op.Where(y > NAME, y, NAME)", "op.Sub(NAME, y)"]))
        twin = {"kind": "script", "source": TWIN_HISTORY[how].replace("NAME", nm), "name": "twin_history", "opset": 18, "fails": False}
        return {"kind": "script", "source": TWIN_TARGET.replace("BODY", body).replace("NAME", nm), "name": "twin_target", "opset": 18, "fails": False,
                "pre_history": [twin], "twin": how}
    if kind == "rewrite_custom":
        k = draw(st.integers(2, 4))
        doms = draw(st.lists(st.sampled_from(CUSTOM_DOMAINS), min_size=k, max_size=k, unique=True))
        return {"kind": "rewrite_custom", "domains": [[d, draw(st.sampled_from([None, 1, 2, 3]))] for d in doms], "where": draw(st.sampled_from(["main", "if", "function"])),
                "fails": False}
    if kind == "script_chain":
        src = (CHAIN_SCRIPT.replace("CCONST", draw(st.sampled_from(["1.0", "0.5"]))).replace("GBODY", draw(st.sampled_from(["hfun(x)", "hfun(hfun(x))", "op.Neg(hfun(x))"])))
               .replace("FBODY", draw(st.sampled_from(["gfun(x)", "gfun(x)", "gfun(gfun(x))", "hfun(gfun(x))", "op.Relu(gfun(x))"]))))
        return {"kind": "script_repeat", "source": src, "name": "ffun", "opset": 18, "fails": False, "chain": True}
    if kind.startswith("script"):
        gp = draw(scriptgen.programs(max_stmts=5))
        if kind == "script_nearmiss":
            mk = draw(st.sampled_from([m for m in C02.MUTATIONS if m != "none"]))
            data = draw(st.data())
            p = C02.mutate(gp.prog, mk, data.draw)
            if p is not None:
                return {"kind": "script", "source": scriptgen.program_src(p), "name": p.name, "opset": p.opset, "fails": True}
            kind = "script"
        return {"kind": kind, "source": gp.source, "name": gp.prog.name, "opset": gp.prog.opset, "fails": False, "control_flow": bool(set(gp.features) & {"if", "for", "while"})}
    cfg = _cfg()
    if focus is not None:
        # a small host of ONE rule (all targets and histories of the batch share it: state kept by the rule object shows)
        cfg.update(pre=focus, max_nodes=2, min_nodes=0, max_inputs=1, symbolic=draw(st.booleans()), value_info=draw(st.booleans()))
    if kind == "convert":
        cfg = dict(cfg, opset=draw(st.sampled_from([18, 19, 20])))
    gm = draw(modelgen.models(cfg))
    op = {"kind": kind, "model": optcommon.model_to_json(gm.model), "fails": False, "planted": [f for f in gm.features if f.startswith("planted:")][:4]}
    if focus is not None:
        op["focus"] = getattr(focus, "__name__", "planter")
    if kind == "convert":
        op["target"] = draw(st.sampled_from([20, 21, 22, 23]))
    if kind == "fold_obj":
        op["si"] = draw(st.booleans())
        op["pre_history"] = [{"kind": "bad_fold", "si": op["si"]}]
    if kind == "fold":
        op["si"] = draw(st.booleans())
    return op


def key_of(op):
    import hashlib

    return hashlib.sha1(json.dumps({k: v for k, v in op.items() if k not in ("fails", "planted", "control_flow", "focus", "chain")}, sort_keys=True).encode()).hexdigest()[:16]


def compare_runs(tg, a, b):
    out = []
    for t, ra, rb in zip(tg, a, b):
        if ra.get("d") != rb.get("d"):
            out.append(t)
    return out


def run_shard(spec):
    col = Collector()

    def body(case):
        tg, hist, hs_b, hs_c, perm_seed = case
        # process A: fresh interpreter, hash seed 0, targets in order
        a = run_worker(tg, 0)
        # process B: histories interleaved, reversed order, another hash seed
        order = list(range(len(tg)))[::-1]
        ops_b, pos, reopset = [], {}, set()
        for j, i in enumerate(order):
            ops_b += hist[j % len(hist)] if hist else []
            if j % 3 == 0:
                ops_b.append({"kind": "bad_pattern"})
            if tg[i]["kind"] in ("optimize", "optimize_ir", "fold", "rewrite") and (perm_seed + i) % 4 != 3:
                # the target's own model re-labelled with other opsets goes through the same operation first (whatever that does, raising
                # included): state keyed by operator name instead of (operator, version) - kernel / schema caches - shows on the target
                for other in [(4, 11, 13, 14), (14, 12, 17, 4), (6, 21, 4, 14)][(perm_seed + i) % 3]:  # (below 5/6/7/15 several operators have no reference kernel)
                    ops_b.append(dict(tg[i], reopset=other))
                reopset.add(i)
            ops_b += tg[i].get("pre_history", [])  # history that the target itself asks for (by construction, not by chance)
            pos[i] = len(ops_b)
            ops_b.append(tg[i])
        rb = run_worker(ops_b, hs_b)
        b = [rb[pos[i]] for i in range(len(tg))]
        # process C: first target alone, third hash seed
        c = run_worker([tg[0]], hs_c) if hs_c is not None else a
        diffs = compare_runs(tg, a, b)
        rb0 = None
        for i, t in enumerate(tg):
            ra, rbb = a[i], b[i]
            nontrivial = True
            classes = ["target:" + t["kind"], "hashseedB:%s" % hs_b] + (["single_rule_batch"] if t.get("focus") else []) + (["history:same_model_other_opsets"] if i in reopset else [])
            if t.get("fails"):
                classes.append("failing_target")
            if t.get("chain"):
                classes.append("target:script_chain(model imports != function imports)")
            if t.get("twin"):
                classes.append("target:script_after_twin(same name was a script-time constant):" + t["twin"])
            if t["kind"] == "fold_obj":
                classes.append("target:shared_FoldConstantsPass_object_after_a_run_that_raised")
            if t.get("np_global"):
                classes.append("target:numpy_global_mutated_in_place")
            if t["kind"] == "rewrite_custom":
                classes.append(f"rewrite_custom:{len(t['domains'])}_new_domains:{t['where']}" + (":as_function" if t.get("as_function") else ""))
            if "eager_after_mutation_equal" in ra:
                classes.append("eager_called_before_and_after_mutation")
            if ra.get("d", "").startswith("EXC"):
                classes.append("result:exception")
            col.case(key_of(t), nontrivial, classes, sample={k: (v if k != "model" else "<model>") for k, v in t.items()} if i == 0 else None)
            for flag in ("repeat_equal", "function_ir_unchanged", "after_mutation_equal", "eager_after_mutation_equal"):
                for which, r in (("A", ra), ("B", rbb)):
                    if r.get(flag) is False:
                        col.violation(f"in_process:{flag}", f"{flag} is False in process {which}", {"target": t, "flag": flag}, size=len(json.dumps(t)))
            if ra.get("d") != rbb.get("d"):
                if rb0 is None:
                    rb0 = run_worker(ops_b, 0)
                same_under_seed0 = rb0[pos[i]].get("d") == ra.get("d")
                cause = "hash_seed" if same_under_seed0 else "history"
                col.violation(f"{cause}_dependent:{t['kind']}", f"digest A={ra.get('d')} B={rbb.get('d')} (B under hash seed {hs_b}; B's list under seed 0 -> {rb0[pos[i]].get('d')})",
                              {"target": t, "ops_b": ops_b if cause == "history" else [t], "index": pos[i] if cause == "history" else 0, "hashseed": hs_b, "cause": cause},
                              size=len(ops_b) if cause == "history" else 1)
        if c[0].get("d") != a[0].get("d"):
            col.violation(f"hash_seed_dependent:{tg[0]['kind']}", f"alone under seed {hs_c}: {c[0].get('d')} vs seed 0: {a[0].get('d')}",
                          {"target": tg[0], "ops_b": [tg[0]], "index": 0, "hashseed": hs_c, "cause": "hash_seed"}, size=1)
        col.extra["subprocesses"] = col.extra.get("subprocesses", 0) + 3 + (1 if rb0 is not None else 0)

    @st.composite
    def batch(draw):
        tg = [draw(targets()) for _ in range(K)]
        hist = [[draw(targets()) for _ in range(draw(st.integers(0, 2)))] for _ in range(draw(st.integers(1, 3)))]
        return (tg, hist, draw(st.sampled_from([1, 2, 3, 12345, 99])), draw(st.sampled_from([5, 7, 4242])), draw(st.integers(0, 10)))

    if spec.get("focus"):
        for j, idx in enumerate(spec["focus"]):  # every rule's planter gets its own batch (construction, not chance)
            _single_rule_batch(col, idx, spec["n"], spec["seed"] + 7919 * j)
        return col.result()
    drive(batch(), body, spec["n"], spec["seed"])
    return col.result()


def _single_rule_batch(col, idx, n, seed):
    """Many small hosts of ONE rule.  Fresh process: forward order.  This process: backward order, then forward order again.  State that
    a rule / pass object keeps from one match (or one model) to the next shows as a digest that differs from the fresh process."""
    from vf import c14_worker
    from vf.rulehosts import planters

    focus = planters()[idx]
    ops, seen = [], set()

    def collect(op):
        k = key_of(op)
        if k not in seen:
            seen.add(k)
            ops.append(op)

    drive(targets(focus), collect, n, seed)
    if not ops:
        return
    fresh = run_worker(ops, 0)
    col.extra["subprocesses"] = col.extra.get("subprocesses", 0) + 1

    def local(op):
        try:
            return c14_worker.do(op)
        except Exception as e:  # noqa: BLE001
            return {"d": "EXC:" + type(e).__name__}

    history = []
    for order in (list(range(len(ops)))[::-1], list(range(len(ops)))):
        for i in order:
            r = local(ops[i])
            t = ops[i]
            col.case(key_of(t) + ":h%d" % len(history), True, ["target:" + t["kind"], "single_rule_batch", "single_rule:" + t.get("focus", "?")],
                     sample={k: (v if k != "model" else "<model>") for k, v in t.items()} if not history else None)
            if r.get("d") != fresh[i].get("d"):
                # look for a short history that reproduces it in a subprocess
                hist = None
                for h in history[::-1][:40]:
                    rr = run_worker([h, t], 0)
                    col.extra["subprocesses"] += 1
                    if rr[1].get("d") != fresh[i].get("d"):
                        hist = [h]
                        break
                if hist is None:
                    rr = run_worker(history + [t], 0)
                    col.extra["subprocesses"] += 1
                    if rr[-1].get("d") == fresh[i].get("d"):
                        col.skip("in_process_difference_not_reproduced_in_subprocess")
                        history.append(t)
                        continue
                    hist = list(history)
                col.violation(f"history_dependent:{t['kind']}", f"[{t.get('focus', '')}] fresh process {fresh[i].get('d')}, after {len(hist)} earlier operation(s) of the same rule's hosts {r.get('d')}",
                              {"target": t, "ops_b": hist + [t], "index": len(hist), "hashseed": 0, "cause": "history"}, size=len(hist))
            history.append(t)


def replay(case):
    t = case["target"]
    a = run_worker([t], 0)[0]
    if "flag" in case:
        return [(f"in_process:{case['flag']}", "still false")] if a.get(case["flag"]) is False else []
    b = run_worker(case["ops_b"], case["hashseed"])[case["index"]]
    if a.get("d") != b.get("d"):
        return [(f"{case['cause']}_dependent:{t['kind']}", f"A={a.get('d')} B={b.get('d')}")]
    return []


def _region_if_loop_outputs(case):
    """script translation with >=2 If outputs / loop state variables: list(set) ordering depends on the hash seed."""
    t = case.get("target", {})
    return case.get("cause") == "hash_seed" and t.get("kind", "").startswith("script")


def _region_eager_reads_globals(case):
    """eager mode executes the Python body of the script, which reads module globals when it is CALLED (not when it was decorated)."""
    return case.get("flag") == "eager_after_mutation_equal" and case.get("target", {}).get("kind") == "script_mutate_globals"


REGIONS = {"script_set_iteration_order": _region_if_loop_outputs, "eager_reads_globals_at_call_time": _region_eager_reads_globals}
