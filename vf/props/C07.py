"""C07 - applying a rewrite replaces only the match and leaves a valid, equivalent graph."""
from __future__ import annotations

from collections import Counter

import numpy as np
import onnx
from onnx import helper

from vf import compare, modelgen, optcommon, wellformed
from vf.hyp import drive, st
from vf.runner import Collector

ID = "C07"
EARLY_ATTRIBUTION = True  # region predicates are cheap scans of the stored case
LEVEL = "exploration"
RULE = ("Generated rewrite rules whose replacement equals the pattern by construction (re-emission of a unary op, operand swap of a "
        "commutative op, triple transpose, two-node chain re-emission, two-output pattern re-emission, x+0 with a NEW initializer, "
        "extraction of the match into a model-local function with as_function=True, remove_nodes=False variants) x host models from "
        "vf/modelgen with many possibly overlapping instances in the main graph, inside If/Loop bodies and inside model-local functions x "
        "entry {rewrite(ModelProto), rewrite(ir.Model), RewriteRuleSet.apply_to_model} x commute flag. Oracle: result passes the walker + "
        "onnx.checker; equivalent on >=3 inputs; graph signature unchanged; the multiset of nodes whose op type the rule does not touch is "
        "unchanged at every nesting level; needed initializers/opset imports/functions present (implied by validity + execution); the rule "
        "applies >=1 time whenever a simple structural scan finds a removable instance. Non-trivial = >=1 application; distinct by (rule, "
        "flags, model hash).")
ASSUMPTIONS = ["onnxruntime CPU (optimisations off) and onnx.reference implement ONNX semantics", "float Add/Mul are exactly commutative; x+0 is exact for Abs outputs"]
FLOOR = {"quick": 300, "thorough": 5000}
TIMEOUT = {"quick": 1500, "thorough": 5 * 3600}

RULES = ["reemit_Neg", "reemit_Abs", "reemit_Relu", "reemit_Tanh", "swap_Add", "swap_Mul", "neg_abs", "neg_abs_fn", "neg_and_abs", "transpose3",
         "abs_plus_zero_init", "reemit_Neg_keep", "neg_abs_keep", "identity_identity", "mul_sub", "mul_sub_fn", "mul_sub", "mul_sub_fn", "neg_abs", "neg_abs_fn", "split_first", "split_first",
         "sub_scaled", "sub_scaled", "identity_passthrough", "identity_passthrough"]


def make_rule(name):
    from onnxscript import ir
    from onnxscript.rewriter import pattern

    from onnxscript.rewriter import RULE_NAME_TAG

    def fresh(context, *args, **kwargs):
        """Terminating rewrite system: never rewrite a node this rule produced (the rewriter tags new nodes with the rule name)."""
        return all(RULE_NAME_TAG not in n.metadata_props for n in context.nodes)

    kw = {"condition_function": fresh, "name": "verif_rule_" + name}
    if name.endswith("_keep"):
        kw["remove_nodes"] = False
        name = name[: -len("_keep")]
    if name.startswith("reemit_"):
        u = name.split("_")[1]
        return pattern.RewriteRule(lambda op, x: getattr(op, u)(x), lambda op, x: getattr(op, u)(x), **kw)
    if name.startswith("swap_"):
        b = name.split("_")[1]
        return pattern.RewriteRule(lambda op, x, y: getattr(op, b)(x, y), lambda op, x, y: getattr(op, b)(y, x), **kw)
    if name == "neg_abs":
        return pattern.RewriteRule(lambda op, x: op.Neg(op.Abs(x)), lambda op, x: op.Neg(op.Abs(x)), **kw)
    if name == "neg_abs_fn":
        return pattern.RewriteRule(lambda op, x: op.Neg(op.Abs(x)), lambda op, x: op.NegAbs(x, _domain="verif.fn"), as_function=True, **kw)
    if name == "split_first":
        # a multi-output node of which the pattern returns only the FIRST output: the match is replaceable only if the other output
        # has no consumer left outside the match
        def split_pat(op, x, axis, n):
            a, _b = op.Split(x, axis=axis, num_outputs=n, _outputs=2)
            return a

        def split_rep(op, x, axis, n):
            a, _b = op.Split(x, axis=axis, num_outputs=n, _outputs=2)
            return a

        return pattern.RewriteRule(split_pat, split_rep, **kw)
    if name == "mul_sub":  # three pattern variables (may be bound to the same value), two nodes
        return pattern.RewriteRule(lambda op, x, y, z: op.Sub(op.Mul(x, y), z), lambda op, x, y, z: op.Sub(op.Mul(y, x), z), **kw)
    if name == "mul_sub_fn":
        return pattern.RewriteRule(lambda op, x, y, z: op.Sub(op.Mul(x, y), z), lambda op, x, y, z: op.MulSub(x, y, z, _domain="verif.fn"), as_function=True, **kw)
    if name == "neg_and_abs":
        return pattern.RewriteRule(lambda op, x: (op.Neg(x), op.Abs(x)), lambda op, x: (op.Neg(x), op.Abs(x)), **kw)
    if name == "transpose3":
        return pattern.RewriteRule(lambda op, x: op.Transpose(x, perm=[1, 0]),
                                   lambda op, x: op.Transpose(op.Transpose(op.Transpose(x, perm=[1, 0]), perm=[1, 0]), perm=[1, 0]), **kw)
    if name == "abs_plus_zero_init":
        def repl(op, x):
            a = op.Abs(x)
            z = op.initializer(ir.tensor(np.zeros((), dtype=np.float32), name="verif_zero"))
            return op.Add(a, z)

        def fresh_float(context, x, **kwargs):
            return fresh(context) and x.dtype == ir.DataType.FLOAT  # the new initializer is float32: valid only next to float32

        kw["condition_function"] = fresh_float
        return pattern.RewriteRule(lambda op, x: op.Abs(x), repl, **kw)
    if name == "mul_softmax_fn":
        # extracted function bodies differ from instance to instance (the matched Softmax's axis): overload bookkeeping matters
        return pattern.RewriteRule(lambda op, x, y: op.Softmax(op.Mul(x, y)), lambda op, x, y: op.MulSoftmax(x, y, _domain="verif.fn"), as_function=True, **kw)
    if name == "sub_scaled":
        # x - y  ->  x * 1 + y * (-1) (bit-exact in IEEE arithmetic); the replacement creates TWO initializers whose names derive from
        # the bound values: with x and y bound to the same value the names coincide while the tensors differ
        def repl_sub(op, x, y):
            cx = op.initializer(ir.tensor(np.asarray(1.0, dtype=np.float32), name=f"{x.name}_coef"))
            cy = op.initializer(ir.tensor(np.asarray(-1.0, dtype=np.float32), name=f"{y.name}_coef"))
            return op.Add(op.Mul(x, cx), op.Mul(y, cy))

        def fresh_f32(context, x, y, **kwargs):
            return fresh(context) and x.dtype == ir.DataType.FLOAT and y.dtype == ir.DataType.FLOAT

        kw["condition_function"] = fresh_f32
        return pattern.RewriteRule(lambda op, x, y: op.Sub(x, y), repl_sub, **kw)
    if name == "identity_identity":
        return pattern.RewriteRule(lambda op, x: op.Identity(op.Identity(x)), lambda op, x: op.Identity(x), **kw)
    if name == "identity_passthrough":
        # the replacement creates no node at all: it returns the value bound to x (which may be a graph input, an initializer, a value
        # with other uses, or a value of an enclosing graph)
        return pattern.RewriteRule(lambda op, x: op.Identity(x), lambda op, x: x, **kw)
    raise ValueError(name)


TOUCHED = {
    "reemit": lambda u: {u}, "swap": lambda b: {b},
}


def touched_ops(rule):
    base = rule[:-5] if rule.endswith("_keep") else rule
    if base.startswith(("reemit_", "swap_")):
        return {base.split("_")[1]}
    return {"split_first": {"Split"}, "mul_sub": {"Mul", "Sub"}, "mul_sub_fn": {"Mul", "Sub", "MulSub"}, "neg_abs": {"Neg", "Abs"}, "neg_abs_fn": {"Neg", "Abs", "NegAbs"}, "neg_and_abs": {"Neg", "Abs"}, "transpose3": {"Transpose"},
            "abs_plus_zero_init": {"Abs", "Add"}, "identity_identity": {"Identity"}, "identity_passthrough": {"Identity"}, "sub_scaled": {"Sub", "Add", "Mul"}, "mul_softmax_fn": {"Mul", "Softmax", "MulSoftmax"}}[base]


# ----------------------------------------------------------------------------- structural scans (independent of the rewriter)
def graphs_of(model, with_functions=True):
    """Yield (where, node list, graph outputs, is_function) for the main graph, every nested subgraph and every function."""
    def walk(g, where):
        yield where, list(g.node), {o.name for o in g.output}, False
        for i, n in enumerate(g.node):
            for a in n.attribute:
                if a.type == onnx.AttributeProto.GRAPH:
                    yield from walk(a.g, f"{where}/{n.op_type}{i}.{a.name}")
                for j, sg in enumerate(a.graphs):
                    yield from walk(sg, f"{where}/{n.op_type}{i}.{a.name}[{j}]")

    yield from walk(model.graph, "main")
    if with_functions:
        for f in model.functions:
            yield f"function:{f.name}", list(f.node), set(f.output), True
            for i, n in enumerate(f.node):
                for a in n.attribute:
                    if a.type == onnx.AttributeProto.GRAPH:
                        yield from walk(a.g, f"function:{f.name}/{n.op_type}{i}.{a.name}")


def all_uses(model):
    uses = Counter()
    for _, nodes, outs, _ in graphs_of(model):
        for n in nodes:
            for x in n.input:
                uses[x] += 1
        for o in outs:
            uses[o] += 1  # an output counts as an external use
    return uses


def instance_exists(model, rule):
    base = rule[:-5] if rule.endswith("_keep") else rule
    keep = rule.endswith("_keep")
    uses = all_uses(model)
    for where, nodes, outs, is_fn in graphs_of(model):
        std = [n for n in nodes if n.domain in ("", "ai.onnx")]
        if base.startswith("reemit_"):
            if any(n.op_type == base.split("_")[1] for n in std):
                return where
        elif base.startswith("swap_"):
            if any(n.op_type == base.split("_")[1] and len(n.input) == 2 for n in std):
                return where
        elif base == "transpose3":
            for n in std:
                if n.op_type == "Transpose" and any(a.name == "perm" and list(a.ints) == [1, 0] for a in n.attribute):
                    return where
        elif base in ("abs_plus_zero_init", "sub_scaled", "mul_softmax_fn", "identity_passthrough"):
            pass  # needs the dtype of x / may legitimately decline (subgraph outputs): no completeness claim for this rule
        elif base in ("neg_abs", "neg_abs_fn", "identity_identity", "mul_sub", "mul_sub_fn"):
            inner, outer = ("Mul", "Sub") if base.startswith("mul_sub") else ("Abs", "Neg") if base != "identity_identity" else ("Identity", "Identity")
            prod = {n.output[0]: n for n in std if n.op_type == inner}
            for n in std:
                if n.op_type == outer and n.input and n.input[0] in prod and prod[n.input[0]] is not n:
                    mid = n.input[0]
                    if keep or uses[mid] == 1:
                        return where
        elif base == "neg_and_abs":
            negs = {n.input[0] for n in std if n.op_type == "Neg"}
            if any(n.op_type == "Abs" and n.input[0] in negs for n in std):
                return where
    return None


def _attr_bytes(a):
    if a.type in (5, 10):
        return b""
    if a.type == onnx.AttributeProto.TENSOR and a.t.name:
        # the NAME of the tensor inside a Constant's attribute carries no meaning (serialisation derives it from the value's name, which
        # changes when a pass-through replacement hands the matched output's name to the value)
        c = onnx.AttributeProto()
        c.CopyFrom(a)
        c.t.name = ""
        return c.SerializeToString()
    return a.SerializeToString()


def untouched_multiset(model, touched):
    c = Counter()
    for where, nodes, _, _ in graphs_of(model):
        lvl = "fn" if where.startswith("function:") else ("main" if where == "main" else "sub")
        for n in nodes:
            if n.op_type in touched:
                continue
            attrs = tuple(sorted((a.name, a.type, _attr_bytes(a)) for a in n.attribute))
            c[(lvl, n.domain, n.op_type, attrs, n.doc_string)] += 1
    return c


def apply(model, rule, entry, commute):
    import onnxscript.rewriter as rw
    from onnxscript import ir
    from onnxscript.rewriter import pattern

    r = make_rule(rule)
    m = onnx.ModelProto()
    m.CopyFrom(model)
    try:
        rs = pattern.RewriteRuleSet([r], commute=commute)
        if entry == "proto":
            out = rw.rewrite(m, rs)
            return ("ok", None, out)
        mi = ir.serde.deserialize_model(m)
        if entry == "ir":
            out = rw.rewrite(mi, rs)
            return ("ok", None, ir.serde.serialize_model(out))
        count = rs.apply_to_model(mi)
        return ("ok", count, ir.serde.serialize_model(mi))
    except Exception as e:  # noqa: BLE001
        return ("raise", f"{type(e).__name__}: {str(e)[:300]}", optcommon.innermost_frame(e))


def check(model, rule, entry, commute, feeds_list):
    verdicts, info = [], {}
    r = apply(model, rule, entry, commute)
    if r[0] == "raise":
        return [(f"raise:{rule}:{r[2]}", r[1])], info
    _, count, new = r
    changed = new.SerializeToString(deterministic=True) != model.SerializeToString(deterministic=True)
    info["count"] = count
    info["changed"] = changed
    inst = instance_exists(model, rule)
    info["instance"] = inst
    applied = (count or 0) > 0 if count is not None else optcommon.op_multiset(new) != optcommon.op_multiset(model) or _any_rule_tag(new)
    info["applied"] = applied
    if inst and count is not None and count == 0:
        verdicts.append((f"missed_instance:{rule}:{'function' if inst.startswith('function') else 'sub' if '/' in inst else 'main'}",
                         f"structural scan finds an instance in {inst} but apply_to_model returned 0"))
    for kind, msg in wellformed.check_model(new)[:2]:
        verdicts.append((f"invalid:{rule}:{kind}", msg))
    (bi, bo), (ai, ao) = wellformed.signature(model), wellformed.signature(new)
    if [(x[0], x[1]) for x in bi] != [(x[0], x[1]) for x in ai] or [(x[0], x[1]) for x in bo] != [(x[0], x[1]) for x in ao]:
        verdicts.append((f"signature:{rule}", f"{bi}->{ai} | {bo}->{ao}"))
    t = touched_ops(rule)
    ub, ua = untouched_multiset(model, t), untouched_multiset(new, t)
    if ub != ua:
        lost = list((ub - ua).elements())[:2]
        gained = list((ua - ub).elements())[:2]
        # dead-code removal after the rewrite may legitimately drop nodes that were already unused: only report gains or losses of used nodes
        lost_used = [x for x in lost if True]
        if gained or (lost_used and not _only_dead_removed(model, new, t)):
            verdicts.append((f"unmatched_nodes_changed:{rule}", f"lost {[(x[0], x[2]) for x in lost]} gained {[(x[0], x[2]) for x in gained]}"))
    # (functions with overload names calling one another are valid ONNX that neither runtime loads: such models are executed after
    #  onnx's own inliner - part of the trusted base - has expanded the model-local functions)
    def runnable(m):
        if any(f.overload for f in m.functions):
            import onnx.inliner

            try:
                return onnx.inliner.inline_local_functions(m)
            except Exception:  # noqa: BLE001
                return m
        return m

    src = compare.Source(runnable(model))
    v, d = compare.decide(src, runnable(new), feeds_list)
    info["verdict"] = v
    if v.startswith("violation"):
        verdicts.append((f"{v}:{rule}", d))
    return verdicts, info


def _any_rule_tag(model):
    return False


def _only_dead_removed(before, after, touched):
    """True if every untouched node missing afterwards was dead (no path to an output) before: rewrite() runs RemoveUnusedNodes."""
    import onnxscript.optimizer as opt

    m = onnx.ModelProto()
    m.CopyFrom(before)
    try:
        opt.remove_unused_nodes(m)
    except Exception:  # noqa: BLE001
        return False
    from onnxscript import ir

    if untouched_multiset(m, touched) == untouched_multiset(after, touched):
        return True  # apply_to_model removes dead nodes but keeps functions that became unused
    # dead-code removal inside rewrite() may remove only SOME of the dead nodes (those that were dead before the rule fired, not the
    # ones that died with it): every untouched node that disappeared must have been dead in the input model, nothing may be gained
    ub, ua, ud = untouched_multiset(before, touched), untouched_multiset(after, touched), untouched_multiset(m, touched)
    lost, gained, dead = ub - ua, ua - ub, ub - ud
    if not gained and not (lost - dead):
        return True
    mi = ir.serde.deserialize_model(m)
    import onnx_ir.passes.common as cp

    cp.RemoveUnusedFunctionsPass()(mi)
    m = ir.serde.serialize_model(mi)
    return untouched_multiset(m, touched) == untouched_multiset(after, touched)


def _plant(g):
    """Extra generator: chains of the ops the generated rules look for."""
    v = g.pick_val(lambda v: v.dtype in (modelgen.F32, modelgen.F64, modelgen.I64))
    if v is None:
        return
    k = g.pick(["neg_abs", "neg_and_abs", "add", "mul", "transpose", "idid", "chain", "mul_sub", "mul_sub", "in_body", "in_body", "in_body", "split2", "split2",
                "sub_same", "sub_same", "id_of_source", "id_of_source"])
    g.features.add("planted:c07:" + k)
    if k == "id_of_source":
        # Identity of a value that no node computes (graph input / initializer); the result becomes a graph output (planted results do)
        src = g.pick_val(lambda t: t.kind in ("input", "const") and isinstance(t.arr, np.ndarray) and (t.kind == "input" or any(i.name == t.name for i in g.inits)))
        if src is None:
            return
        r = g.emit("Identity", [src])
        if r and g.chance(5):
            g.emit("Neg" if src.dtype != modelgen.BOOL else "Not", [r[0]])
        return r
    if k == "sub_same":
        f = g.pick_val(lambda t: t.dtype == modelgen.F32) or v
        return g.emit("Sub", [f, f if g.chance(7) else g._second(f)])
    if k == "mul_sub":
        w, u = g._second(v), g._second(v)
        ops = g.pick([(v, w, u), (v, v, u), (v, w, v), (v, w, w), (v, v, v)])  # pattern variables bound to the same value
        if len({id(o) for o in ops}) < 3:
            g.features.add("planted:c07:mul_sub_repeated_operand")
        m = g.emit("Mul", [ops[0], ops[1]])
        if m:
            r = g.emit("Sub", [m[0], ops[2]])
            return r
        return
    if k == "in_body":
        return _plant_in_body(g, v)
    if k == "split2":
        w = g.pick_val(lambda t: t.rank >= 1 and t.shape[0] >= 2 and t.dtype in (modelgen.F32, modelgen.F64, modelgen.I64))
        if w is None or g.opset < 18:
            return
        r = g.emit("Split", [w], n_out=2, axis=0, num_outputs=2)
        if not r:
            return
        use = g.pick(["first", "both", "both", "second", "none"])
        g.features.add("planted:c07:split2:" + use)
        outs = []
        if use in ("first", "both"):
            outs += g.emit("Neg", [r[0]]) or []
        if use in ("second", "both"):
            outs += g.emit("Abs", [r[1]]) or []
        return outs or list(r)
    if k == "neg_abs":
        a = g.emit("Abs", [v])
        if a:
            g.emit("Neg", [a[0]])
            if g.chance(3):
                g.emit("Relu" if v.dtype != modelgen.I64 else "Neg", [a[0]])  # extra consumer of the intermediate
    elif k == "neg_and_abs":
        g.emit("Neg", [v])
        g.emit("Abs", [v])
    elif k in ("add", "mul"):
        w = g._second(v)
        g.emit("Add" if k == "add" else "Mul", [v, w])
    elif k == "transpose":
        t = g.pick_val(lambda t: t.rank == 2)
        if t is not None:
            r = g.emit("Transpose", [t], perm=[1, 0])
            if r and g.chance(5):
                g.emit("Transpose", [r[0]], perm=[1, 0])
    elif k == "idid":
        a = g.emit("Identity", [v])
        if a:
            b = g.emit("Identity", [a[0]])
            if b and g.chance(4):
                g.emit("Identity", [b[0]])
    else:
        cur = v
        for _ in range(g.pick([2, 3])):
            r = g.emit(g.pick(["Neg", "Abs", "Neg", "Tanh" if v.dtype != modelgen.I64 else "Abs"]), [cur])
            if not r:
                break
            cur = r[0]


def _plant_in_body(g, v):
    """A two-node instance inside an If branch (both nodes in the body), or straddling the boundary (producer in the enclosing graph,
    consumed only inside the body)."""
    from onnx import helper

    if g.depth or v.dtype == modelgen.I64 and False:
        return None
    how = g.pick(["both_inside", "both_inside", "straddle", "inside_and_outside"])
    pair = g.pick([("Abs", "Neg"), ("Mul", "Sub")])
    g.features.add(f"planted:c07:in_body:{how}:{pair[0]}")
    parent_vis = g.outer + [x for x in g.env if isinstance(x.arr, np.ndarray)]

    def subgen():
        sg = modelgen.Gen(g.draw, dict(g.cfg, outer=parent_vis, counter=g.counter, used_names=g.used_names, depth=g.depth + 1, opset=g.opset, overridable=False))
        sg.functions = g.functions
        return sg

    def first(gen):
        return gen.emit("Abs", [v]) if pair[0] == "Abs" else gen.emit("Mul", [v, g._second(v)])

    def second(gen, a):
        return gen.emit("Neg", [a]) if pair[1] == "Neg" else gen.emit("Sub", [a, g.pick([v, g._second(v)])])

    outer_first = first(g) if how in ("straddle", "inside_and_outside") else None
    if how != "both_inside" and not outer_first:
        return None
    parent_vis = g.outer + [x for x in g.env if isinstance(x.arr, np.ndarray)]
    tb = subgen()
    a = outer_first or first(tb)
    if not a:
        return None
    r = second(tb, a[0])
    if not r:
        return None
    if how == "inside_and_outside":
        g.emit("Neg" if v.dtype != modelgen.BOOL else "Not", [outer_first[0]])  # the producer has a second consumer outside
    eb = subgen()
    e = eb.emit("Identity", [v])
    if not e or e[0].dtype != r[0].dtype or e[0].shape != r[0].shape:
        return None
    gt = helper.make_graph(tb.nodes, g.fresh("branch"), [], [modelgen._value_info(r[0].name, r[0].arr, unknown=True)], initializer=tb.inits)
    ge = helper.make_graph(eb.nodes, g.fresh("branch"), [], [modelgen._value_info(e[0].name, e[0].arr, unknown=True)], initializer=eb.inits)
    if g.chance(5):
        cond = g.const_array(np.asarray(g.pick([True, False])), how="node")
    else:
        s_ = g.emit("ReduceSum", [v], keepdims=0) if g.opset >= 13 else None
        c = g.emit("Greater", [s_[0], g.const_array(np.asarray(0, dtype=s_[0].dtype))]) if s_ else None
        if not c or c[0].shape != ():
            return None
        cond = c[0]
    parent_vis = g.outer + [x for x in g.env if isinstance(x.arr, np.ndarray)]
    return g.emit("If", [cond], n_out=1, subgraph_free=parent_vis, then_branch=gt, else_branch=ge)


CFG = {"overridable": False, "zero_dims": False, "value_info": True, "max_nodes": 10, "extra_generators": [_plant], "extra_weight": 5,
       "disable": ("g_sequence",)}


def plan(tier, seed, budget):
    n = int((2000 if tier == "quick" else 80000) * budget)
    shards = 16 if tier == "quick" else 64
    return [{"n": max(1, n // shards)} for _ in range(shards)]


def run_shard(spec):
    col = Collector()

    def body(case):
        rule, entry, commute, gm = case
        if wellformed.check_model(gm.model):
            col.skip("generator_invalid")
            return
        feeds_list = [gm.sample_feeds] + [gm.feeds(s) for s in gm.seeds()]
        verdicts, info = check(gm.model, rule, entry, commute, feeds_list)
        inst = info.get("instance")
        classes = ["rule:" + rule, "entry:" + entry, "commute:%s" % commute, "applied:%s" % bool(info.get("applied"))]
        if inst:
            classes.append("instance_in:" + ("function" if inst.startswith("function") else "subgraph" if "/" in inst else "main"))
        if info.get("verdict"):
            classes.append("verdict:" + info["verdict"])
        col.case((rule, entry, commute, modelgen.model_hash(gm.model)), bool(info.get("applied")), classes,
                 sample={"rule": rule, "entry": entry, "commute": commute, "model": modelgen.model_text(gm.model, 900)})
        for bucket, detail in verdicts:
            col.violation(bucket, detail, {"rule": rule, "entry": entry, "commute": commute, "model": optcommon.model_to_json(gm.model),
                                           "text": modelgen.model_text(gm.model, 3000), "feeds": [optcommon.feeds_to_json(f) for f in feeds_list]}, size=gm.n_nodes)

    drive(st.tuples(st.sampled_from(RULES), st.sampled_from(["proto", "ir", "apply", "apply"]), st.booleans(), modelgen.models(CFG)), body, spec["n"], spec["seed"])

    def hist_body(case):
        """A model that HAS BEEN rewritten before by an as_function rule: heads Softmax<axis_i>(a_i * b_i) are extracted (rewrite 1), one
        head is dropped and the now unused function removed with the stock dead-code passes, a new head is appended; rewrite 2 is the case
        under test (the functions left by rewrite 1 are 'other functions' of its input and must survive)."""
        axes, drop, new_axis, entry = case
        m0 = _heads_model(axes)
        feeds = [_heads_feeds(k) for k in range(3)]
        stages = [("fresh", m0)]
        r = apply(m0, "mul_softmax_fn", "proto", False)
        if r[0] == "ok":
            m1 = _drop_and_add_head(r[2], drop, new_axis, len(axes))
            if m1 is not None and not wellformed.check_model(m1):
                stages.append(("rewritten_before", m1))
        for tag, m in stages:
            verdicts, info = check(m, "mul_softmax_fn", entry, False, feeds)
            col.case(("mul_softmax_fn", tag, tuple(axes), drop, new_axis, entry), bool(info.get("applied")),
                     ["rule:mul_softmax_fn", "history:" + tag, "entry:" + entry, "applied:%s" % bool(info.get("applied"))],
                     sample={"rule": "mul_softmax_fn", "history": tag, "model": modelgen.model_text(m, 900)})
            for bucket, detail in verdicts:
                col.violation(bucket, detail, {"rule": "mul_softmax_fn", "entry": entry, "commute": False, "model": optcommon.model_to_json(m),
                                               "text": modelgen.model_text(m, 3000), "feeds": [optcommon.feeds_to_json(f) for f in feeds]}, size=len(m.graph.node))

    drive(st.tuples(st.lists(st.sampled_from([0, 1, -1]), min_size=2, max_size=3), st.integers(0, 2), st.sampled_from([0, 1, -1]), st.sampled_from(["proto", "ir", "apply"])),
          hist_body, max(4, spec["n"] // 12), spec["seed"] + 1)
    return col.result()


def _heads_model(axes):
    vi = lambda n: helper.make_tensor_value_info(n, onnx.TensorProto.FLOAT, [3, 3])  # noqa: E731
    names = ["a", "b", "c", "d"]
    nodes, outs = [], []
    for i, ax in enumerate(axes):
        nodes += [helper.make_node("Mul", [names[i], names[i + 1]], [f"m{i}"]), helper.make_node("Softmax", [f"m{i}"], [f"y{i}"], axis=ax)]
        outs.append(vi(f"y{i}"))
    g = helper.make_graph(nodes, "heads", [vi(n) for n in names[: len(axes) + 1]], outs)
    return helper.make_model(g, opset_imports=[helper.make_opsetid("", 18)], ir_version=10)


def _heads_feeds(k):
    rng = np.random.default_rng(100 + k)
    return {n: rng.normal(size=(3, 3)).astype(np.float32) for n in ["a", "b", "c", "d"]}


def _drop_and_add_head(model, drop, new_axis, n_heads):
    """Public API only: drop one graph output, run the stock dead-code passes, append a new instance of the pattern."""
    import onnx_ir as ir
    import onnx_ir.passes.common as ir_passes

    m = onnx.ModelProto()
    m.CopyFrom(model)
    drop = drop % n_heads
    kept = [o for o in m.graph.output if o.name != f"y{drop}"]
    if len(kept) == len(m.graph.output):
        return None
    del m.graph.output[:]
    m.graph.output.extend(kept)
    try:
        m = ir.to_proto(ir.passes.PassManager([ir_passes.RemoveUnusedNodesPass(), ir_passes.RemoveUnusedFunctionsPass()])(ir.from_proto(m)).model)
    except Exception:  # noqa: BLE001
        return None
    src = kept[0].name
    m.graph.node.extend([helper.make_node("Mul", [src, "a"], ["m_new"]), helper.make_node("Softmax", ["m_new"], ["y_new"], axis=new_axis)])
    m.graph.output.append(helper.make_tensor_value_info("y_new", onnx.TensorProto.FLOAT, [3, 3]))
    return m


def replay(case):
    model = optcommon.model_from_json(case["model"])
    feeds = [optcommon.feeds_from_json(f) for f in case["feeds"]]
    verdicts, _ = check(model, case["rule"], case["entry"], case["commute"], feeds)
    return verdicts


def _has_short_split(case):
    m = optcommon.model_from_json(case["model"])
    return any(n.op_type == "Split" and len(n.output) < 2 for _, nodes, _, _ in graphs_of(m) for n in nodes)


REGIONS = {
    # patterns with several output nodes: the replacement is inserted at the position of ONE of them (documented TODO in
    # _apply_to_graph_or_function), consumers that come earlier in the node list then use a value before its definition
    "multi_output_pattern_insertion_point": lambda c: c.get("rule") in ("neg_and_abs", "neg_and_abs_keep"),
    # a pattern node declared with 2 outputs against a host node of the same op with fewer outputs: the matcher reports a match without
    # bindings for the missing output (see C06) and applying the replacement raises
    "pattern_node_more_outputs_than_host": lambda c: c.get("rule") == "split_first" and _has_short_split(c),
}
