"""patspec - reference ("spec") pattern matcher for the onnxscript rewriter + pattern/graph ASTs, compilers, enumerators.

Everything here works on two tiny JSON-able ASTs (no onnxscript / onnx_ir objects inside the spec):

Pattern AST  {"vars": [param names], "nodes": [PNode], "ors": [POr], "outs": [PV]}
    PNode = {"op", "dom", "ins": [PV], "attrs": [[name, PA]], "nout", "onames": [str|None], "aoi": None|bool, "aoa": None|bool}
    PV    = ["v", name, can_match_none] | ["any"] | ["none"] | ["c", value, rel_tol, abs_tol] | ["o", node, index] | ["or", k]
    PA    = ["ac", value] | ["av", name, can_match_none]
    POr   = {"alts": [PV], "name": str|None, "tag": str|None, "tagvals": list|None}
  Nodes are listed in construction order (what OpsetPatternBuilder(record=True) records); an OR value is created after
  the nodes its alternatives refer to.  A variable whose name is in "vars" is a parameter of the pattern function
  (GraphPattern.inputs); other variables are created locally with pattern.Var(name, can_match_none=...).

Host AST  {"nin": k, "inits": [T], "nodes": [HNode], "outs": [R]}
    HNode = {"op", "dom", "ins": [R|None], "attrs": [[name, kind, value]], "nout"}     kind in i f s is fs t(ensor)
    R     = ["i", k] graph input | ["c", k] initializer | ["n", node, index]
    T     = {"dt": "f32"|"f64"|"i64", "shape": [...], "vals": [flat python numbers]}

The documented meaning of a pattern (docs/tutorial/rewriter/*.md, docstrings of _pattern_ir/_matcher), as implemented by
`solve`:  an *instance* of pattern P ending at host node r is a choice of one alternative per OR value and a map phi from
the pattern nodes that are reachable under that choice to host nodes, with phi(first output node) = r, such that
  * phi(n) has the operator name and domain of n; every attribute pattern of n holds on phi(n) (attribute constant: equal
    value, list order matters; attribute variable: binds the attribute, or None when absent and can_match_none); with
    _allow_other_attributes=False phi(n) has no further attributes;
  * inputs: if phi(n) has more inputs than n then n must say _allow_other_inputs=True and the extra inputs are ignored;
    otherwise omitted trailing inputs of phi(n) count as None.  Position-wise: None matches only an absent input; a
    variable matches any present value, and an absent one only with can_match_none; ANY_VALUE matches anything; a numeric
    constant matches a value with a known constant tensor of rank 0 (list constant: rank 1 of that length) whose elements
    are within max(rel_tol*max(|a|,|b|), abs_tol); a node output o_i(m) matches exactly output i of phi(m); an OR value
    matches iff its chosen alternative does (and binds its name / tag variable);
  * a name (value variable, attribute variable, named output, OR name, tag variable) is bound to ONE thing;
  * phi(n) has at least as many outputs as n declares;
  * with remove_nodes: every output of every node in image(phi) that is not a pattern output value is neither a graph
    output nor consumed by a node outside image(phi).
Result of an instance: bindings (all bound names; unbound pattern parameters -> None), node set image(phi), output values.
"""
from __future__ import annotations

import itertools
import math

import numpy as np

DEFAULT_REL, DEFAULT_ABS = 1e-5, 1e-8
COMMUTATIVE = {("", "Add"), ("", "Mul")}  # docs/commute.md: "commutativity of addition and multiplication"


# ============================================================================================= helpers on the pattern AST
def t(x):
    """list -> tuple, recursively (hashable canonical form)."""
    if isinstance(x, (list, tuple)):
        return tuple(t(i) for i in x)
    if isinstance(x, dict):
        return tuple(sorted((k, t(v)) for k, v in x.items()))
    return x


def pnode(op, ins, dom="", attrs=(), nout=1, onames=None, aoi=None, aoa=None):
    return {"op": op, "dom": dom, "ins": [list(i) for i in ins], "attrs": [[a, list(b)] for a, b in attrs], "nout": nout,
            "onames": list(onames) if onames is not None else [None] * nout, "aoi": aoi, "aoa": aoa}


def hnode(op, ins, dom="", attrs=(), nout=1):
    return {"op": op, "dom": dom, "ins": [list(i) if i is not None else None for i in ins],
            "attrs": [list(a) for a in attrs], "nout": nout}


def or_is_dispatch(pat, k):
    """Mirror of the documented OrValue construction: alternatives that are all outputs of nodes with pairwise distinct
    (domain, op) can be dispatched on the producer's operator; everything else needs backtracking."""
    seen = set()
    for a in pat["ors"][k]["alts"]:
        if a[0] != "o":
            return False
        n = pat["nodes"][a[1]]
        key = (n["dom"], n["op"])
        if key in seen:
            return False
        seen.add(key)
    return True


def output_nodes(pat):
    """Minimal list of pattern nodes (in order of the outputs) whose backward slices (not looking into OR alternatives)
    cover the pattern - the documented anchoring: the first one is matched against the root node."""
    covered, res = set(), []

    def back(n):
        if n in covered:
            return
        covered.add(n)
        for v in pat["nodes"][n]["ins"]:
            if v[0] == "o":
                back(v[1])

    for v in pat["outs"]:
        if v[0] == "o" and v[1] not in covered:
            res.append(v[1])
            back(v[1])
    return res


def pattern_features(pat):
    f = set()
    names = []
    for n in pat["nodes"]:
        for v in n["ins"]:
            f.add({"v": "var", "any": "any", "none": "none_input", "c": "const", "o": "ref", "or": "or"}[v[0]])
            if v[0] == "v":
                names.append(v[1])
                if v[2]:
                    f.add("can_match_none")
            if v[0] == "c":
                f.add("const_list" if isinstance(v[1], list) else "const_scalar")
                if (v[2], v[3]) != (DEFAULT_REL, DEFAULT_ABS):
                    f.add("const_tol")
        for _, a in n["attrs"]:
            f.add("attr_const" if a[0] == "ac" else "attr_var")
            if a[0] == "av":
                names.append("@" + a[1])
        if n["aoi"]:
            f.add("allow_other_inputs")
        if n["aoa"] is False:
            f.add("no_other_attributes")
        if n["nout"] > 1:
            f.add("multi_output_node")
        if any(x is not None for x in n["onames"]):
            f.add("named_output")
        if n["dom"]:
            f.add("custom_domain")
    for k, o in enumerate(pat["ors"]):
        f.add("or_dispatch" if or_is_dispatch(pat, k) else "or_backtracking")
        if o["tag"]:
            f.add("or_tag")
        for a in o["alts"]:
            if a[0] == "v":
                names.append(a[1])
    if len(set(names)) < len(names):
        f.add("repeated_var")
    if len(pat["outs"]) > 1:
        f.add("two_outputs")
    if len(output_nodes(pat)) > 1:
        f.add("multi_output_nodes")
    refs = [tuple(v) for n in pat["nodes"] for v in n["ins"] if v[0] == "o"] + \
           [tuple(a) for o in pat["ors"] for a in o["alts"] if a[0] == "o"]
    if len(set(refs)) < len(refs):
        f.add("shared_node_value")
    return f


def pattern_text(pat, fname="p"):
    """Python source of the pattern function (the documented way to write a pattern)."""
    local, lines, done_or = {}, [], set()

    def val(v, explicit=False):
        k = v[0]
        if k == "v":
            if v[1] not in pat["vars"] and v[1] not in local:
                local[v[1]] = True
                lines.append(f"    {v[1]} = pattern.Var({v[1]!r}, can_match_none={bool(v[2])})")
            return v[1]
        if k == "any":
            return "pattern.ANY_VALUE"
        if k == "none":
            return "None"
        if k == "c":
            if (v[2], v[3]) == (DEFAULT_REL, DEFAULT_ABS) and not explicit:
                return repr(v[1])
            if (v[2], v[3]) == (DEFAULT_REL, DEFAULT_ABS):
                return f"pattern.Constant({v[1]!r})"
            return f"pattern.Constant({v[1]!r}, rel_tol={v[2]!r}, abs_tol={v[3]!r})"
        if k == "o":
            return f"n{v[1]}_{v[2]}"
        if k == "or":
            if v[1] not in done_or:
                done_or.add(v[1])
                o = pat["ors"][v[1]]
                alts = ", ".join(val(a, True) for a in o["alts"])  # OrValue takes ValuePatterns: no literal promotion
                extra = ""
                if o["name"]:
                    extra += f", name={o['name']!r}"
                if o["tag"]:
                    extra += f", tag_var={o['tag']!r}"
                    if o["tagvals"] is not None:
                        extra += f", tag_values={o['tagvals']!r}"
                lines.append(f"    or{v[1]} = pattern.OrValue([{alts}]{extra})")
            return f"or{v[1]}"
        raise ValueError(v)

    for i, n in enumerate(pat["nodes"]):
        args = [val(v) for v in n["ins"]]
        for name, a in n["attrs"]:
            if a[0] == "ac":
                args.append(f"{name}={a[1]!r}")
            elif a[1] in pat["vars"]:
                args.append(f"{name}={a[1]}")
            else:
                args.append(f"{name}=pattern.AttrVar({a[1]!r}, can_match_none={bool(a[2])})")
        if n["dom"]:
            args.append(f"_domain={n['dom']!r}")
        if any(x is not None for x in n["onames"]):
            args.append(f"_outputs={n['onames']!r}")
        elif n["nout"] != 1:
            args.append(f"_outputs={n['nout']}")
        if n["aoi"] is not None:
            args.append(f"_allow_other_inputs={n['aoi']}")
        if n["aoa"] is not None:
            args.append(f"_allow_other_attributes={n['aoa']}")
        lhs = ", ".join(f"n{i}_{j}" for j in range(n["nout"]))
        if n["nout"] == 0:
            lhs = "_"
        lines.append(f"    {lhs} = op.{n['op']}({', '.join(args)})")
    rets = ", ".join(val(v) for v in pat["outs"])
    head = f"def {fname}({', '.join(['op'] + list(pat['vars']))}):"
    return "\n".join([head] + lines + [f"    return {rets}"]) + "\n"


def commute_variants(pat):
    """The patterns denoted by commute=True: one per subset of the two-operand nodes of commutative operators whose
    operands are swapped (same order as itertools.product([False, True], ...) over the nodes in construction order)."""
    space = [[False, True] if (n["dom"], n["op"]) in COMMUTATIVE and len(n["ins"]) == 2 else [False] for n in pat["nodes"]]
    res = []
    for swaps in itertools.product(*space):
        q = {"vars": list(pat["vars"]), "ors": pat["ors"], "outs": pat["outs"], "nodes": []}
        for n, s in zip(pat["nodes"], swaps):
            m = dict(n)
            if s:
                m["ins"] = [n["ins"][1], n["ins"][0]]
            q["nodes"].append(m)
        res.append(q)
    return res


# ============================================================================================= compile to the real API
def build_pattern(pat):
    """AST -> GraphPattern through the public construction API (no Python text), as _to_graph_pattern does."""
    from onnxscript.rewriter import pattern as P
    from onnxscript.rewriter._pattern_ir import GraphPattern

    builder = P.OpsetPatternBuilder("", record=True)
    params = [P.Var(n) for n in pat["vars"]]
    byname = {v.name: v for v in params}
    local, nodeouts, orvals = {}, [], {}

    def val(v, explicit=False):
        k = v[0]
        if k == "v":
            if v[1] in byname:
                return byname[v[1]]
            if v[1] not in local:
                local[v[1]] = P.Var(v[1], can_match_none=bool(v[2]))
            return local[v[1]]
        if k == "any":
            return P.ANY_VALUE
        if k == "none":
            return None
        if k == "c":
            if (v[2], v[3]) == (DEFAULT_REL, DEFAULT_ABS) and not explicit:
                return v[1]  # promoted like a literal
            return P.Constant(v[1], rel_tol=v[2], abs_tol=v[3])
        if k == "o":
            return nodeouts[v[1]][v[2]]
        if k == "or":
            if v[1] not in orvals:
                o = pat["ors"][v[1]]
                alts = [val(a, True) for a in o["alts"]]
                kw = {}
                if o["name"]:
                    kw["name"] = o["name"]
                if o["tag"]:
                    kw["tag_var"] = o["tag"]
                    if o["tagvals"] is not None:
                        kw["tag_values"] = o["tagvals"]
                orvals[v[1]] = P.OrValue(alts, **kw)
            return orvals[v[1]]
        raise ValueError(v)

    with P.pattern_builder(builder):
        for n in pat["nodes"]:
            args = [val(v) for v in n["ins"]]
            kw = {}
            for name, a in n["attrs"]:
                if a[0] == "ac":
                    kw[name] = a[1]
                elif a[1] in byname:
                    kw[name] = byname[a[1]]
                else:
                    kw[name] = P.AttrVar(a[1], can_match_none=bool(a[2]))
            if n["dom"]:
                kw["_domain"] = n["dom"]
            if any(x is not None for x in n["onames"]):
                kw["_outputs"] = list(n["onames"])
            elif n["nout"] != 1:
                kw["_outputs"] = n["nout"]
            if n["aoi"] is not None:
                kw["_allow_other_inputs"] = n["aoi"]
            if n["aoa"] is not None:
                kw["_allow_other_attributes"] = n["aoa"]
            r = getattr(builder, n["op"])(*args, **kw)
            nodeouts.append([r] if n["nout"] == 1 else list(r))
        outs = [val(v) for v in pat["outs"]]
    return GraphPattern(params, outs, builder.nodes())


def build_pattern_from_text(pat):
    """AST -> Python text -> function -> GraphPattern via the documented route (Pattern(function))."""
    from onnxscript.rewriter import pattern as P
    from onnxscript.rewriter._pattern_ir import _to_graph_pattern

    ns = {"pattern": P}
    exec(compile(pattern_text(pat), "<patspec>", "exec"), ns)  # noqa: S102
    return _to_graph_pattern(ns["p"])


_NP = {"f32": np.float32, "f64": np.float64, "i64": np.int64, "i32": np.int32}


def tensor_array(tn):
    return np.array(tn["vals"], dtype=_NP[tn["dt"]]).reshape(tn["shape"])


class Host:
    """A built host graph: ir objects + maps between ir values/nodes and AST references."""

    def __init__(self, host):
        from onnxscript import ir
        from onnxscript.optimizer import basic_constant_propagation

        self.ast = host
        ftype = ir.TensorType(ir.DataType.FLOAT)
        ins = [ir.Value(name=f"a{k}", type=ftype, shape=ir.Shape([2])) for k in range(host["nin"])]
        inits = []
        for k, tn in enumerate(host["inits"]):
            inits.append(ir.Value(name=f"k{k}", const_value=ir.tensor(tensor_array(tn), name=f"k{k}")))
        ref2val = {}
        for k, v in enumerate(ins):
            ref2val[("i", k)] = v
        for k, v in enumerate(inits):
            ref2val[("c", k)] = v
        nodes = []
        for j, n in enumerate(host["nodes"]):
            attrs = []
            for name, kind, value in n["attrs"]:
                if kind == "i":
                    attrs.append(ir.AttrInt64(name, value))
                elif kind == "f":
                    attrs.append(ir.AttrFloat32(name, value))
                elif kind == "s":
                    attrs.append(ir.AttrString(name, value))
                elif kind == "is":
                    attrs.append(ir.AttrInt64s(name, list(value)))
                elif kind == "fs":
                    attrs.append(ir.AttrFloat32s(name, list(value)))
                elif kind == "t":
                    attrs.append(ir.AttrTensor(name, ir.tensor(tensor_array(value))))
                else:
                    raise ValueError(kind)
            node = ir.Node(n["dom"], n["op"], [ref2val[tuple(r)] if r is not None else None for r in n["ins"]], attrs,
                           num_outputs=n["nout"], name=f"node{j}")
            for i, o in enumerate(node.outputs):
                o.name = f"v{j}_{i}"
                ref2val[("n", j, i)] = o
            nodes.append(node)
        self.graph = ir.Graph(ins, [ref2val[tuple(r)] for r in host["outs"]], nodes=nodes, initializers=inits,
                              opset_imports={"": 18}, name="host")
        self.model = ir.Model(self.graph, ir_version=9)
        if any(n["op"] == "Constant" for n in host["nodes"]):
            basic_constant_propagation(self.graph)  # what RewriteRuleSet.apply_to_model does before matching
        self.nodes = nodes
        self.ref2val = ref2val
        self.val2ref = {id(v): r for r, v in ref2val.items()}
        self.node2idx = {id(n): j for j, n in enumerate(nodes)}
        self.view = HostView(host)


def host_text(host):
    def r(x):
        if x is None:
            return "None"
        return {"i": "a%d", "c": "k%d"}[x[0]] % x[1] if x[0] != "n" else f"v{x[1]}_{x[2]}"

    lines = [f"inputs: {', '.join('a%d' % k for k in range(host['nin']))}"]
    for k, tn in enumerate(host["inits"]):
        lines.append(f"k{k} = {tn['dt']}{tn['shape']} {tn['vals']}")
    for j, n in enumerate(host["nodes"]):
        at = ", ".join(f"{a}={v!r}" for a, _, v in n["attrs"])
        dom = n["dom"] + "::" if n["dom"] else ""
        lines.append(f"{', '.join('v%d_%d' % (j, i) for i in range(n['nout']))} = {dom}{n['op']}"
                     f"({', '.join(r(x) for x in n['ins'])}){' <' + at + '>' if at else ''}")
    lines.append(f"outputs: {', '.join(r(x) for x in host['outs'])}")
    return "\n".join(lines)


# ============================================================================================= the reference matcher
class HostView:
    """Tables derived from the host AST only."""

    def __init__(self, host):
        self.nodes = host["nodes"]
        self.n = len(self.nodes)
        self.consumers = {}
        self.ins = []
        self.attrs = []
        for j, n in enumerate(self.nodes):
            row = []
            for r in n["ins"]:
                if r is None:
                    row.append(None)
                else:
                    r = tuple(r)
                    row.append(r)
                    self.consumers.setdefault(r, set()).add(j)
            self.ins.append(row)
            self.attrs.append({a: ("attr", a, k, t(v)) for a, k, v in n["attrs"]})
        self.gouts = {tuple(r) for r in host["outs"]}
        self.const = {}
        for k, tn in enumerate(host["inits"]):
            self.const[("c", k)] = tensor_array(tn)
        for j, n in enumerate(self.nodes):
            if n["op"] == "Constant" and n["dom"] == "" and len(n["attrs"]) == 1 and n["nout"] == 1:
                a, k, v = n["attrs"][0]
                if a == "value" and k == "t":
                    self.const[("n", j, 0)] = tensor_array(v)
                elif a in ("value_float", "value_floats"):
                    self.const[("n", j, 0)] = np.array(v, dtype=np.float32)
                elif a in ("value_int", "value_ints"):
                    self.const[("n", j, 0)] = np.array(v, dtype=np.int64)


def is_close(a, b, rel, abs_):
    if a == b:
        return True
    if math.isinf(a) or math.isinf(b) or math.isnan(a) or math.isnan(b):
        return False
    return abs(a - b) <= max(rel * max(abs(a), abs(b)), abs_)


def const_matches(pc, arr):
    value, rel, abs_ = pc[1], pc[2], pc[3]
    if isinstance(value, (list, tuple)):
        if arr.shape != (len(value),):
            return False
        return all(is_close(arr[i].item(), value[i], rel, abs_) for i in range(len(value)))
    if arr.ndim != 0:
        return False
    return is_close(arr.item(), value, rel, abs_)


def attr_const_matches(value, hattr):
    _, _, kind, hv = hattr
    if kind in ("is", "fs", "ss"):
        return isinstance(value, (list, tuple)) and tuple(hv) == tuple(value)
    return hv == value


class _NoMatch(Exception):
    pass


class Solution:
    __slots__ = ("env", "nodes", "outs", "phi", "choice", "orval", "viol")

    def __init__(self, env, nodes, outs, phi, choice, orval, viol):
        self.env, self.nodes, self.outs, self.phi, self.choice, self.orval, self.viol = \
            env, nodes, outs, phi, choice, orval, viol

    def key(self):
        return (tuple(sorted(self.env.items(), key=repr)), self.nodes, self.outs)


class PatView:
    """Per-pattern tables (output nodes, OR alternatives) computed once."""

    def __init__(self, pat):
        self.pat = pat
        self.outn = output_nodes(pat)
        self.nalts = [range(len(o["alts"])) for o in pat["ors"]]
        self.dispatch = [or_is_dispatch(pat, k) for k in range(len(pat["ors"]))]
        self.nnodes = len(pat["nodes"])
        self.nchoices = 1
        for r in self.nalts:
            self.nchoices *= len(r)


def _propagate(pat, hv, choice, seeds, derive=True, strict=False, max_viol=1):
    """Walk the constraints of one candidate (OR choice + host nodes for the seed pattern nodes), deriving the forced
    assignments of the remaining reachable pattern nodes.  Returns a Solution whose .viol lists the violated atomic
    constraints (empty = instance), or None when the candidate cannot even be completed (strict: on first violation)."""
    pnodes, ors = pat["nodes"], pat["ors"]
    phi, env, orval, used_choice = dict(seeds), {}, {}, {}
    viol = []

    def fail(kind, hard=False):
        if strict or len(viol) >= max_viol:
            raise _NoMatch  # more violated constraints than the caller cares about
        viol.append(kind)
        if hard:
            if len(viol) >= max_viol:
                raise _NoMatch
            viol.append("unmatched-subpattern")

    def bind(name, value, kind):
        if name in env:
            if env[name] != value:
                fail("repeat:" + kind)
        else:
            env[name] = value

    def mval(pv, h):
        k = pv[0]
        if k == "any":
            return
        if k == "none":
            if h is not None:
                fail("none-input")
            return
        if k == "v":
            if h is None and not pv[2]:
                fail("absent-input")
                return
            bind(pv[1], h, "var")
            return
        if k == "c":
            arr = hv.const.get(h) if h is not None else None
            if arr is None:
                fail("not-constant")
            elif not const_matches(pv, arr):
                fail("const-value")
            return
        if k == "o":
            if h is None or h[0] != "n":
                fail("not-computed", hard=True)
                return
            if h[2] != pv[2]:
                fail("output-index")
            n, j = pv[1], h[1]
            if n in phi:
                if phi[n] != j:
                    fail("node-twice")
                return
            if not derive:
                raise AssertionError("total assignment expected")
            phi[n] = j
            mnode(n, j)
            return
        if k == "or":
            o = ors[pv[1]]
            if pv[1] in orval:
                if orval[pv[1]] != h:
                    fail("repeat:or-value")
                return
            orval[pv[1]] = h
            if o["name"]:
                bind(o["name"], h, "or-name")
            c = choice[pv[1]]
            used_choice[pv[1]] = c
            mval(o["alts"][c], h)
            if o["tag"]:
                tv = o["tagvals"] if o["tagvals"] is not None else list(range(len(o["alts"])))
                bind(o["tag"], t(tv[c]), "tag")
            return
        raise ValueError(pv)

    checked = set()

    def mnode(n, j):
        if n in checked:
            return
        checked.add(n)
        pn, hn = pnodes[n], hv.nodes[j]
        if pn["op"] != hn["op"]:
            fail("op")
        if pn["dom"] != hn["dom"]:
            fail("domain")
        hattrs = hv.attrs[j]
        pnames = set()
        for name, ap in pn["attrs"]:
            pnames.add(name)
            ha = hattrs.get(name)
            if ha is None:
                if ap[0] == "av" and ap[2]:
                    bind(ap[1], None, "attr-var")
                else:
                    fail("attr-absent")
            elif ap[0] == "ac":
                if not attr_const_matches(ap[1], ha):
                    fail("attr-value")
            else:
                bind(ap[1], ha, "attr-var")
        if pn["aoa"] is False:
            for name in hattrs:
                if name not in pnames:
                    fail("other-attribute")
        pins, hins = pn["ins"], hv.ins[j]
        if len(hins) > len(pins):
            if not pn["aoi"]:
                fail("other-input")
            hins = hins[:len(pins)]
        else:
            hins = hins + [None] * (len(pins) - len(hins))
        for pv, h in zip(pins, hins):
            mval(pv, h)
        if hn["nout"] < pn["nout"]:
            fail("num-outputs")
        for i, name in enumerate(pn["onames"]):
            if name is not None and i < hn["nout"]:
                bind(name, ("n", j, i), "output-name")

    try:
        for n in list(seeds):
            mnode(n, phi[n])
        outs = []
        for pv in pat["outs"]:
            if pv[0] == "o":
                if pv[1] not in phi:
                    raise _NoMatch
                outs.append(("n", phi[pv[1]], pv[2]))
            elif pv[0] == "or":
                if pv[1] not in orval:
                    raise _NoMatch
                outs.append(orval[pv[1]])
            else:
                raise ValueError("unsupported pattern output")
    except _NoMatch:
        return None
    image = frozenset(phi[n] for n in checked)
    for name in pat["vars"]:
        env.setdefault(name, None)
    return Solution(env, image, tuple(outs), {n: phi[n] for n in checked}, used_choice, orval, viol)


def solve(pv, hv, root, brute=False, max_viol=1):
    """All instances of the pattern ending at host node `root`, ignoring the remove_nodes side condition (see
    is_removable), plus the best near-miss: -> (solutions, fewest violated constraints among the non-instances | None);
    candidates violating more than max_viol atomic constraints are abandoned early (max_viol=1: only near misses matter).
    brute=False: enumerate OR choices x host nodes for the additional output nodes; the rest of phi is forced.
    brute=True : enumerate OR choices x ALL total assignments pattern node -> host node and check each one."""
    pat, outn = pv.pat, pv.outn
    if not outn:
        return [], None
    sols, seen, best = [], set(), None
    others = [n for n in range(pv.nnodes) if n != outn[0]] if brute else outn[1:]
    space = [range(hv.n)] * len(others)
    for choice in itertools.product(*pv.nalts):
        for assign in itertools.product(*space):
            seeds = {outn[0]: root}
            seeds.update(zip(others, assign))
            if brute:
                sol = _check_total(pat, hv, choice, seeds, outn)
            else:
                sol = _propagate(pat, hv, choice, seeds, max_viol=max_viol)
            if sol is None:
                continue
            if sol.viol:
                if best is None or len(sol.viol) < len(best):
                    best = sol.viol
                continue
            k = (sol.key(), tuple(sorted(sol.phi.items())), tuple(sorted(sol.choice.items())))
            if k not in seen:
                seen.add(k)
                sols.append(sol)
    return sols, best


def _check_total(pat, hv, choice, phi_total, outn):
    """Brute-force check of ONE total assignment: the pattern nodes reachable from the output nodes under the OR choice
    are each checked against their assigned host node (nothing is derived); unreachable nodes are unconstrained."""
    pnodes = pat["nodes"]
    stack, seen = list(outn), set()

    def refs(pv):
        if pv[0] == "o":
            return [pv[1]]
        if pv[0] == "or":
            return refs(pat["ors"][pv[1]]["alts"][choice[pv[1]]])
        return []

    while stack:
        n = stack.pop()
        if n in seen:
            continue
        seen.add(n)
        for pv in pnodes[n]["ins"]:
            stack.extend(refs(pv))
    return _propagate(pat, hv, choice, {n: phi_total[n] for n in sorted(seen)}, derive=False, strict=True)


def local_match(pat, hv, pv, h):
    """Does value pattern `pv` match host value `h` on its own (fresh bindings, any OR choice)?"""
    probe = {"vars": [], "nodes": pat["nodes"] + [pnode("__probe__", [pv])], "ors": pat["ors"], "outs": []}
    k = len(pat["nodes"])
    hv2 = _ProbeView(hv, h)
    for choice in itertools.product(*[range(len(o["alts"])) for o in pat["ors"]]):
        if _propagate(probe, hv2, choice, {k: hv2.n - 1}, strict=True) is not None:
            return True
    return False


class _ProbeView:
    """Host view with one extra artificial node `__probe__(h)` appended (used by local_match)."""

    def __init__(self, hv, h):
        self.nodes = hv.nodes + [{"op": "__probe__", "dom": "", "ins": [h], "attrs": [], "nout": 1}]
        self.n = hv.n + 1
        self.consumers = hv.consumers
        self.ins = hv.ins + [[h]]
        self.attrs = hv.attrs + [{}]
        self.gouts = hv.gouts
        self.const = hv.const


def needs_or_backtracking(pat, hv, sol):
    """True when the instance picks, for some backtracking OR, a later alternative although an earlier alternative
    matches the same value when looked at on its own (first-match-wins without backtracking gets stuck there)."""
    for k, c in sol.choice.items():
        if or_is_dispatch(pat, k):
            continue
        for j in range(c):
            if local_match(pat, hv, pat["ors"][k]["alts"][j], sol.orval[k]):
                return True
    return False


def is_removable(sol, hv, gouts=None):
    """remove_nodes side condition of an instance for a given set of graph outputs (default: the host's own)."""
    gouts = hv.gouts if gouts is None else gouts
    outset = set(sol.outs)
    for j in sol.nodes:
        for i in range(hv.nodes[j]["nout"]):
            v = ("n", j, i)
            if v in outset:
                continue
            if v in gouts or any(c not in sol.nodes for c in hv.consumers.get(v, ())):
                return False
    return True


# ============================================================================================= bounded-exhaustive enumerators
OPS = {"Neg": (1, 1), "Add": (2, 1), "Sub": (2, 1), "Split": (1, 2)}
VARS = ["x", "y", "z", "w", "u", "s", "p", "q"]
C1 = ["c", 1.0, DEFAULT_REL, DEFAULT_ABS]


def _enum_struct(kmax, maxv, extra_leaves, ops=None):
    """All node sequences with 1..kmax nodes; operand slots range over: variables in first-use order (at most maxv),
    outputs of earlier nodes, and at most one of `extra_leaves` per node.  Canonical = variables numbered by first use."""
    ops = ops or OPS

    def rec(nodes, nv, vals):
        if nodes:
            yield nodes, nv
        if len(nodes) == kmax:
            return
        for op, (ar, nout) in ops.items():
            def slots(i, cur, nv2, nextra):
                if i == ar:
                    yield cur, nv2
                    return
                for x in range(nv2):
                    yield from slots(i + 1, cur + [("v", x)], nv2, nextra)
                if nv2 < maxv:
                    yield from slots(i + 1, cur + [("v", nv2)], nv2 + 1, nextra)
                for r in vals:
                    yield from slots(i + 1, cur + [r], nv2, nextra)
                if nextra < 1:
                    for e in extra_leaves:
                        yield from slots(i + 1, cur + [e], nv2, nextra + 1)

            for s, nv2 in slots(0, [], nv, 0):
                j = len(nodes)
                yield from rec(nodes + [(op, s)], nv2, vals + [("o", j, i) for i in range(nout)])

    yield from rec([], 0, [])


def enum_patterns(kmax, maxv=3, leaves=("c", "any"), out_variants=True):
    """Canonical patterns with <= kmax node patterns over {Neg, Add, Sub, Split(2 outputs)}.
    Pattern outputs: for every sink node (no output used by a later node) its output (Split: out0 / out1 / both), in node
    order, and - with out_variants - also in reversed order (which output node anchors at the root) and with one used
    (intermediate) value returned additionally."""
    extra = []
    if "c" in leaves:
        extra.append(("c",))
    if "any" in leaves:
        extra.append(("any",))
    for nodes, nv in _enum_struct(kmax, maxv, extra):
        pn, used = [], set()
        for op, s in nodes:
            ins = []
            for v in s:
                if v[0] == "v":
                    ins.append(["v", VARS[v[1]], False])
                elif v[0] == "c":
                    ins.append(list(C1))
                elif v[0] == "any":
                    ins.append(["any"])
                else:
                    ins.append(list(v))
                    used.add(v)
            pn.append(pnode(op, ins, nout=OPS[op][1]))
        sinks = [j for j, (op, _) in enumerate(nodes) if not any(("o", j, i) in used for i in range(OPS[op][1]))]
        per_sink = []
        for j in sinks:
            if OPS[nodes[j][0]][1] == 2:
                per_sink.append([[["o", j, 0]], [["o", j, 1]], [["o", j, 0], ["o", j, 1]]])
            else:
                per_sink.append([[["o", j, 0]]])
        base = {"vars": VARS[:nv], "nodes": pn, "ors": []}
        for combo in itertools.product(*per_sink):
            outs = [v for part in combo for v in part]
            yield dict(base, outs=outs)
            if out_variants:
                if len(sinks) > 1:
                    yield dict(base, outs=[v for part in reversed(combo) for v in part])
                for v in sorted(used):
                    yield dict(base, outs=outs + [list(v)])


def enum_hosts(kmax, maxin=2, const_leaf=False):
    """Canonical host graphs with <= kmax nodes over the same alphabet: operands are graph inputs in first-use order (at
    most maxin), outputs of earlier nodes, optionally (at most one per node) the initializer k0 = float32 scalar 1.0.
    Graph outputs = all values no node consumes (further graph-output variants are applied by the caller as modes)."""
    extra = [("k",)] if const_leaf else []
    for nodes, nv in _enum_struct(kmax, maxin, extra):
        hn, used, usesk = [], set(), False
        for op, s in nodes:
            ins = []
            for v in s:
                if v[0] == "v":
                    ins.append(["i", v[1]])
                elif v[0] == "k":
                    ins.append(["c", 0])
                    usesk = True
                else:
                    ins.append(["n", v[1], v[2]])
                    used.add(v)
            hn.append(hnode(op, ins, nout=OPS[op][1]))
        outs = [["n", j, i] for j, (op, _) in enumerate(nodes) for i in range(OPS[op][1]) if ("o", j, i) not in used]
        yield {"nin": nv, "inits": [{"dt": "f32", "shape": [], "vals": [1.0]}] if usesk else [], "nodes": hn, "outs": outs}


def gout_modes(host):
    """Graph-output variants of a host: the base, one per consumed node output additionally exported, and one per
    unconsumed output of a multi-output node left dangling (not exported)."""
    modes = [("base", None)]
    base = {tuple(r) for r in host["outs"]}
    for j, n in enumerate(host["nodes"]):
        for i in range(n["nout"]):
            v = ("n", j, i)
            if v not in base:
                modes.append(("add", v))
            elif n["nout"] > 1:
                modes.append(("drop", v))
    return modes


# ============================================================================================= feature families (exhaustive)
def _v(name, can_none=False):
    return ["v", name, can_none]


def feature_patterns(full=True):
    """Node-level feature patterns around one focus node (Split / Add / Neg): attribute constants and variables,
    _allow_other_attributes, _allow_other_inputs, explicit None / optional inputs, declared outputs (count, names), domain;
    wrapped alone, under a consumer, or twice with a shared attribute / value variable."""
    res = []
    split_ins = [[_v("x")], [_v("x"), ["none"]], [_v("x"), _v("m", True)], [_v("x"), _v("y")], [["any"]], [_v("x"), ["any"]]]
    if not full:
        split_ins = split_ins[:4]
    split_attrs = [[], [["axis", ["ac", 0]]], [["axis", ["av", "a", False]]], [["axis", ["av", "a", True]]],
                   [["axis", ["ac", 0]], ["num_outputs", ["ac", 2]]], [["num_outputs", ["av", "a", False]]]]
    if not full:
        split_attrs = split_attrs[:5]
    # a LIST-valued attribute constant (hosts carry the same list, a longer one with it as prefix, a shorter prefix, the empty list)
    split_attrs = split_attrs + [[["split", ["ac", [1, 2]]]]]
    for ins in split_ins:
        for aoi in (None, True):
            for attrs in split_attrs:
                for aoa in (None, False):
                    for nout, onames in ((1, None), (2, None), (2, ["first", "second"])):
                        vars_ = [n for n in ("x", "y") if any(v[0] == "v" and v[1] == n for v in ins)]
                        vars_ += [a[1][1] for a in attrs if a[1][0] == "av" and not a[1][2]]
                        node = pnode("Split", ins, attrs=attrs, nout=nout, onames=onames, aoi=aoi, aoa=aoa)
                        res.append({"vars": vars_, "nodes": [node], "ors": [], "outs": [["o", 0, 0]]})
                        if nout == 2:
                            res.append({"vars": vars_, "nodes": [node], "ors": [], "outs": [["o", 0, 0], ["o", 0, 1]]})
                            res.append({"vars": vars_, "nodes": [node, pnode("Neg", [["o", 0, 1]])], "ors": [], "outs": [["o", 1, 0]]})
                        else:
                            res.append({"vars": vars_, "nodes": [node, pnode("Neg", [["o", 0, 0]])], "ors": [], "outs": [["o", 1, 0]]})
    # two Splits sharing an attribute variable (same attribute name) / chained
    for a2 in (["axis", ["av", "a", False]], ["axis", ["av", "b", False]], ["axis", ["ac", 0]]):
        for second_in in (["o", 0, 0], ["o", 0, 1], _v("y")):
            n0 = pnode("Split", [_v("x")], attrs=[["axis", ["av", "a", False]]], nout=2)
            n1 = pnode("Split", [second_in], attrs=[a2], nout=2)
            vars_ = ["x"] + (["y"] if second_in[0] == "v" else []) + ["a"] + (["b"] if a2[1][0] == "av" and a2[1][1] == "b" else [])
            outs = [["o", 1, 0]] if second_in[0] == "o" else [["o", 0, 0], ["o", 1, 0]]
            res.append({"vars": vars_, "nodes": [n0, n1], "ors": [], "outs": outs})
    # binary / unary nodes with fewer or more declared inputs
    for op in ("Add", "Sub", "Neg"):
        for ins in ([], [_v("x")], [_v("x"), _v("y")], [_v("x"), _v("x")], [_v("x"), ["none"]], [_v("x"), _v("m", True)],
                    [_v("x"), _v("y"), ["none"]], [_v("x"), _v("y"), _v("m", True)], [["none"], _v("y")],
                    [_v("m", True), _v("y")], [_v("m", True), _v("m", True)]):
            for aoi in (None, True):
                for dom in ("", "custom"):
                    for aoa in (None, False):
                        vars_ = [n for n in ("x", "y") if any(v[0] == "v" and v[1] == n for v in ins)]
                        res.append({"vars": vars_, "nodes": [pnode(op, ins, dom=dom, aoi=aoi, aoa=aoa)], "ors": [], "outs": [["o", 0, 0]]})
    return res


def feature_hosts():
    """Hosts for feature_patterns: one focus node with every combination of inputs (1, 2, explicit None, 3), attributes
    (none, axis 0/1, float axis, num_outputs, both), outputs 1..3, domain ''/custom; alone, consumed, or doubled."""
    res = []
    attrsets = [[], [["axis", "i", 0]], [["axis", "i", 1]], [["axis", "f", 0.0]], [["num_outputs", "i", 2]],
                [["axis", "i", 0], ["num_outputs", "i", 2]], [["num_outputs", "i", 0]],
                [["split", "is", [1, 2]]], [["split", "is", [1, 2, 3]]], [["split", "is", [1]]], [["split", "is", []]], [["split", "is", [2, 1]]]]
    for op in ("Split", "Add", "Sub", "Neg"):
        for ins in ([], [["i", 0]], [["i", 0], ["i", 1]], [["i", 0], ["i", 0]], [["i", 0], None], [None, ["i", 0]],
                    [["i", 0], ["i", 1], ["i", 0]], [["i", 0], ["i", 1], None]):
            for attrs in (attrsets if op == "Split" else attrsets[:3]):
                for nout in ((1, 2, 3) if op == "Split" else (1,)):
                    for dom in ("", "custom"):
                        nin = 1 + max([r[1] for r in ins if r is not None], default=0)
                        n0 = hnode(op, ins, dom=dom, attrs=attrs, nout=nout)
                        res.append({"nin": nin, "inits": [], "nodes": [n0], "outs": [["n", 0, i] for i in range(nout)]})
                        for used in range(min(nout, 2)):
                            res.append({"nin": nin, "inits": [], "nodes": [n0, hnode("Neg", [["n", 0, used]])],
                                        "outs": [["n", 0, i] for i in range(nout) if i != used] + [["n", 1, 0]]})
    # two Splits with equal / different axis attributes, chained or side by side
    for ax0, ax1 in ((0, 0), (0, 1), (1, 1)):
        for kind1 in ("i", "f"):
            for second_in in (["n", 0, 0], ["n", 0, 1], ["i", 1]):
                n0 = hnode("Split", [["i", 0]], attrs=[["axis", "i", ax0]], nout=2)
                n1 = hnode("Split", [second_in], attrs=[["axis", kind1, ax1 if kind1 == "i" else float(ax1)]], nout=2)
                outs = [["n", 0, i] for i in range(2) if ["n", 0, i] != second_in] + [["n", 1, 0], ["n", 1, 1]]
                res.append({"nin": 2, "inits": [], "nodes": [n0, n1], "outs": outs})
    return res


def const_patterns():
    res = []
    consts = [["c", 1.0, DEFAULT_REL, DEFAULT_ABS], ["c", 1, DEFAULT_REL, DEFAULT_ABS], ["c", 0.0, DEFAULT_REL, DEFAULT_ABS],
              ["c", 1.0, 0.0, 0.0], ["c", 1.0, 1e-3, 0.0], ["c", 0.0, 0.0, 1e-3], ["c", [1.0, 2.0], DEFAULT_REL, DEFAULT_ABS],
              ["c", [1.0], DEFAULT_REL, DEFAULT_ABS], ["c", [], DEFAULT_REL, DEFAULT_ABS], ["c", 1e4, DEFAULT_REL, DEFAULT_ABS],
              ["c", -1.0, DEFAULT_REL, DEFAULT_ABS], ["c", [1, 2], 0.0, 0.0]]
    for c in consts:
        res.append({"vars": ["x"], "nodes": [pnode("Add", [_v("x"), c])], "ors": [], "outs": [["o", 0, 0]]})
        res.append({"vars": ["x"], "nodes": [pnode("Sub", [c, _v("x")])], "ors": [], "outs": [["o", 0, 0]]})
        res.append({"vars": [], "nodes": [pnode("Add", [c, c])], "ors": [], "outs": [["o", 0, 0]]})
        res.append({"vars": ["x"], "nodes": [pnode("Add", [_v("x"), c]), pnode("Neg", [["o", 0, 0]])], "ors": [], "outs": [["o", 1, 0]]})
    return res


def const_hosts():
    res = []
    tensors = [("f32", [], [1.0]), ("f32", [], [1.000005]), ("f32", [], [1.00002]), ("f64", [], [1.0 + 1e-9]), ("f64", [], [1.0 + 1e-5 + 1e-9]),
               ("f32", [], [0.0]), ("f32", [], [-0.0]), ("f64", [], [5e-9]), ("f64", [], [2e-8]), ("f64", [], [5e-4]), ("f32", [], [1.0005]),
               ("f32", [1], [1.0]), ("f32", [1, 1], [1.0]), ("f32", [2], [1.0, 2.0]), ("f32", [2], [1.0, 2.00001]), ("f32", [2], [1.0, 2.1]),
               ("f32", [0], []), ("f32", [3], [1.0, 2.0, 3.0]), ("i64", [], [1]), ("i64", [2], [1, 2]), ("i64", [], [0]),
               ("f32", [], [float("inf")]), ("f32", [], [float("nan")]), ("f32", [], [10000.05]), ("f32", [], [10000.5]), ("f32", [], [-1.0])]
    for dt, shape, vals in tensors:
        tn = {"dt": dt, "shape": shape, "vals": vals}
        for first in (False, True):
            ins = [["c", 0], ["i", 0]] if first else [["i", 0], ["c", 0]]
            for op in ("Add", "Sub"):
                res.append({"nin": 1, "inits": [tn], "nodes": [hnode(op, ins)], "outs": [["n", 0, 0]]})
        res.append({"nin": 0, "inits": [tn], "nodes": [hnode("Add", [["c", 0], ["c", 0]])], "outs": [["n", 0, 0]]})
        res.append({"nin": 1, "inits": [tn], "nodes": [hnode("Add", [["i", 0], ["c", 0]]), hnode("Neg", [["n", 0, 0]])], "outs": [["n", 1, 0]]})
        # the same constant produced by a Constant node (tensor attribute)
        res.append({"nin": 1, "inits": [], "nodes": [hnode("Constant", [], attrs=[["value", "t", tn]]), hnode("Add", [["i", 0], ["n", 0, 0]])],
                    "outs": [["n", 1, 0]]})
    for attr in (["value_float", "f", 1.0], ["value_int", "i", 1], ["value_floats", "fs", [1.0, 2.0]], ["value_ints", "is", [1, 2]],
                 ["value_float", "f", 1.00002]):
        res.append({"nin": 1, "inits": [], "nodes": [hnode("Constant", [], attrs=[attr]), hnode("Add", [["i", 0], ["n", 0, 0]])], "outs": [["n", 1, 0]]})
    res.append({"nin": 2, "inits": [], "nodes": [hnode("Add", [["i", 0], ["i", 1]])], "outs": [["n", 0, 0]]})
    res.append({"nin": 1, "inits": [], "nodes": [hnode("Add", [["i", 0]])], "outs": [["n", 0, 0]]})
    return res


def cone_hosts(hosts):
    """Hosts in which every node is an ancestor of the last node (the last node is then the only interesting root)."""
    res = []
    for h in hosts:
        n = len(h["nodes"])
        seen, stack = set(), [n - 1]
        while stack:
            j = stack.pop()
            if j in seen:
                continue
            seen.add(j)
            for r in h["nodes"][j]["ins"]:
                if r is not None and r[0] == "n":
                    stack.append(r[1])
        if len(seen) == n:
            res.append(h)
    return res


def or_patterns(tags=True, full=True):
    """OR family: a top node whose operand is OrValue([alt1, alt2(, alt3)]) over small sub-patterns in x, y (dispatchable
    when the alternatives are computed by distinct operators, otherwise backtracking), with the top node repeating a
    variable / sharing a node with an alternative, optionally named / tagged, optionally returned as second output."""
    res = []

    def subs(nodes):
        """sub-pattern alphabet: returns list of (value, extra nodes appended)"""
        base = len(nodes)
        return [
            ("x", _v("x"), []), ("y", _v("y"), []), ("c", list(C1), []),
            ("neg_x", ["o", base, 0], [pnode("Neg", [_v("x")])]),
            ("neg_y", ["o", base, 0], [pnode("Neg", [_v("y")])]),
            ("add_xy", ["o", base, 0], [pnode("Add", [_v("x"), _v("y")])]),
            ("add_yx", ["o", base, 0], [pnode("Add", [_v("y"), _v("x")])]),
            ("add_xx", ["o", base, 0], [pnode("Add", [_v("x"), _v("x")])]),
            ("sub_xy", ["o", base, 0], [pnode("Sub", [_v("x"), _v("y")])]),
            ("negneg_x", ["o", base + 1, 0], [pnode("Neg", [_v("x")]), pnode("Neg", [["o", base, 0]])]),
            ("split0_x", ["o", base, 0], [pnode("Split", [_v("x")], nout=2)]),
            ("split1_x", ["o", base, 1], [pnode("Split", [_v("x")], nout=2)]),
        ]

    names = [s[0] for s in subs([])]
    if not full:
        names = [n for n in names if n not in ("c", "y", "split0_x", "split1_x")]
    tops = ["neg", "add_or_x", "add_x_or", "sub_or_y", "add_or_or", "add_or_negx", "neg_ret"]
    for a, b in itertools.permutations(names, 2):
        for top in tops:
            nodes = []
            alts = []
            for nm in (a, b):
                s = dict((q[0], q) for q in subs(nodes))[nm]
                nodes = nodes + s[2]
                alts.append(s[1])
            o = {"alts": alts, "name": None, "tag": None, "tagvals": None}
            k = len(nodes)
            outs = [["o", k, 0]]
            if top == "neg":
                nodes = nodes + [pnode("Neg", [["or", 0]])]
            elif top == "add_or_x":
                nodes = nodes + [pnode("Add", [["or", 0], _v("x")])]
            elif top == "add_x_or":
                nodes = nodes + [pnode("Add", [_v("x"), ["or", 0]])]
            elif top == "sub_or_y":
                nodes = nodes + [pnode("Sub", [["or", 0], _v("y")])]
            elif top == "add_or_or":
                nodes = nodes + [pnode("Add", [["or", 0], ["or", 0]])]
            elif top == "add_or_negx":
                # shares the Neg(x) node of an alternative when there is one, else a fresh Neg(x)
                shared = None
                for i, n in enumerate(nodes):
                    if n["op"] == "Neg" and n["ins"] == [_v("x")]:
                        shared = i
                if shared is None:
                    nodes = nodes + [pnode("Neg", [_v("x")])]
                    shared = len(nodes) - 1
                k = len(nodes)
                nodes = nodes + [pnode("Add", [["or", 0], ["o", shared, 0]])]
                outs = [["o", k, 0]]
            elif top == "neg_ret":
                nodes = nodes + [pnode("Neg", [["or", 0]])]
                outs = [["o", k, 0], ["or", 0]]
            res.append({"vars": ["x", "y"], "nodes": nodes, "ors": [o], "outs": outs})
            if tags and top in ("neg", "add_or_x"):
                o2 = {"alts": alts, "name": "t", "tag": "tag", "tagvals": ["first", "second"]}
                res.append({"vars": ["x", "y"], "nodes": nodes, "ors": [o2], "outs": outs})
    # three alternatives, and two ORs in one pattern
    for a, b, c in (("neg_x", "add_xy", "sub_xy"), ("x", "neg_x", "negneg_x"), ("negneg_x", "neg_x", "x"), ("add_xx", "add_xy", "add_yx")):
        nodes, alts = [], []
        for nm in (a, b, c):
            s = dict((q[0], q) for q in subs(nodes))[nm]
            nodes = nodes + s[2]
            alts.append(s[1])
        k = len(nodes)
        res.append({"vars": ["x", "y"], "nodes": nodes + [pnode("Add", [["or", 0], _v("x")])],
                    "ors": [{"alts": alts, "name": None, "tag": "tag", "tagvals": None}], "outs": [["o", k, 0]]})
    for a, b, c, d in (("neg_x", "neg_y", "neg_x", "neg_y"), ("neg_x", "x", "neg_y", "y"), ("add_xy", "neg_x", "sub_xy", "neg_y"),
                       ("x", "neg_x", "y", "neg_y")):
        nodes, alts = [], []
        for nm in (a, b, c, d):
            s = dict((q[0], q) for q in subs(nodes))[nm]
            nodes = nodes + s[2]
            alts.append(s[1])
        k = len(nodes)
        res.append({"vars": ["x", "y"], "nodes": nodes + [pnode("Add", [["or", 0], ["or", 1]])],
                    "ors": [{"alts": alts[:2], "name": None, "tag": "t0", "tagvals": None},
                            {"alts": alts[2:], "name": None, "tag": "t1", "tagvals": None}], "outs": [["o", k, 0]]})
    return res


# ============================================================================================= random patterns / planted hosts
# `rnd` is a random.Random-like object supplied by Hypothesis (st.randoms(use_true_random=False)).
RARITY = {"Neg": 1, "Add": 2, "Sub": 2, "Split": 1, "Foo": 2}


def _pick(rnd, weighted):
    tot = sum(w for w, _ in weighted)
    r = rnd.random() * tot
    for w, x in weighted:
        r -= w
        if r <= 0:
            return x
    return weighted[-1][1]


def random_pattern(rnd, max_nodes=8):
    """A random pattern with up to max_nodes node patterns using every construct of the AST."""
    k = rnd.randint(1, max_nodes)
    nodes, ors, varnames = [], [], []
    unused = []  # node output refs not yet consumed
    allrefs = []
    attrvars = []
    use_or = rnd.random() < 0.45
    feat = rnd.random() < 0.6  # node-level decorations at all?

    def var():
        if varnames and rnd.random() < 0.5:
            return _v(rnd.choice(varnames))
        if len(varnames) < len(VARS):
            varnames.append(VARS[len(varnames)])
            return _v(varnames[-1])
        return _v(rnd.choice(varnames))

    def const():
        r = rnd.random()
        if r < 0.6:
            return ["c", rnd.choice([1.0, 0.0, 2.0, 1, -1.0, 0.5]), DEFAULT_REL, DEFAULT_ABS]
        if r < 0.8:
            return ["c", rnd.choice([[1.0, 2.0], [1], [0.0, 0.0, 1.0]]), DEFAULT_REL, DEFAULT_ABS]
        return ["c", rnd.choice([1.0, 2.0]), rnd.choice([0.0, 1e-3]), rnd.choice([0.0, 1e-6])]

    def ref():
        if unused and rnd.random() < 0.8:
            r = unused.pop(rnd.randint(0, len(unused) - 1))
        else:
            r = rnd.choice(allrefs)
            if r in unused:
                unused.remove(r)
        return list(r)

    def make_or():
        n_alts = 2 if rnd.random() < 0.8 else 3
        alts = []
        for _ in range(n_alts):
            if allrefs and rnd.random() < 0.75:
                a = ref()
            elif rnd.random() < 0.8:
                a = var()
            else:
                a = const()
            if a not in alts:
                alts.append(a)
        if len(alts) < 2:
            alts.append(var())
            if alts[0] == alts[1]:
                return None
        o = {"alts": alts, "name": None, "tag": None, "tagvals": None}
        r = rnd.random()
        if r < 0.3:
            o["tag"] = f"tag{len(ors)}"
            if rnd.random() < 0.5:
                o["tagvals"] = [f"alt{i}" for i in range(len(alts))]
        if rnd.random() < 0.2:
            o["name"] = f"orv{len(ors)}"
        ors.append(o)
        return ["or", len(ors) - 1]

    def leaf():
        w = [(3, "var")]
        if allrefs:
            w.append((5, "ref"))
        w.append((0.7, "const"))
        w.append((0.3, "any"))
        if use_or and len(ors) < 3:
            w.append((1.2, "or"))
        if ors:
            w.append((0.2, "oldor"))
        kind = _pick(rnd, w)
        if kind == "var":
            return var()
        if kind == "ref":
            return ref()
        if kind == "const":
            return const()
        if kind == "any":
            return ["any"]
        if kind == "oldor":
            return ["or", rnd.randint(0, len(ors) - 1)]
        o = make_or()
        return o if o is not None else var()

    for i in range(k):
        op = _pick(rnd, [(3, "Neg"), (4, "Add"), (3, "Sub"), (2, "Split"), (0.4, "Foo")])
        ar = {"Neg": 1, "Add": 2, "Sub": 2, "Split": 1, "Foo": rnd.randint(0, 3)}[op]
        ins = [leaf() for _ in range(ar)]
        attrs, nout, onames, aoi, aoa, dom = [], 1, None, None, None, ""
        if op == "Foo":
            dom = "custom"
            nout = rnd.randint(1, 2)
        if op == "Split":
            nout = 2 if rnd.random() < 0.8 else 1
        if feat:
            if op in ("Split", "Foo") and rnd.random() < 0.5:
                r = rnd.random()
                if r < 0.4:
                    attrs.append(["axis", ["ac", rnd.choice([0, 1])]])
                elif r < 0.8:
                    if attrvars and rnd.random() < 0.6:
                        a = rnd.choice(attrvars)
                    else:
                        a = f"at{len(attrvars)}"
                        attrvars.append(a)
                    attrs.append(["axis", ["av", a, False]])
                else:
                    attrs.append(["axis", ["av", f"opt{i}", True]])
                if rnd.random() < 0.2:
                    attrs.append(["num_outputs", ["ac", 2]])
            if rnd.random() < 0.08:
                aoa = False
            elif rnd.random() < 0.05:
                aoa = True
            if rnd.random() < 0.1:
                aoi = True
                if ins and rnd.random() < 0.6:
                    ins = ins[:-1]
            elif rnd.random() < 0.03:
                aoi = False
            r = rnd.random()
            if r < 0.07:
                ins = ins + [["none"]]
            elif r < 0.14:
                ins = ins + [_v(f"m{i}", True)]
            if nout > 1 and rnd.random() < 0.2:
                onames = [f"o{i}_{j}" if rnd.random() < 0.7 else None for j in range(nout)]
            elif nout == 1 and rnd.random() < 0.06:
                onames = [f"o{i}_0"]
        nodes.append(pnode(op, ins, dom=dom, attrs=attrs, nout=nout, onames=onames, aoi=aoi, aoa=aoa))
        for j in range(nout):
            unused.append(("o", i, j))
            allrefs.append(("o", i, j))
    # outputs: sink nodes (none of their outputs referenced from a node input or an OR alternative)
    referenced = set()
    for n in nodes:
        for v in n["ins"]:
            if v[0] == "o":
                referenced.add(v[1])
    for o in ors:
        for a in o["alts"]:
            if a[0] == "o":
                referenced.add(a[1])
    sinks = [i for i in range(len(nodes)) if i not in referenced]
    if not sinks:
        sinks = [len(nodes) - 1]
    rnd.shuffle(sinks)
    sinks = sinks[:_pick(rnd, [(6, 1), (3, 2), (1, 3)])]
    outs = []
    for s in sinks:
        if nodes[s]["nout"] == 2:
            outs += rnd.choice([[["o", s, 0]], [["o", s, 1]], [["o", s, 0], ["o", s, 1]]])
        else:
            outs.append(["o", s, 0])
    pat = {"vars": [], "nodes": nodes, "ors": ors, "outs": outs}
    pat = prune_pattern(pat)
    # optionally return one intermediate value / a covered OR value as an extra output
    if rnd.random() < 0.2:
        inter = sorted({tuple(v) for n in pat["nodes"] for v in n["ins"] if v[0] == "o"} - {tuple(v) for v in pat["outs"]})
        outn = output_nodes(pat)
        covered = set()

        def back(n):
            if n in covered:
                return
            covered.add(n)
            for v in pat["nodes"][n]["ins"]:
                if v[0] == "o":
                    back(v[1])

        for n in outn:
            back(n)
        inter = [v for v in inter if v[1] in covered]
        cov_ors = sorted({v[1] for n in covered for v in pat["nodes"][n]["ins"] if v[0] == "or"})
        if cov_ors and rnd.random() < 0.4:
            pat["outs"] = pat["outs"] + [["or", rnd.choice(cov_ors)]]
        elif inter:
            pat["outs"] = pat["outs"] + [list(rnd.choice(inter))]
    return pat


def prune_pattern(pat):
    """Keep only nodes / ORs reachable from the outputs (through inputs and all OR alternatives); renumber; set vars."""
    keep_n, keep_o = set(), set()

    def visit(v):
        if v[0] == "o":
            if v[1] not in keep_n:
                keep_n.add(v[1])
                for w in pat["nodes"][v[1]]["ins"]:
                    visit(w)
        elif v[0] == "or":
            if v[1] not in keep_o:
                keep_o.add(v[1])
                for w in pat["ors"][v[1]]["alts"]:
                    visit(w)

    for v in pat["outs"]:
        visit(v)
    nmap = {n: i for i, n in enumerate(sorted(keep_n))}
    omap = {o: i for i, o in enumerate(sorted(keep_o))}

    def ren(v):
        if v[0] == "o":
            return ["o", nmap[v[1]], v[2]]
        if v[0] == "or":
            return ["or", omap[v[1]]]
        return list(v)

    nodes = []
    for n in sorted(keep_n):
        m = dict(pat["nodes"][n])
        m["ins"] = [ren(v) for v in m["ins"]]
        nodes.append(m)
    ors = []
    for o in sorted(keep_o):
        m = dict(pat["ors"][o])
        m["alts"] = [ren(v) for v in m["alts"]]
        ors.append(m)
    names = []

    def note(v):
        if v[0] == "v" and not v[2] and v[1] not in names:
            names.append(v[1])

    for n in nodes:
        for v in n["ins"]:
            note(v)
        for _, a in n["attrs"]:
            if a[0] == "av" and not a[2] and a[1] not in names:
                names.append(a[1])
    for o in ors:
        for v in o["alts"]:
            note(v)
    return {"vars": names, "nodes": nodes, "ors": ors, "outs": [ren(v) for v in pat["outs"]]}


def plant_host(rnd, pat, max_nodes=20):
    """Host graph containing an instance of `pat` (for a random OR choice) embedded in random context: operands that are
    inputs / shared inputs / constants / computed by context nodes, extra consumers of intermediates, duplicated nodes,
    unrelated nodes.  Returns (host AST, list of host node indices that form the planted instance)."""
    nodes, inits = [], []
    nin = [0]
    varval, attrval = {}, {}
    made = {}

    def new_input():
        nin[0] += 1
        return ["i", nin[0] - 1]

    def some_leaf():
        r = rnd.random()
        if nin[0] and r < 0.35:
            return ["i", rnd.randint(0, nin[0] - 1)]
        if r < 0.8 or not nodes:
            return new_input()
        j = rnd.randint(0, len(nodes) - 1)
        return ["n", j, rnd.randint(0, nodes[j]["nout"] - 1)]

    def context_node():
        op = rnd.choice(["Neg", "Add", "Sub", "Split"])
        ar, nout = OPS[op]
        nodes.append(hnode(op, [some_leaf() for _ in range(ar)], nout=nout))
        return len(nodes) - 1

    def const_leaf(value, inside=True):
        if isinstance(value, list):
            vals = [float(x) for x in value]
            if not inside and vals:
                vals[rnd.randint(0, len(vals) - 1)] += 0.5
            tn = {"dt": "f32", "shape": [len(vals)], "vals": vals}
        else:
            v = float(value)
            if rnd.random() < 0.3:
                v = v * (1 + 4e-6) if v else 4e-9
            tn = {"dt": rnd.choice(["f32", "f64"]), "shape": [], "vals": [v]}
        if rnd.random() < 0.25:
            nodes.append(hnode("Constant", [], attrs=[["value", "t", tn]]))
            return ["n", len(nodes) - 1, 0]
        inits.append(tn)
        return ["c", len(inits) - 1]

    for _ in range(rnd.randint(0, 3)):
        context_node()
    choice = [rnd.randint(0, len(o["alts"]) - 1) for o in pat["ors"]]
    orval = {}

    def value(v):
        k = v[0]
        if k == "v":
            if v[1] not in varval:
                if v[2] and rnd.random() < 0.5:
                    varval[v[1]] = None
                else:
                    varval[v[1]] = some_leaf() if rnd.random() < 0.8 else const_leaf(1.0)
            return varval[v[1]]
        if k == "any":
            return some_leaf()
        if k == "none":
            return None
        if k == "c":
            return const_leaf(v[1])
        if k == "o":
            j = node(v[1])
            return ["n", j, min(v[2], nodes[j]["nout"] - 1)]
        if k == "or":
            if v[1] not in orval:
                orval[v[1]] = value(pat["ors"][v[1]]["alts"][choice[v[1]]])
            return orval[v[1]]
        raise ValueError(v)

    def node(n):
        if n in made:
            return made[n]
        pn = pat["nodes"][n]
        ins = [value(v) for v in pn["ins"]]
        while ins and ins[-1] is None and rnd.random() < 0.5:
            ins.pop()  # trailing None may be omitted
        if pn["aoi"] and rnd.random() < 0.6:
            ins = ins + [some_leaf() for _ in range(rnd.randint(1, 2))]
        attrs = []
        for name, ap in pn["attrs"]:
            if ap[0] == "ac":
                attrs.append([name, "i" if isinstance(ap[1], int) else "f", ap[1]])
            else:
                key = ap[1]
                if key not in attrval:
                    attrval[key] = None if (ap[2] and rnd.random() < 0.5) else rnd.choice([0, 1])
                if attrval[key] is not None:
                    attrs.append([name, "i", attrval[key]])
        if pn["aoa"] is not False and rnd.random() < 0.25:
            have = {a[0] for a in attrs}
            for extra in ("axis", "num_outputs", "extra"):
                if extra not in have and rnd.random() < 0.4:
                    attrs.append([extra, "i", rnd.choice([0, 1, 2])])
        nout = pn["nout"] + (1 if rnd.random() < 0.1 else 0)
        nodes.append(hnode(pn["op"], ins, dom=pn["dom"], attrs=attrs, nout=nout))
        made[n] = len(nodes) - 1
        return made[n]

    for n in output_nodes(pat):
        node(n)
    for v in pat["outs"]:
        value(v)
    instance = sorted(made.values())
    # context after the instance: consumers of instance values (with small probability of intermediates), duplicates
    budget = max(0, max_nodes - len(nodes))
    for _ in range(rnd.randint(0, min(4, budget))):
        r = rnd.random()
        if r < 0.35 and instance:
            j = rnd.choice(instance)
            src = ["n", j, rnd.randint(0, nodes[j]["nout"] - 1)]
            op = rnd.choice(["Neg", "Add"])
            nodes.append(hnode(op, [src] if op == "Neg" else [src, some_leaf()]))
        elif r < 0.55 and instance:
            j = rnd.choice(instance)
            nodes.append({**nodes[j], "ins": list(nodes[j]["ins"]), "attrs": list(nodes[j]["attrs"])})
        else:
            context_node()
    consumed = {tuple(r) for n in nodes for r in n["ins"] if r is not None}
    outs = [["n", j, i] for j, n in enumerate(nodes) for i in range(n["nout"]) if ("n", j, i) not in consumed]
    if rnd.random() < 0.15:
        j = rnd.randint(0, len(nodes) - 1)
        v = ["n", j, rnd.randint(0, nodes[j]["nout"] - 1)]
        if v not in outs:
            outs.append(v)
    if rnd.random() < 0.1 and outs:
        outs.pop(rnd.randint(0, len(outs) - 1))
    if not outs:
        outs = [["n", len(nodes) - 1, 0]]
    return {"nin": nin[0], "inits": inits, "nodes": nodes, "outs": outs}, instance


def mutate_host(rnd, host, instance):
    """One near-miss edit on (preferably) a node of the planted instance.  Returns (host, edit name)."""
    import copy

    h = copy.deepcopy(host)
    nodes = h["nodes"]
    j = rnd.choice(instance) if instance and rnd.random() < 0.85 else rnd.randint(0, len(nodes) - 1)
    n = nodes[j]
    edits = ["op", "dom", "consumer", "gout"]
    if len(n["ins"]) == 2:
        edits.append("swap")
    if n["ins"]:
        edits += ["rewire", "drop_input", "dup_rewire"]
    edits.append("extra_input")
    if n["attrs"]:
        edits += ["attr_value", "attr_drop"]
    edits.append("attr_add")
    if n["nout"] > 1:
        edits += ["nout_less", "out_index"]
    if h["inits"]:
        edits.append("const_value")
        edits.append("const_shape")
    e = rnd.choice(edits)
    if e == "op":
        n["op"] = rnd.choice([o for o in ("Neg", "Add", "Sub", "Split", "Mul") if o != n["op"]])
    elif e == "dom":
        n["dom"] = "custom" if n["dom"] == "" else ""
    elif e == "swap":
        n["ins"] = [n["ins"][1], n["ins"][0]]
    elif e == "rewire":
        k = rnd.randint(0, len(n["ins"]) - 1)
        cands = [["i", i] for i in range(h["nin"])] + [["n", q, 0] for q in range(j)]
        h["nin"] += 1
        cands.append(["i", h["nin"] - 1])
        n["ins"][k] = rnd.choice(cands)
    elif e == "dup_rewire":
        k = rnd.randint(0, len(n["ins"]) - 1)
        r = n["ins"][k]
        if r is not None and r[0] == "n":
            src = nodes[r[1]]
            nodes.insert(j, {**src, "ins": list(src["ins"]), "attrs": list(src["attrs"])})
            _shift_refs(h, j)
            nodes[j + 1]["ins"][k] = ["n", j, r[2]]
        else:
            n["ins"][k] = None
    elif e == "drop_input":
        n["ins"] = n["ins"][:-1]
    elif e == "extra_input":
        n["ins"] = n["ins"] + [["i", 0]] if h["nin"] else n["ins"] + [None]
        h["nin"] = max(h["nin"], 1)
    elif e == "attr_value":
        a = rnd.choice(n["attrs"])
        if a[1] == "i":
            a[2] = a[2] + 1
        elif a[1] == "f":
            a[2] = a[2] + 0.5
    elif e == "attr_drop":
        n["attrs"].pop(rnd.randint(0, len(n["attrs"]) - 1))
    elif e == "attr_add":
        have = {a[0] for a in n["attrs"]}
        name = rnd.choice([x for x in ("axis", "num_outputs", "extra", "alpha") if x not in have])
        n["attrs"].append([name, "i", rnd.choice([0, 1, 2])])
    elif e == "nout_less":
        n["nout"] -= 1
        dead = ["n", j, n["nout"]]
        for m in nodes:
            m["ins"] = [(["n", j, 0] if r == dead else r) for r in m["ins"]]
        h["outs"] = [r for r in h["outs"] if r != dead] or [["n", j, 0]]
    elif e == "out_index":
        for m in nodes[j + 1:]:
            for k, r in enumerate(m["ins"]):
                if r is not None and r[0] == "n" and r[1] == j:
                    m["ins"][k] = ["n", j, (r[2] + 1) % n["nout"]]
    elif e == "consumer":
        nodes.append(hnode("Neg", [["n", j, rnd.randint(0, n["nout"] - 1)]]))
        h["outs"].append(["n", len(nodes) - 1, 0])
    elif e == "gout":
        v = ["n", j, rnd.randint(0, n["nout"] - 1)]
        if v not in h["outs"]:
            h["outs"].append(v)
    elif e == "const_value":
        tn = rnd.choice(h["inits"])
        if tn["vals"]:
            k = rnd.randint(0, len(tn["vals"]) - 1)
            tn["vals"][k] = tn["vals"][k] * (1 + rnd.choice([2e-5, 1e-3, 9e-6])) + rnd.choice([0.0, 2e-8, 1e-3])
    elif e == "const_shape":
        tn = rnd.choice(h["inits"])
        tn["shape"] = [1] + list(tn["shape"]) if len(tn["vals"]) == 1 or tn["shape"] else tn["shape"]
    return h, e


def _shift_refs(h, at):
    """After inserting a node at index `at`: bump every reference to node >= at (except inside nodes before `at`)."""
    for q, m in enumerate(h["nodes"]):
        if q == at:
            continue
        m["ins"] = [(["n", r[1] + 1, r[2]] if (r is not None and r[0] == "n" and r[1] >= at) else r) for r in m["ins"]]
    h["outs"] = [(["n", r[1] + 1, r[2]] if (r[0] == "n" and r[1] >= at) else r) for r in h["outs"]]


def random_host(rnd, max_nodes=20):
    nodes, nin = [], 1
    inits = [{"dt": "f32", "shape": [], "vals": [1.0]}]
    for _ in range(rnd.randint(1, max_nodes)):
        op = rnd.choice(["Neg", "Add", "Sub", "Split"])
        ar, nout = OPS[op]
        ins = []
        for _ in range(ar):
            r = rnd.random()
            if nodes and r < 0.6:
                j = rnd.randint(max(0, len(nodes) - 4), len(nodes) - 1)
                ins.append(["n", j, rnd.randint(0, nodes[j]["nout"] - 1)])
            elif r < 0.7:
                ins.append(["c", 0])
            elif r < 0.85:
                ins.append(["i", rnd.randint(0, nin - 1)])
            else:
                nin += 1
                ins.append(["i", nin - 1])
        nodes.append(hnode(op, ins, nout=nout))
    consumed = {tuple(r) for n in nodes for r in n["ins"] if r is not None}
    outs = [["n", j, i] for j, n in enumerate(nodes) for i in range(n["nout"]) if ("n", j, i) not in consumed]
    return {"nin": nin, "inits": inits, "nodes": nodes, "outs": outs}


def host_is_wellformed(host):
    """Topological order, references in range (the generator's own sanity check)."""
    for j, n in enumerate(host["nodes"]):
        for r in n["ins"]:
            if r is None:
                continue
            if r[0] == "i" and not (0 <= r[1] < host["nin"]):
                return False
            if r[0] == "c" and not (0 <= r[1] < len(host["inits"])):
                return False
            if r[0] == "n" and not (0 <= r[1] < j and 0 <= r[2] < host["nodes"][r[1]]["nout"]):
                return False
    for r in host["outs"]:
        if r[0] == "n" and not (0 <= r[1] < len(host["nodes"]) and 0 <= r[2] < host["nodes"][r[1]]["nout"]):
            return False
    return True
