"""Output comparison and the two-runtime decision table (DESIGN 1.4)."""
from __future__ import annotations

import numpy as np

from vf import execs


def _eps(dt):
    dt = np.dtype(dt)
    if dt == np.float16:
        return 9.8e-4
    if dt == np.float32:
        return 1.2e-7
    if dt == np.float64:
        return 2.3e-16
    try:
        import ml_dtypes  # noqa: F401

        if dt.name == "bfloat16":
            return 7.9e-3
    except Exception:  # noqa: BLE001
        pass
    return 1.2e-7


def same_array(p, q, scale=0.0, k=16, rel=None, abs_=None):
    """Return None if equal under the stated rule, else a short description."""
    if p is None or q is None:
        return None if (p is None and q is None) else "one output is None"
    if isinstance(p, list) or isinstance(q, list):
        if not (isinstance(p, list) and isinstance(q, list)):
            return "sequence vs tensor"
        if len(p) != len(q):
            return f"sequence length {len(p)} vs {len(q)}"
        for i, (a, b) in enumerate(zip(p, q)):
            d = same_array(a, b, scale, k, rel, abs_)
            if d:
                return f"seq[{i}]: {d}"
        return None
    p = np.asarray(p)
    q = np.asarray(q)
    if p.dtype != q.dtype:
        return f"dtype {p.dtype} vs {q.dtype}"
    if p.shape != q.shape:
        return f"shape {p.shape} vs {q.shape}"
    if p.size == 0:
        return None
    kind = p.dtype.kind
    if kind in "iub" or kind in "OUS":
        if kind in "OUS":
            ok = np.array_equal(p.astype(str), q.astype(str))
        else:
            ok = np.array_equal(p, q)
        return None if ok else f"values differ (exact dtype {p.dtype}): {_show(p, q)}"
    if kind == "c":
        d = same_array(p.real, q.real, scale, k, rel, abs_)
        return d or same_array(p.imag, q.imag, scale, k, rel, abs_)
    # floats (incl. float16 / bfloat16 as V2 custom types)
    eps = _eps(p.dtype)
    pf = p.astype(np.float64)
    qf = q.astype(np.float64)
    pn, qn = np.isnan(pf), np.isnan(qf)
    if not np.array_equal(pn, qn):
        return f"NaN positions differ: {_show(p, q)}"
    pi, qi = np.isinf(pf), np.isinf(qf)
    if not np.array_equal(pi, qi) or not np.array_equal(pf[pi], qf[qi]):
        return f"infinities differ: {_show(p, q)}"
    fin = ~(pn | pi)
    a, b = pf[fin], qf[fin]
    if rel is None:
        tol = 8 * eps * np.maximum(np.abs(a), np.abs(b)) + k * eps * scale
    else:
        tol = rel * np.maximum(np.abs(a), np.abs(b)) + (abs_ or 0.0)
    bad = np.abs(a - b) > tol
    if bad.any():
        i = int(np.argmax(np.abs(a - b) - tol))
        return f"values differ: {a[i]!r} vs {b[i]!r} (tol {float(tol[i]):.3g}, scale {scale:.3g}); {_show(p, q)}"
    return None


def _show(p, q):
    return f"{np.asarray(p).ravel()[:6].tolist()} vs {np.asarray(q).ravel()[:6].tolist()}"


def same_outputs(a, b, scale=0.0, k=16, rel=None, abs_=None):
    if len(a) != len(b):
        return f"output count {len(a)} vs {len(b)}"
    for i, (p, q) in enumerate(zip(a, b)):
        d = same_array(p, q, scale, k, rel, abs_)
        if d:
            return f"output[{i}]: {d}"
    return None


class Source:
    """Original model M prepared once: sessions on both runtimes."""

    def __init__(self, model, use_ort=True, use_ref=True):
        self.model = model
        self.nnodes = _count_nodes(model)
        self.sess = self.sess_err = None
        self.ev = self.ev_err = None
        if use_ort:
            try:
                self.sess = execs.ort_session(model)
            except Exception as e:  # noqa: BLE001
                self.sess_err = f"{type(e).__name__}: {str(e)[:200]}"
        if use_ref:
            try:
                self.ev = execs.ref_evaluator(model)
            except Exception as e:  # noqa: BLE001
                self.ev_err = f"{type(e).__name__}: {str(e)[:200]}"

    def run(self, feeds):
        a = execs.run_ort(None, feeds, self.sess) if self.sess else ("err", self.sess_err or "ort disabled")
        self.last_intermediates = None
        if self.ev:
            r = execs.run_ref(None, feeds, self.ev, intermediate=True)
            b = (r[0], r[1])
            scale = execs.magnitude_scale(r[2]) if r[0] == "ok" else 0.0
            self.last_intermediates = r[2] if r[0] == "ok" else None
        else:
            b, scale = ("err", self.ev_err or "ref disabled"), 0.0
        if a[0] == "ok":
            scale = max(scale, execs.magnitude_scale({i: v for i, v in enumerate(a[1]) if not isinstance(v, list)}))
        scale = max(scale, execs.magnitude_scale(feeds))
        return a, b, scale


def _count_nodes(model):
    n = 0

    def walk(g):
        nonlocal n
        for nd in g.node:
            n += 1
            for at in nd.attribute:
                if at.type == 5:
                    walk(at.g)
                for sg in at.graphs:
                    walk(sg)

    walk(model.graph)
    for f in model.functions:
        n += len(f.node)
    return max(n, 1)


def decide(src: Source, new_model, feeds_list, rel=None, abs_=None):
    """Decision table between M (src) and M' (new_model) over several inputs.

    Returns (verdict, detail) with verdict in
      "ok", "skip_source_fails", "skip_runtime_disagreement", "inconclusive_split",
      "violation_values", "violation_not_executable".
    A list of per-input results is folded: any violation wins, else ok if at least one input compared.
    """
    new = new_model if isinstance(new_model, Source) else Source(
        new_model, use_ort=src.sess is not None or src.sess_err is not None, use_ref=src.ev is not None or src.ev_err is not None)
    outcomes = []
    for feeds in feeds_list:
        outcomes.append(_decide_one(src, new, feeds, rel, abs_))
    for v in ("violation_values", "violation_not_executable"):
        for o in outcomes:
            if o[0] == v:
                return o
    for v in ("ok", "inconclusive_split", "inconclusive_single_runtime", "inconclusive_discontinuity", "skip_runtime_disagreement", "skip_source_fails"):
        for o in outcomes:
            if o[0] == v:
                return o
    return ("skip_source_fails", "no inputs")


def _decide_one(src, new, feeds, rel, abs_):
    a, b, scale = src.run(feeds)
    if a[0] != "ok" and b[0] != "ok":
        return ("skip_source_fails", f"ort: {a[1]} | ref: {b[1]}")
    k = 16 * src.nnodes
    if a[0] == "ok" and b[0] == "ok":
        d = same_outputs(a[1], b[1], scale, k, rel, abs_)
        if d:
            return ("skip_runtime_disagreement", d)
    c = execs.run_ort(None, feeds, new.sess) if new.sess else ("err", new.sess_err or "n/a")
    d_ = execs.run_ref(None, feeds, new.ev) if new.ev else ("err", new.ev_err or "n/a")
    cmp_ort = cmp_ref = None  # None = not comparable, "" = equal, str = difference
    if a[0] == "ok":
        cmp_ort = ("EXEC " + c[1]) if c[0] != "ok" else (same_outputs(a[1], c[1], scale, k, rel, abs_) or "")
    if b[0] == "ok":
        cmp_ref = ("EXEC " + d_[1]) if d_[0] != "ok" else (same_outputs(b[1], d_[1], scale, k, rel, abs_) or "")
    comps = [x for x in (cmp_ort, cmp_ref) if x is not None]
    if all(x == "" for x in comps):
        return ("ok", "")
    if all(x != "" for x in comps):
        if all(x.startswith("EXEC ") for x in comps):
            if any("ORT-CRASH" in x for x in comps):
                return ("inconclusive_split", f"onnxruntime crashed: ort: {cmp_ort} | ref: {cmp_ref}")
            if len(comps) == 1 and cmp_ort is not None and "Got invalid dimensions for input" in cmp_ort:
                # onnx.reference rejects the SOURCE on this input; onnxruntime ran it only because it is lenient about empty operands
                # (Concat with a zero-size operand whose other dims differ).  The result declares the input dimension that the graph
                # implies (shape inference refined '?' to the only value the spec allows) and ORT's input validation now refuses the
                # feed: the input was outside the source model's domain, nothing to compare
                return ("inconclusive_single_runtime", f"ort: {cmp_ort} | ref: {cmp_ref}")
            if len(comps) == 1 and cmp_ref is not None and ("Unexpected shape" in cmp_ref or "Shape inconsistencies" in cmp_ref or "negative dimensions are not allowed" in cmp_ref):
                # only onnx.reference ran the source, and on the result it trips the internal consistency check of its own Conv kernel
                # (op_conv.py: pads + strides + zero-size output; a kernel larger than its input gives a negative extent that numpy refuses):
                # a limitation of that runtime, not evidence about the transformation
                return ("inconclusive_single_runtime", f"ort: {cmp_ort} | ref: {cmp_ref}")
            if len(comps) == 1:
                # only one runtime executed the SOURCE.  If the other one could load the source and REJECTED THIS INPUT at execution
                # time, the input is at the edge of the source model's own domain (the runtimes disagree about the source): that the one
                # lenient runtime refuses the result is then no evidence about the transformation.  (When the other runtime could not
                # even load the source - an operator or type it does not implement - the single runtime is all there is and counts.)
                contested = (cmp_ort is None and src.sess is not None) or (cmp_ref is None and src.ev is not None)
                if contested:
                    return ("inconclusive_single_runtime", f"source rejected by the other runtime on this input; ort: {cmp_ort} | ref: {cmp_ref}")
            return ("violation_not_executable", f"ort: {cmp_ort} | ref: {cmp_ref}")
        if len(comps) == 1:
            # only one runtime could execute the SOURCE model: a value difference on that runtime alone is not trusted
            # (undefined kernel behaviour such as reductions over empty tensors shows up exactly here)
            return ("inconclusive_single_runtime", f"ort: {cmp_ort} | ref: {cmp_ref}")
        # both runtimes ran M; each of them either differs on M' or cannot run M'
        why = _roundoff_through_discontinuity(src, new, feeds, scale, k, rel, abs_)
        if why:
            return ("inconclusive_discontinuity", why)
        return ("violation_values", f"ort: {cmp_ort} | ref: {cmp_ref} | input {_feeds_repr(feeds)}")
    return ("inconclusive_split", f"ort: {cmp_ort!r} | ref: {cmp_ref!r}")


DISCONTINUOUS = {"Ceil", "Floor", "Round", "Sign", "Equal", "Less", "Greater", "LessOrEqual", "GreaterOrEqual", "ArgMax", "ArgMin", "TopK", "Mod",
                 "IsInf", "IsNaN", "Hardmax", "Cast", "CastLike", "NonZero", "Where", "Not", "And", "Or", "Xor", "Unique", "OneHot", "Div", "Reciprocal",
                 "Log", "Sqrt", "Pow", "Tan", "If", "Loop", "Shrink", "ThresholdedRelu", "BitShift", "Trilu",
                 # ill-conditioned rather than discontinuous: a product multiplies the relative errors of its factors, and a factor that is
                 # the result of a cancellation has no relative accuracy at all
                 "ReduceProd"}


def _roundoff_through_discontinuity(src, new, feeds, scale, k, rel, abs_):
    """Both models ran on onnx.reference.  Walk M's main-graph nodes in order; if the FIRST value (kept under the same name in M')
    that differs beyond tolerance is the output of a discontinuous / ill-conditioned operator whose inputs agree within tolerance
    (but not exactly), the output difference is round-off amplified by that operator, not a semantic change."""
    if src.ev is None or new.ev is None or src.last_intermediates is None:
        return None
    r1 = src.last_intermediates
    r = execs.run_ref(None, feeds, new.ev, intermediate=True)
    if r[0] != "ok":
        return None
    r2 = r[2]
    for node in src.model.graph.node:
        for o in node.output:
            if o and o in r1 and o in r2:
                d = same_array(r1[o], r2[o], scale, k, rel, abs_) if not isinstance(r1[o], list) else None
                if d:
                    # (a pass-through node that the transformation removed hands its output NAME to its producer: judge that producer)
                    prod1 = {x: n for n in src.model.graph.node for x in n.output}
                    for _ in range(8):
                        if node.op_type not in ("Identity", "Dropout") or o != node.output[0] or not node.input or node.input[0] not in prod1:
                            break
                        node = prod1[node.input[0]]
                    if node.op_type not in DISCONTINUOUS:
                        return None
                    inexact = False
                    # the node that produces the same-named value in M' (its inputs may have been renamed by the transformation)
                    # (common-subexpression elimination leaves Identity(<the surviving twin>) under the old name: look through it)
                    prod2 = {x: n for n in new.model.graph.node for x in n.output}
                    n2 = prod2.get(o)
                    for _ in range(8):
                        if n2 is None or n2.op_type not in ("Identity", "Dropout") or not n2.input:
                            break
                        n2 = prod2.get(n2.input[0])
                    if n2 is None or n2.op_type != node.op_type or len(n2.input) != len(node.input):
                        return None
                    for x, x2 in zip(node.input, n2.input):
                        if not x and not x2:
                            continue
                        if x not in r1 or x2 not in r2 or isinstance(r1[x], list) or isinstance(r2[x2], list):
                            return None
                        if same_array(r1[x], r2[x2], scale, k, rel, abs_):
                            return None  # an input already differs beyond tolerance: not our first difference
                        a1, a2 = np.asarray(r1[x]), np.asarray(r2[x2])
                        if a1.shape != a2.shape or a1.dtype != a2.dtype or a1.tobytes() != a2.tobytes():
                            inexact = True  # includes -0.0 vs +0.0, which the comparison rule treats as equal
                    return f"first difference at {node.op_type} output '{o}' whose inputs agree only up to round-off" if inexact else None
    return None


def _feeds_repr(feeds):
    return {k: np.asarray(v).ravel()[:8].tolist() for k, v in feeds.items()}
