"""Sharding, seeds, budgets, evidence, VIOLATION / KNOWN-FINDING lines.

A property module (vf.props.Cxx) provides:
    ID, LEVEL ("exploration" | "fault_enumeration"), RULE (str), ASSUMPTIONS (list[str])
    plan(tier, seed, budget) -> list[dict]          picklable shard specs
    run_shard(spec) -> dict                          see Collector.result()
    replay(case) -> list[(bucket, detail)]           re-executes the oracle on one stored case
optional:
    REGIONS = {name: predicate(case) -> bool}        narrow regions of recorded findings
    FLOOR = {"quick": n, "thorough": n}              minimum distinct_nontrivial (vacuity guard)
    TIMEOUT = {"quick": s, "thorough": s}
    shrink(case, bucket) -> case                     structural minimisation (thorough tier)
    finalize(merged, tier) -> None                   cross-shard post-processing (may add violations)
"""
from __future__ import annotations

import concurrent.futures as cf
import hashlib
import importlib
import json
import multiprocessing as mp
import os
import re
import sys
import time
import traceback
from collections import Counter

HOME = os.environ.get("VERIF_HOME") or os.path.dirname(os.path.dirname(os.path.abspath(__file__)))
KNOWN_FILE = os.path.join(HOME, "known_findings.json")
OUT = os.environ.get("VERIF_OUT") or HOME  # development only: redirect evidence/replays of concurrent runs


# ----------------------------------------------------------------------------- collector
class Collector:
    """Accumulates verdicts inside one shard.  Never raises on a violation."""

    MAX_SAMPLES = 4
    MAX_PER_BUCKET = int(os.environ.get("VERIF_MAX_PER_BUCKET", "3"))  # development: raise it to dump many cases per bucket

    def __init__(self):
        self.evaluations = 0
        self.nontrivial = set()
        self.hist = Counter()
        self.skips = Counter()
        self.samples = []
        self.violations = {}  # bucket -> list of dict(detail, case, size)
        self.excluded = Counter()
        self.extra = {}

    def case(self, key, nontrivial, classes=(), sample=None, weight=1):
        """Record one executed case.  key: hashable/str identifying the case structurally."""
        self.evaluations += weight
        if nontrivial:
            h = hashlib.sha1(repr(key).encode()).hexdigest()[:16]
            if h not in self.nontrivial and sample is not None and len(self.samples) < self.MAX_SAMPLES:
                self.samples.append(sample)
            self.nontrivial.add(h)
        for c in classes:
            self.hist[c] += 1

    def skip(self, reason):
        self.skips[reason] += 1

    def exclude(self, finding):
        self.excluded[finding] += 1

    EARLY = None  # (module, known entries): set in the worker for modules whose region predicates are cheap structural scans

    def violation(self, bucket, detail, case, size=0):
        lst = self.violations.setdefault(bucket, [])
        v = {"detail": str(detail)[:2000], "case": case, "size": size}
        if Collector.EARLY is not None:
            # keep violations that no recorded finding covers ahead of attributed ones: a bucket that is mostly a known finding
            # must not crowd out a different failure of the same kind
            try:
                v["known"] = _attribute(Collector.EARLY[0], Collector.EARLY[1], bucket, case)
            except Exception:  # noqa: BLE001
                v["known"] = None
        lst.append(v)
        lst.sort(key=lambda v: (v.get("known") is not None, v["size"]))
        del lst[self.MAX_PER_BUCKET:]

    def result(self):
        from vf import hyp

        if hyp.TIMEOUTS[0]:
            self.skips["case_watchdog_timeout"] += hyp.TIMEOUTS[0]
            hyp.TIMEOUTS[0] = 0
        if hyp.TIMEOUT_WHERE:
            self.extra["watchdog_where"] = list(hyp.TIMEOUT_WHERE[:5])
            del hyp.TIMEOUT_WHERE[:]
        return {
            "evaluations": self.evaluations,
            "nontrivial": sorted(self.nontrivial),
            "hist": dict(self.hist),
            "skips": dict(self.skips),
            "samples": self.samples,
            "violations": self.violations,
            "excluded": dict(self.excluded),
            "extra": self.extra,
        }


def shard_seed(seed: int, shard: int, salt: str = "") -> int:
    h = hashlib.sha256(f"{seed}:{shard}:{salt}".encode()).digest()
    return int.from_bytes(h[:8], "big") >> 1


# ----------------------------------------------------------------------------- workers
def _worker(modname, spec):
    t0 = time.time()
    try:
        mod = importlib.import_module(modname)
        if getattr(mod, "EARLY_ATTRIBUTION", False) and not os.environ.get("VERIF_NO_KNOWN"):
            Collector.EARLY = (mod, load_known(mod.ID))
        res = mod.run_shard(spec)
        res["wall_s"] = time.time() - t0
        return res
    except BaseException:
        return {"harness_error": traceback.format_exc(), "spec": {k: v for k, v in spec.items() if k != "payload"}}


def _init_worker():
    # keep workers quiet and single-threaded
    os.environ.setdefault("OMP_NUM_THREADS", "1")
    import logging
    import warnings

    warnings.filterwarnings("ignore")
    logging.disable(logging.WARNING)
    deps = os.path.join(HOME, ".deps")
    if os.path.isdir(deps) and deps not in sys.path:
        sys.path.append(deps)
    _single_threaded_ort()


def _single_threaded_ort():
    """onnxscript's eager evaluator creates one onnxruntime session per operator call with default options, i.e. a thread pool as wide as
    the machine in each of the 16 workers.  Give sessions created without explicit options single-threaded, quiet options (no change of
    semantics: only the number of threads and the log level)."""
    try:
        import onnxruntime as ort
    except Exception:  # noqa: BLE001
        return
    if getattr(ort.InferenceSession, "_verif_patched", False):
        return
    orig = ort.InferenceSession.__init__

    def init(self, path_or_bytes, sess_options=None, *args, **kwargs):
        if sess_options is None:
            sess_options = ort.SessionOptions()
            sess_options.intra_op_num_threads = 1
            sess_options.inter_op_num_threads = 1
            sess_options.log_severity_level = 4
        return orig(self, path_or_bytes, sess_options, *args, **kwargs)

    ort.InferenceSession.__init__ = init
    ort.InferenceSession._verif_patched = True


def run_shards(modname, specs, jobs, timeout):
    jobs = jobs or min(16, os.cpu_count() or 1, max(1, len(specs)))
    results, errors = [], []
    if jobs == 1 or len(specs) == 1 and os.environ.get("VERIF_INPROC"):
        _init_worker()
        for s in specs:
            r = _worker(modname, s)
            (errors if "harness_error" in r else results).append(r)
        return results, errors, False
    ctx = mp.get_context("spawn")
    timed_out = False
    deadline = time.time() + timeout
    died = []

    def run_pool(batch, workers):
        nonlocal timed_out
        ex = cf.ProcessPoolExecutor(max_workers=workers, mp_context=ctx, initializer=_init_worker)
        try:
            futs = [(ex.submit(_worker, modname, s), s) for s in batch]
            for f, s in futs:
                left = deadline - time.time()
                try:
                    r = f.result(timeout=max(0.1, left))
                except cf.TimeoutError:
                    timed_out = True
                    break
                except BaseException as e:  # a worker process died (a native crash inside a library): the pool is broken
                    died.append((s, repr(e)))
                    continue
                (errors if "harness_error" in r else results).append(r)
        finally:
            if timed_out:
                for p in list(getattr(ex, "_processes", {}).values()):
                    try:
                        p.terminate()
                    except Exception:
                        pass
            ex.shutdown(wait=not timed_out, cancel_futures=True)

    run_pool(specs, jobs)
    # One dying worker breaks the whole pool: run the shards that were lost again, each in a pool of its own; a shard that kills its
    # worker a second time is retried once with a shifted seed (the crashing case is a pure function of the seed) and counted.
    for attempt in (1, 2):
        if not died or timed_out:
            break
        again, died[:] = [s for s, _ in died], []
        for s in again:
            s = dict(s)
            if attempt == 2:
                s["seed"] = int(s.get("seed", 0)) + 1000003
                s["reseeded_after_worker_death"] = True
            n_before = len(results)
            run_pool([s], 1)
            if attempt == 2 and len(results) > n_before:
                results[-1].setdefault("extra", {})["shards_reseeded_after_worker_death"] = 1
    for s, why in died:
        errors.append({"harness_error": f"worker died twice on shard {str({k: v for k, v in s.items() if k != 'payload'})[:300]}: {why}"})
    return results, errors, timed_out


# ----------------------------------------------------------------------------- known findings
def load_known(pid):
    if not os.path.exists(KNOWN_FILE):
        return []
    with open(KNOWN_FILE) as f:
        data = json.load(f)
    return [e for e in data.get("findings", []) if pid in e.get("properties", [e.get("property")])]


def _attribute(mod, known, bucket, case):
    """Return the id of the known finding this violation belongs to, else None.
    Both the bucket pattern and the region predicate (a structural scan of the case) must hold."""
    regions = getattr(mod, "REGIONS", {})
    for e in known:
        if e.get("status") != "known":
            continue
        if not re.fullmatch(e["bucket"], bucket):
            continue
        pred = regions.get(e.get("region"))
        if pred is None:
            continue  # no predicate available for this property -> never attribute blindly
        try:
            if pred(case):
                return e["id"]
        except Exception:
            continue
    return None


def _attribute_bucket(modname, known, bucket, cases):
    """(ids of the findings the leading cases belong to, index of the first case no finding covers or None)."""
    mod = importlib.import_module(modname)
    kids = []
    for i, case in enumerate(cases):
        kid = _attribute(mod, known, bucket, case)
        if kid:
            kids.append(kid)
        else:
            return kids, i
    return kids, None


def _attribute_buckets(mod, known, work, jobs):
    if len(work) < 8 or os.environ.get("VERIF_INPROC"):
        return [_attribute_bucket(mod.__name__, known, b, [v["case"] for v in lst]) for b, lst in work]
    import concurrent.futures as cf
    import multiprocessing as mp

    out = [None] * len(work)
    try:
        with cf.ProcessPoolExecutor(max_workers=jobs or min(16, os.cpu_count() or 1), mp_context=mp.get_context("spawn"), initializer=_init_worker) as ex:
            futs = {ex.submit(_attribute_bucket, mod.__name__, known, b, [v["case"] for v in lst]): i for i, (b, lst) in enumerate(work)}
            for f in cf.as_completed(futs):
                try:
                    out[futs[f]] = f.result()
                except Exception:  # noqa: BLE001  (a worker died: decide that bucket here)
                    out[futs[f]] = None
    except Exception:  # noqa: BLE001
        traceback.print_exc()
    for i, (b, lst) in enumerate(work):
        if out[i] is None:
            out[i] = _attribute_bucket(mod.__name__, known, b, [v["case"] for v in lst])
    return out


def _load_case(path):
    if not os.path.isabs(path):
        path = os.path.join(HOME, path)
    with open(path) as f:
        return json.load(f)


def _write_replay(pid, bucket, case, detail):
    d = os.path.join(OUT, "replays", pid)
    os.makedirs(d, exist_ok=True)
    name = re.sub(r"[^A-Za-z0-9_.-]+", "_", bucket)[:80] + "-" + hashlib.sha1(
        json.dumps(case, sort_keys=True, default=str).encode()).hexdigest()[:8] + ".json"
    path = os.path.join(d, name)
    with open(path, "w") as f:
        json.dump({"property": pid, "bucket": bucket, "detail": detail, "case": case}, f, indent=1, default=str)
    return path


def replay_file(pid, path):
    mod = importlib.import_module(f"vf.props.{pid}")
    _init_worker()
    data = _load_case(path)
    verdicts = mod.replay(data["case"])
    if verdicts:
        for b, d in verdicts:
            print(f"replay bucket={b} detail={str(d)[:500]}")
        print(f"VIOLATION property={pid} replay={path}", flush=True)
        return 1
    print(f"replay of {path}: property holds on this case")
    return 0


# ----------------------------------------------------------------------------- main driver
def run_property(pid, tier, budget=1.0, jobs=0, use_known=True):
    t0 = time.time()
    seed = int(os.environ.get("VERIF_SEED", "1") or "1")
    mod = importlib.import_module(f"vf.props.{pid}")
    known = load_known(pid) if use_known else []
    if not use_known:
        os.environ["VERIF_NO_KNOWN"] = "1"
    lines, exit_code = [], 0
    new_violations = 0

    # 1. replay committed known / fixed findings (plain regression checks, no Hypothesis)
    _init_worker()
    known_status = {}
    for e in known:
        try:
            data = _load_case(e["replay"])
            verdicts = mod.replay(data["case"])
        except Exception:
            traceback.print_exc()
            print(f"HARNESS-ERROR replay of {e['id']} failed to execute")
            return 2
        hit = [b for b, _ in verdicts if re.fullmatch(e["bucket"], b)]
        # other buckets on the same replay are fine if another recorded finding of this property covers them
        other = [(b, d) for b, d in verdicts if not re.fullmatch(e["bucket"], b) and (e["status"] != "known" or not _attribute(mod, known, b, data["case"]))]
        if e["status"] == "known":
            if hit:
                print(f"KNOWN-FINDING: property={pid} {e['id']}: {e['what']}", flush=True)
                known_status[e["id"]] = "reproduces"
            else:
                print(f"note: known finding {e['id']} no longer reproduces on this tree")
                known_status[e["id"]] = "not reproduced"
            verdicts = other
        if verdicts:  # fixed entry failing again, or a different bucket on a known replay
            for b, d in verdicts:
                print(f"  bucket={b} detail={str(d)[:300]}")
            print(f"VIOLATION property={pid} replay={e['replay']}", flush=True)
            new_violations += 1
            exit_code = 1

    # 2. generated search
    specs = mod.plan(tier, seed, budget)
    for i, s in enumerate(specs):
        s.setdefault("shard", i)
        s.setdefault("tier", tier)
        s.setdefault("seed", shard_seed(seed, s["shard"], pid))
        s["known_ids"] = [e["id"] for e in known if e.get("status") == "known"]
    timeout = getattr(mod, "TIMEOUT", {}).get(tier, 1500 if tier == "quick" else 6 * 3600)
    results, errors, timed_out = run_shards(mod.__name__, specs, jobs, timeout)

    merged = {"evaluations": 0, "nontrivial": set(), "hist": Counter(), "skips": Counter(),
              "samples": [], "violations": {}, "excluded": Counter(), "extra": {}, "shard_wall": []}
    for r in results:
        merged["evaluations"] += r["evaluations"]
        merged["nontrivial"].update(r["nontrivial"])
        merged["hist"].update(r["hist"])
        merged["skips"].update(r["skips"])
        merged["excluded"].update(r["excluded"])
        merged["shard_wall"].append(round(r.get("wall_s", 0), 1))
        for s in r["samples"]:
            if len(merged["samples"]) < 6:
                merged["samples"].append(s)
        for b, lst in r["violations"].items():
            merged["violations"].setdefault(b, []).extend(lst)
        for k, v in r.get("extra", {}).items():
            if isinstance(v, (int, float)) and not isinstance(v, bool):
                merged["extra"][k] = merged["extra"].get(k, 0) + v
            elif isinstance(v, list):
                merged["extra"].setdefault(k, []).extend(v)
            elif isinstance(v, dict):
                d = merged["extra"].setdefault(k, {})
                for kk, vv in v.items():
                    d[kk] = d.get(kk, 0) + vv if isinstance(vv, (int, float)) else vv
            else:
                merged["extra"][k] = v
    if hasattr(mod, "finalize"):
        mod.finalize(merged, tier)

    dump = os.environ.get("VERIF_DUMP_ALL")  # development: write every collected violating case
    if dump:
        os.makedirs(dump, exist_ok=True)
        k = 0
        for bucket, lst in merged["violations"].items():
            for v in lst:
                k += 1
                with open(os.path.join(dump, f"{pid}-{k:05d}.json"), "w") as f:
                    json.dump({"property": pid, "bucket": bucket, "detail": v["detail"], "size": v["size"], "case": v["case"]}, f, default=str)
    attributed = Counter()
    reported = []
    cap = getattr(mod, "ATTRIBUTION_CAP", 6)  # region predicates may re-execute the case: examine the smallest few per bucket
    work = []
    for bucket in sorted(merged["violations"]):
        lst = sorted(merged["violations"][bucket], key=lambda v: (v.get("known") is not None, v["size"]))
        work.append((bucket, lst[:cap]))
    # attribution is independent per bucket; predicates that re-execute rule units cost seconds per case, so large runs spread the buckets
    outcomes = _attribute_buckets(mod, known, work, jobs)
    for (bucket, lst), (kids, fresh_i) in zip(work, outcomes):
        for kid in kids:
            attributed[kid] += 1
        if fresh_i is None:
            continue
        v = lst[fresh_i]
        case = v["case"]
        if tier == "thorough" and hasattr(mod, "shrink"):
            try:
                case = mod.shrink(case, bucket)
            except Exception:
                traceback.print_exc()
        path = _write_replay(pid, bucket, case, v["detail"])
        print(f"  bucket={bucket} detail={v['detail'][:400]}")
        print(f"VIOLATION property={pid} replay={path}", flush=True)
        reported.append({"bucket": bucket, "replay": path, "detail": v["detail"][:400]})
        new_violations += 1
        exit_code = 1

    # 3. evidence
    dn = len(merged["nontrivial"])
    floor = int(getattr(mod, "FLOOR", {}).get(tier, 2) * min(1.0, budget))  # (--budget is a development flag; the vacuity floor scales with it)
    wall = time.time() - t0
    cov = {
        "evaluations": int(merged["evaluations"]),
        "distinct_nontrivial": int(dn),
        "rule": mod.RULE,
        "samples": merged["samples"] or ["<no non-trivial sample recorded>"],
        "class_histogram": dict(sorted(merged["hist"].items())),
        "skipped": dict(sorted(merged["skips"].items())),
        "excluded_by_known_findings": dict(merged["excluded"]),
        "attributed_to_known_findings": dict(attributed),
        "known_findings_replayed": known_status,
        "shards": len(specs),
        "shards_completed": len(results),
        "shard_wall_s": merged["shard_wall"],
        "new_violation_buckets": reported,
        "harness_errors": len(errors),
        "timed_out": timed_out,
        "budget_multiplier": budget,
    }
    cov.update({k: v for k, v in merged["extra"].items() if k not in cov})
    if getattr(mod, "EXHAUSTIVE", None) and not timed_out and not errors:
        cov["exhaustive"] = bool(merged["extra"].get("exhaustive_complete", True))
    ev = {
        "property_id": pid, "tier": tier, "seed": seed, "level": mod.LEVEL, "coverage": cov,
        "assumptions": list(mod.ASSUMPTIONS), "wall_s": round(wall, 2), "violations": new_violations,
    }
    os.makedirs(os.path.join(OUT, "evidence"), exist_ok=True)
    with open(os.path.join(OUT, "evidence", f"{pid}.json"), "w") as f:
        json.dump(ev, f, indent=1, default=str, sort_keys=True)

    print(f"{pid} tier={tier} seed={seed} evaluations={cov['evaluations']} distinct_nontrivial={dn} "
          f"violations={new_violations} attributed_known={sum(attributed.values())} wall={wall:.1f}s")
    if errors:
        for e in errors[:3]:
            print(e["harness_error"][-3000:])
        print(f"HARNESS-ERROR property={pid}: {len(errors)} shard(s) failed")
        return 1 if exit_code == 1 else 2
    if exit_code == 1:
        return 1
    if timed_out:
        print(f"INCONCLUSIVE property={pid}: time budget exhausted before all shards finished")
        return 2
    if dn < floor:
        print(f"HARNESS-ERROR property={pid}: only {dn} distinct non-trivial cases (<{floor}); generator rotted")
        return 2
    return 0
