"""File-system call recorder / fault injector (used by C20).

`FaultFS(root, ...)` is a context manager.  While active it replaces builtins.open / io.open and the path- and
fd-level functions of `os` that create, write, rename or delete files.  Every such call that touches a path below
`root` (the scratch directory of one case) is an *event*: it is appended to `fs.log` and, when its 1-based index is the
chosen fault index, it raises `OSError(errno)` instead of being executed.  Files opened below `root` are handed out as
proxy objects so that write/read/flush/seek/tell/truncate/fileno/close on them are events too.  Calls on paths outside
`root` (imports, linecache, tqdm, ...) go straight through and are not events, so the event sequence is a pure
function of what the code under test does to the scratch directory.

Independent completeness check: a process-wide audit hook (sys.addaudithook; cannot be removed, so it is gated by a
flag) records the interpreter's own "open"/"os.rename"/"os.remove"/... audit events below `root` while a FaultFS is
active.  `fs.unpatched()` lists audited events that did not come through the patch layer (e.g. a module holding
`from os import replace`, or C code opening a file by name) - the fault enumeration is exhaustive over Python-level
file-system calls only if that list is empty.

Everything is restored in __exit__ (also on exceptions); files the code under test left open are closed there and
counted in `fs.leaked`.
"""
from __future__ import annotations

import builtins
import errno as _errno
import io
import os
import sys

ERRNOS = {"ENOSPC": _errno.ENOSPC, "EIO": _errno.EIO, "EACCES": _errno.EACCES}

# path-level os functions: name -> indices of the path arguments
_OS_PATH_FUNCS = {
    "replace": (0, 1), "rename": (0, 1), "remove": (0,), "unlink": (0,), "mkdir": (0,), "makedirs": (0,),
    "rmdir": (0,), "removedirs": (0,), "truncate": (0,), "link": (0, 1), "symlink": (0, 1), "chmod": (0,),
    "utime": (0,), "mkfifo": (0,),
}
_OS_FD_FUNCS = ("write", "writev", "pwrite", "fsync", "fdatasync", "ftruncate", "close", "read")

# audit events that mean "the file system below root is being opened for use / modified"
_AUDIT_EVENTS = {"open", "os.rename", "os.remove", "os.mkdir", "os.rmdir", "os.truncate", "os.link", "os.symlink",
                 "os.chmod", "os.utime", "shutil.copyfile", "shutil.move", "shutil.rmtree", "tempfile.mkstemp",
                 "tempfile.mkdtemp"}
_active = []  # stack of active FaultFS objects (audit hook target)
_hook_installed = False


def _audit(event, args):
    if not _active or event not in _AUDIT_EVENTS:
        return
    fs = _active[-1]
    if fs._in_audit:
        return
    fs._in_audit = True
    try:
        for a in args[:1 if event in ("open", "os.remove", "os.mkdir", "os.rmdir", "os.truncate", "os.chmod", "os.utime") else 2]:
            if isinstance(a, (str, bytes, os.PathLike)) and fs._under_root(a):
                fs.audit_log.append((event, fs._rel(a)))
                break
    except Exception:  # an audit hook must never break the program
        pass
    finally:
        fs._in_audit = False


def _install_hook():
    global _hook_installed
    if not _hook_installed:
        sys.addaudithook(_audit)
        _hook_installed = True


class InjectedFault(OSError):
    """The OSError raised at the fault point (a real OSError subclass, so `except OSError` sees it)."""


class _FileProxy:
    """Delegating wrapper around a real file object; every I/O method is an event."""

    def __init__(self, fs, real, path, mode):
        object.__setattr__(self, "_fs", fs)
        object.__setattr__(self, "_real", real)
        object.__setattr__(self, "_path", path)
        object.__setattr__(self, "_mode", mode)

    # -- events
    def _ev(self, op, info=None):
        self._fs._event(op, self._path, info)

    def write(self, data):
        try:
            n = len(data)
        except TypeError:
            n = memoryview(data).nbytes
        self._ev("write", n)
        return self._real.write(data)

    def writelines(self, lines):
        lines = list(lines)
        self._ev("writelines", len(lines))
        return self._real.writelines(lines)

    def read(self, *a):
        self._ev("read", a[0] if a else -1)
        return self._real.read(*a)

    def readinto(self, b):
        self._ev("readinto", len(b))
        return self._real.readinto(b)

    def readline(self, *a):
        self._ev("readline")
        return self._real.readline(*a)

    def flush(self):
        self._ev("flush")
        return self._real.flush()

    def seek(self, *a):
        self._ev("seek", list(a))
        return self._real.seek(*a)

    def tell(self):
        self._ev("tell")
        return self._real.tell()

    def truncate(self, *a):
        self._ev("truncate", list(a))
        return self._real.truncate(*a)

    def fileno(self):
        if self._fs.hide_fileno and any(c in self._mode for c in "wax+"):
            raise io.UnsupportedOperation("fileno")
        self._ev("fileno")
        return self._real.fileno()

    def close(self):
        if self._real.closed:
            return None
        try:
            self._ev("close")
        except OSError:
            # a failing close() still releases the descriptor
            try:
                self._real.close()
            except OSError:
                pass
            raise
        return self._real.close()

    # -- protocol plumbing (not events)
    def __enter__(self):
        return self

    def __exit__(self, *exc):
        self.close()
        return False

    def __iter__(self):
        return iter(self._real)

    def __getattr__(self, name):
        return getattr(self._real, name)

    def __setattr__(self, name, value):
        setattr(self._real, name, value)

    def __repr__(self):
        return f"<FaultFS proxy of {self._real!r}>"


class FaultFS:
    def __init__(self, root, fail_at=None, errno_name="ENOSPC", sticky=False, hide_fileno=False):
        self.root = os.path.realpath(root)
        self.fail_at = fail_at  # 1-based event index, None = record only
        self.errno_name = errno_name
        self.sticky = sticky  # every event from fail_at on fails (disk stays full / device stays gone)
        self.hide_fileno = hide_fileno  # files report no descriptor -> writers must use .write()
        self.log = []  # [op, relpath, info]
        self.audit_log = []
        self.patched_audit = []  # audit-shaped record of what came through the patch layer
        self.fired = []  # event indices at which a fault was raised
        self.leaked = 0
        self._files = []
        self._fds = {}
        self._saved = []
        self._in_audit = False
        self._cwd = os.getcwd()

    # -- paths
    def _abs(self, p):
        p = os.fspath(p)
        if isinstance(p, bytes):
            p = os.fsdecode(p)
        return os.path.normpath(os.path.join(os.getcwd(), p))

    def _under_root(self, p):
        try:
            a = self._abs(p)
        except TypeError:
            return False
        if a == self.root or a.startswith(self.root + os.sep):
            return True
        d = os.path.dirname(a)
        try:
            r = os.path.join(os.path.realpath(d), os.path.basename(a))
        except OSError:
            return False
        return r == self.root or r.startswith(self.root + os.sep)

    def _rel(self, p):
        a = self._abs(p)
        if not (a == self.root or a.startswith(self.root + os.sep)):
            a = os.path.join(os.path.realpath(os.path.dirname(a)), os.path.basename(a))
        return os.path.relpath(a, self.root)

    # -- the single choke point
    def _event(self, op, path, info=None):
        self.log.append([op, path, info])
        k = len(self.log)
        if self.fail_at is not None and (k == self.fail_at or (self.sticky and k > self.fail_at)):
            self.fired.append(k)
            code = ERRNOS[self.errno_name]
            raise InjectedFault(code, f"injected {self.errno_name} at fs call #{k} ({op})", path)

    # -- patched functions
    def _open(self, file, mode="r", *args, **kwargs):
        if isinstance(file, int):
            if file in self._fds:
                rel = self._fds.pop(file)
                self._event("fdopen", rel, mode)
                real = self._real_open(file, mode, *args, **kwargs)
                prox = _FileProxy(self, real, rel, mode)
                self._files.append(prox)
                return prox
            return self._real_open(file, mode, *args, **kwargs)
        if not self._under_root(file):
            return self._real_open(file, mode, *args, **kwargs)
        rel = self._rel(file)
        self.patched_audit.append(("open", rel))
        self._event("open", rel, mode)
        real = self._real_open(file, mode, *args, **kwargs)
        prox = _FileProxy(self, real, rel, mode)
        self._files.append(prox)
        return prox

    def _make_path_func(self, name, real, idxs):
        audit_name = {"replace": "os.rename", "rename": "os.rename", "remove": "os.remove", "unlink": "os.remove",
                      "mkdir": "os.mkdir", "rmdir": "os.rmdir", "truncate": "os.truncate", "link": "os.link",
                      "symlink": "os.symlink", "chmod": "os.chmod", "utime": "os.utime"}.get(name)

        def f(*args, **kwargs):
            paths = [args[i] for i in idxs if i < len(args) and isinstance(args[i], (str, bytes, os.PathLike))]
            hit = [p for p in paths if self._under_root(p)]
            if not hit:
                return real(*args, **kwargs)
            rel = self._rel(hit[0])
            if audit_name:
                self.patched_audit.append((audit_name, self._rel(paths[0]) if self._under_root(paths[0]) else rel))
            self._event("os." + name, rel, None)
            return real(*args, **kwargs)

        f.__name__ = name
        return f

    def _os_open(self, path, flags, *args, **kwargs):
        if not isinstance(path, (str, bytes, os.PathLike)) or not self._under_root(path):
            return self._real_os_open(path, flags, *args, **kwargs)
        rel = self._rel(path)
        self.patched_audit.append(("open", rel))
        self._event("os.open", rel, flags)
        fd = self._real_os_open(path, flags, *args, **kwargs)
        self._fds[fd] = rel
        return fd

    def _make_fd_func(self, name, real):
        def f(fd, *args, **kwargs):
            if fd in self._fds:
                rel = self._fds[fd]
                if name == "close":
                    del self._fds[fd]
                    try:
                        self._event("os.close", rel, None)
                    except OSError:
                        try:
                            real(fd)
                        except OSError:
                            pass
                        raise
                else:
                    self._event("os." + name, rel, None)
            return real(fd, *args, **kwargs)

        f.__name__ = name
        return f

    # -- context manager
    def _patch(self, obj, name, new):
        self._saved.append((obj, name, getattr(obj, name)))
        setattr(obj, name, new)

    def __enter__(self):
        _install_hook()
        self._real_open = builtins.open
        self._real_os_open = os.open
        try:
            self._patch(builtins, "open", self._open)
            self._patch(io, "open", self._open)
            self._patch(os, "open", self._os_open)
            for name, idxs in _OS_PATH_FUNCS.items():
                if hasattr(os, name):
                    self._patch(os, name, self._make_path_func(name, getattr(os, name), idxs))
            for name in _OS_FD_FUNCS:
                if hasattr(os, name):
                    self._patch(os, name, self._make_fd_func(name, getattr(os, name)))
        except BaseException:
            self._restore()
            raise
        _active.append(self)
        return self

    def _restore(self):
        while self._saved:
            obj, name, old = self._saved.pop()
            setattr(obj, name, old)

    def __exit__(self, *exc):
        if _active and _active[-1] is self:
            _active.pop()
        elif self in _active:
            _active.remove(self)
        self._restore()
        for p in self._files:
            try:
                if not p._real.closed:
                    self.leaked += 1
                    p._real.close()
            except Exception:
                pass
        for fd in list(self._fds):
            self.leaked += 1
            try:
                os.close(fd)
            except OSError:
                pass
        self._fds.clear()
        return False

    # -- reporting
    def unpatched(self):
        """Audited file-system events below root that did not pass through the patch layer."""
        from collections import Counter

        a, p = Counter(self.audit_log), Counter(self.patched_audit)
        return sorted((a - p).elements())

    def brief(self, limit=60):
        return [f"{op} {path}" + (f" {info}" if info not in (None, []) else "") for op, path, info in self.log[:limit]]


def patches_active():
    """True if any FaultFS patch is still installed (leak detector for the harness)."""
    return bool(_active) or getattr(builtins.open, "__self__", None).__class__ is FaultFS or \
        getattr(io.open, "__self__", None).__class__ is FaultFS or getattr(os.open, "__self__", None).__class__ is FaultFS
