"""Command line:  python -m vf.main <Cxx> [--tier quick|thorough] [--replay file] [--budget f]

Exit codes: 0 = property held on everything explored (known findings are printed as
KNOWN-FINDING lines), 1 = at least one VIOLATION line printed, 2 = harness error /
inconclusive (never a violation).
"""
from __future__ import annotations

import argparse
import os
import sys
import traceback

HOME = os.environ.get("VERIF_HOME") or os.path.dirname(os.path.dirname(os.path.abspath(__file__)))
_deps = os.path.join(HOME, ".deps")
if os.path.isdir(_deps) and _deps not in sys.path:
    sys.path.append(_deps)  # behind site-packages on purpose


def main(argv=None) -> int:
    ap = argparse.ArgumentParser()
    ap.add_argument("property")
    ap.add_argument("--tier", default=os.environ.get("VERIF_TIER", "quick"), choices=["quick", "thorough"])
    ap.add_argument("--replay", default=None)
    ap.add_argument("--budget", type=float, default=float(os.environ.get("VERIF_BUDGET", "1.0")),
                    help="multiplier on case counts (development only)")
    ap.add_argument("--jobs", type=int, default=int(os.environ.get("VERIF_JOBS", "0")))
    ap.add_argument("--no-known", action="store_true", help="do not attribute to known findings (development)")
    args = ap.parse_args(argv)
    from vf import runner

    try:
        if args.replay:
            return runner.replay_file(args.property, args.replay)
        return runner.run_property(args.property, args.tier, budget=args.budget, jobs=args.jobs,
                                   use_known=not args.no_known)
    except SystemExit:
        raise
    except BaseException:  # harness error: never a VIOLATION
        traceback.print_exc()
        print(f"HARNESS-ERROR property={args.property}", flush=True)
        return 2


if __name__ == "__main__":
    sys.exit(main())
