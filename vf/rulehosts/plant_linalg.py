"""Hosts for the MatMul / Gemm / BatchNormalization / HardSwish rules of rules/common.

one_reshape_matmul_reshape_rule, two_reshapes_matmul_reshape_rule  (_broadcast_to_matmul.py)
  Reshape(MatMul(Reshape(a,sa), Reshape(b,sb) | b), sc).
  Drawn: dtype float32/float64/float16/int32/int64; a, b ranks 1-4 with dims 1-3 (broadcast-compatible pair or two
  independent shapes); EVERY reshape target sa (and sb) of rank 1-4 with the same total size for which the MatMul is
  valid (so also targets that permute / split / merge batch dims, insert 1s, change the contracted dim), biased to
  those whose MatMul output has the size of MatMul(a,b); sc = shape of MatMul(a,b) (instance), the same with one -1 or
  with 0 (copy) entries, another factorisation of the same size, non-constant (Shape of an input / int64 graph input);
  shape tensors as Constant(value / value_ints) / initializer / overridable initializer, entries -1 and 0, allowzero
  attribute (opset >= 14); a, b as static graph input, input with a symbolic or unknown dim, initializer/Constant,
  or intermediate (Identity/Neg of an input: shape only via value_info); extra consumers of Reshape(a) / MatMul.
  NOT enumerated: dims > 3 in a/b, rank > 4, zero-size dims, bfloat16, uint dtypes, 2-D shape tensors (invalid ONNX).

gemm_to_matmul_add_rule  (_gemm_to_matmul_add.py)
  Reshape(Gemm(Reshape(a,sa), b, c, alpha, beta, transA, transB), sc).
  Drawn: dtype float32/float64/float16/int32/int64; a rank 1-4 dims 1-3; sa every 2-D factorisation of size(a)
  (natural [prod(a[:-1]), a[-1]] favoured); transA/transB absent/0/1; alpha, beta absent / 1.0 / 1+1e-7 / 0.5 / 2.0;
  C absent or of shape [], [1], [N], [1,N], [M,N], [M,1], [1,1]; b and c as input / initializer / Constant /
  overridable initializer / symbolic input; sc = the shape the rule expects (instance), -1/0 variants, other
  factorisation, non-constant; allowzero; extra consumer of the Gemm output.
  NOT enumerated: bfloat16/uint, Gemm opset < 13, zero-size dims.

matmul_add_to_gemm_rule, transpose_a_/transpose_b_/transpose_ab_matmul_add_to_gemm_rule  (_matmul_add_to_gemm.py)
  Add(MatMul([Transpose](a), [Transpose](b)), c)  (either operand order of Add).
  Drawn: dtype float32/float64/float16/int32/int64; a, b rank 2 (instance), rank 1 / rank 3 (near-miss); dims 1-3;
  Transpose with perm=[1,0], without perm, perm=[0,1] (identity; operand shapes chosen so the MatMul stays valid),
  rank-3 perm; c of rank 0-3: [], [1], [N], [1,N], [M,N], [M,1], [1,1], [1,M,N], [2,M,N], [1,1,N], [1,1,1], and shapes
  that broadcast the MatMul result *up* ([3,N] when M==1, [M,3] when N==1); a, b, c as static input / symbolic
  input / unknown-dim input / initializer / Constant / overridable initializer / intermediate; extra consumers of the
  MatMul / Transpose outputs.  Each of the four rules gets the same host with its own Transpose form favoured (85 %).
  NOT enumerated: bfloat16/uint, rank > 3 operands, zero-size dims.

fuse_batchnorm_into_gemm_rule  (_fuse_batchnorm.py, Gemm only)
  BatchNormalization(Gemm(x, w, [c]), scale, B, mean, var).
  Drawn: dtype float32/float64 (float16 rarely); M,K,N in 1-3; Gemm alpha/beta absent or 0.5/2.0/-1.0/0.0/1.0,
  transA/transB absent/0/1; C absent / trailing-empty / [], [1], [N], [1,N], [M,N], [M,1]; epsilon absent / 1e-5 / 1e-3 / 0.1
  / 1.0; momentum; training_mode absent/0/1 (opset >= 14; with 1 the node has its 3 mandatory outputs, the two
  running statistics left unused); opset 14..23 and rarely (5 %) 9/11/12/13 (onnx.reference evaluates
  BatchNormalization-9 with batch statistics, so the runtimes disagree on the SOURCE there and the oracle is silent);
  var positive / tiny / zero; each of w, c, scale, B, mean, var as initializer (instance) or Constant node /
  overridable initializer-input / plain graph input (near-misses); w or c shared with another node; BN params
  shared between themselves (c is mean, scale is var); extra consumer of the Gemm output; x as input / symbolic input /
  intermediate; mean/var of another float type at opset >= 15 (T2).
  NOT enumerated: consumed running_mean/running_var outputs, opset < 9 (spatial attr), bfloat16, negative variance
  (NaN on purpose).

remove_optional_bias_from_gemm_rule  (_remove_optional_bias.py, Gemm only)
  Gemm(x, w, b).
  Drawn: opset 9/10 (C mandatory), 11/12, 13..23; dtype float32/float64/float16/int32/int64; M,K,N 1-3;
  alpha/beta/transA/transB; b shape [], [1], [N], [1,N], [M,N], [M,1], [1,1]; b values all +0, all -0.0, mixed
  +-0, tiny (1e-30 / 1e-9 / denormal), one non-zero element, generic; b as Constant / initializer / overridable
  initializer-input / constant-foldable Identity(initializer) / graph input whose sample is zero (non-constant).
  NOT enumerated: bfloat16/uint, b absent (pattern needs 3 inputs; covered by the BN planter's Gemm).

fuse_hardswish_rules  (_fuse_hardswish.py)
  Div(Mul(Clip(Add(x,3),0,6), x), 6); Div(Clip(Add(x,3),0,6), 6) [optionally followed by Mul(.,x)];
  Mul(HardSigmoid(x, alpha, beta), x).
  Drawn: opset 13 (HardSwish absent) vs >= 14 vs 11/12; dtype float32/float64/float16 and (opset >= 12, Clip forms
  only) int32/int64; x rank 0-3, graph input or Identity(input); every operand order of Add / Mul; ONE structural
  near-miss at a time (Clip without max / without min, Div reversed, Mul by a different operand); the four constants
  (bias 3, min 0, max 6, divisor 6) are exact scalar true constants in ~60 % of the hosts, otherwise one or two of
  them deviate in ONE property: value (relative offset 5e-5 / 9e-5 = inside rtol, 2e-4 = outside, other; for min:
  -0.0 / 1e-9 / -1e-6 / other), singleton shape [1], [1,1], rank(x)+1 ones (Clip bounds only [1]: larger ranks make
  the host invalid), provenance overridable initializer / graph input; HardSigmoid alpha absent / float32(1/6) /
  0.1666667 / python 1/6 / 0.16666 / 0.1667 / 0.2, beta absent / 0.5 / 0.50001 / 0.6; extra consumers.
  NOT enumerated: bfloat16, Clip attribute form (opset < 11), x of rank > 3.
"""
from __future__ import annotations

from functools import lru_cache

import numpy as np

from vf.hyp import st
from vf.modelgen import F16, F32, F64, I32, I64, make_array
from vf.rulehosts.plant import register

DIMS = [1, 2, 2, 3, 3]


# ------------------------------------------------------------------------------------------------ helpers
def _prod(s):
    n = 1
    for d in s:
        n *= int(d)
    return n


@lru_cache(maxsize=None)
def _fact(size, max_rank=4, min_rank=1):
    """All shapes of rank min_rank..max_rank (dims >= 1) with the given total size."""
    res = []

    def rec(rem, pref):
        if len(pref) >= min_rank and rem == 1:
            res.append(tuple(pref))
        if len(pref) < max_rank:
            for d in range(1, rem + 1):
                if rem % d == 0:
                    rec(rem // d, pref + [d])

    rec(size, [])
    return tuple(sorted(set(res)))


def _mm_shape(a, b):
    """numpy/ONNX MatMul output shape or None."""
    return _mm_shape_c(tuple(int(d) for d in a), tuple(int(d) for d in b))


@lru_cache(maxsize=None)
def _mm_shape_c(a, b):
    if not a or not b:
        return None
    a2 = (1,) + a if len(a) == 1 else a
    b2 = b + (1,) if len(b) == 1 else b
    if a2[-1] != b2[-2]:
        return None
    try:
        batch = tuple(np.broadcast_shapes(a2[:-2], b2[:-2]))
    except ValueError:
        return None
    out = list(batch + (a2[-2], b2[-1]))
    if len(b) == 1:
        out.pop(-1)
    if len(a) == 1:
        out.pop(-2 if len(b) > 1 else -1)
    return tuple(out)


def _const(g, arr, how=None, **kw):
    """g.const_array, but never a Constant node below opset 12 (value_float/value_ints forms do not exist there)."""
    if g.opset < 12:
        how = how if how in ("init", "ovinit") else "init"
    return g.const_array(arr, how=how, **kw)


def _rare(g):
    """~5 % event (a middle value: Hypothesis over-represents the range ends)."""
    return g.draw(st.integers(0, 19)) == 7


def _style(g, dt):
    if dt in (F16, I32, I64):
        return "smallint"
    return g.pick(["smallint", "smallint", "mixed", "unit"])


def _operand(g, dt, shape, kinds=("input",) * 8 + ("const", "const", "mid", "sym", "unk"), style=None):
    """A tensor operand of the given concrete shape in one of several provenance kinds.  Returns (Val, kind)."""
    shape = tuple(int(d) for d in shape)
    kind = g.pick(kinds)
    style = style or _style(g, dt)
    if kind in ("sym", "unk") and not shape:
        kind = "input"
    if kind == "const":
        how = g.pick(["init", "init", "node", "ovinit"])
        return _const(g, make_array(g.seed(), dt, shape, style), how=how), "const_" + how
    if kind in ("sym", "unk"):
        dims = list(shape)
        i = g.draw(st.integers(0, len(dims) - 1))
        # one symbol per SIZE: two operands of a host must not declare the same symbol for dims of different sizes (a rule may rely on
        # equal symbols meaning equal sizes)
        dims[i] = f"N{shape[i]}" if kind == "sym" else None
        return g.add_input(dt, shape, style=style, dims=dims), kind
    v = g.add_input(dt, shape, style=style)
    if kind == "mid":
        r = g.emit(g.pick(["Identity", "Neg"]), [v])
        if r:
            return r[0], "mid"
        return v, "input"
    return v, "input"


def _shape_tensor(g, tgt, src_shape, what="exact"):
    """Encode a Reshape target.  what: exact | minus1 | zero.  Returns (Val, attrs, variant)."""
    tgt = [int(d) for d in tgt]
    variant = "exact"
    if what == "minus1" and tgt:
        i = g.draw(st.integers(0, len(tgt) - 1))
        tgt[i] = -1
        variant = "minus1"
    elif what == "zero":
        pos = [i for i in range(min(len(tgt), len(src_shape))) if tgt[i] == src_shape[i]]
        if pos:
            tgt[g.pick(pos)] = 0
            variant = "zero"
    attrs = {}
    if g.opset >= 14 and g.chance(2):
        attrs["allowzero"] = 0 if 0 in tgt else g.pick([0, 1])
    v = _const(g, np.asarray(tgt, dtype=np.int64), how=g.pick(["node", "node", "init", "init", "ovinit"]), shape_like=True)
    return v, attrs, variant


def _reshape(g, x, tgt, what=None):
    what = what or g.pick(["exact"] * 7 + ["minus1", "zero", "zero"])
    s, attrs, variant = _shape_tensor(g, tgt, x.shape, what)
    r = g.emit("Reshape", [x, s], **attrs)
    return (r[0] if r else None), variant


def _final_reshape(g, y, expected, tag):
    """Reshape y to sc.  expected = shape the rule wants (or None).  Returns (Val|None, variant)."""
    size = int(y.arr.size)
    opts = ["expected"] * 22 + ["minus1", "zero", "other", "other", "nonconst_shape", "nonconst_input"]
    how = g.pick(opts)
    if expected is None or _prod(expected) != size:
        if how in ("expected", "minus1", "zero"):
            how = "other"
    if how in ("expected", "minus1", "zero"):
        if len(expected) == 0:
            how = "expected"
        out, v = _reshape(g, y, expected, {"expected": "exact"}[how] if how == "expected" else how)
        variant = "expected" if v == "exact" else v
    elif how == "other":
        cands = [s for s in _fact(size) if expected is None or tuple(s) != tuple(expected)] or list(_fact(size))
        out, v = _reshape(g, y, g.pick(cands), "exact")
        variant = "other"
    else:
        tgt = tuple(expected) if expected is not None and _prod(expected) == size else g.pick(list(_fact(size)))
        if how == "nonconst_shape" and len(tgt) > 0:
            like = g.add_input(F32, tgt, style="smallint")
            r = g.emit("Shape", [like])
            s = r[0] if r else None
        else:
            s = g.add_input(I64, (len(tgt),), style="positive")
            s.arr[...] = np.asarray(tgt, dtype=np.int64)
        if s is None:
            return None, how
        r = g.emit("Reshape", [y, s])
        out = r[0] if r else None
        variant = "nonconst"
    g.features.add(f"planted:{tag}:sc_{variant}")
    return out, variant


def _dim(g):
    return g.pick(DIMS)


# ------------------------------------------------------------------------------------------------ broadcast_to_matmul
def _compat_pair(g):
    ra = g.pick([1, 2, 2, 3, 3, 4])
    rb = g.pick([1, 2, 2, 2, 3, 3, 4])
    k = _dim(g)
    nb = max(ra - 2, rb - 2, 0)
    batch = [_dim(g) for _ in range(nb)]

    def side(rank, core):
        if rank == 1:
            return (k,)
        n = rank - 2
        bs = [(d if g.chance(7) else 1) for d in batch[nb - n:]] if n else []
        return tuple(bs) + core

    a = side(ra, (_dim(g), k))
    b = side(rb, (k, _dim(g)))
    return a, b


def _free_shape(g):
    return tuple(_dim(g) for _ in range(g.pick([1, 2, 2, 3, 3, 4])))


def _pick_reshapes(g, a, b, two):
    """Choose reshape targets (ra, rb) such that MatMul(ra, rb) is valid; favour out size == size(MatMul(a,b))."""
    target = _mm_shape(a, b)
    tsize = _prod(target) if target is not None else None
    ras = list(_fact(_prod(a)))
    rbs = list(_fact(_prod(b))) if two else [tuple(b)]
    rng = np.random.default_rng(g.seed())
    rng.shuffle(ras)
    ras = ras[:40]
    if tuple(a) not in ras:  # the identity reshape of a is always among the candidates
        ras.append(tuple(a))
    good, anyp = [], []
    for ra in ras:
        for rb in rbs:
            s = _mm_shape(ra, rb)
            if s is None:
                continue
            if tsize is not None and _prod(s) == tsize:
                good.append((ra, rb))
            elif len(anyp) < 40:
                anyp.append((ra, rb))
    if good and (not anyp or g.chance(9)):
        # prefer non-identity pairs half of the time
        ni = [p for p in good if p[0] != tuple(a) or p[1] != tuple(b)]
        if ni and g.chance(6):
            good = ni
        return good[g.draw(st.integers(0, len(good) - 1))]
    if anyp:
        return anyp[g.draw(st.integers(0, len(anyp) - 1))]
    return None


def _reshape_matmul(g, two, view_one=False):
    """view_one: the host is for the one-reshape rule, whose input_b is then the OUTPUT of Reshape(b, sb)."""
    tag = "rmr2" if two else "rmr1"
    dt = g.pick([F32, F32, F32, F64, F16, I32, I64])
    g.features.add(f"planted:{tag}")
    if g.chance(17, 20):
        a, b = _compat_pair(g)
        g.features.add(f"planted:{tag}:compat")
    else:
        a, b = _free_shape(g), _free_shape(g)
        g.features.add(f"planted:{tag}:free")
    b_seen = b
    if two and view_one:
        b_seen = g.pick(list(_fact(_prod(b))))
        pr = _pick_reshapes(g, a, b_seen, False)
    else:
        pr = _pick_reshapes(g, a, b, two)
    if pr is None:
        return None
    ra, rb = pr
    av, ak = _operand(g, dt, a)
    bv, bk = _operand(g, dt, b)
    g.features.add(f"planted:{tag}:a_{ak.split('_')[0]}")
    g.features.add(f"planted:{tag}:b_{bk.split('_')[0]}")
    g.features.add(f"planted:{tag}:rank_{len(a)}x{len(b)}")
    rav, _ = _reshape(g, av, ra)
    if rav is None:
        return None
    if two:
        rbv, _ = _reshape(g, bv, rb)
        if rbv is None:
            return None
    else:
        rbv = bv
    g.features.add(f"planted:{tag}:{'identity' if (tuple(ra) == tuple(a) and tuple(rb) == tuple(b)) else 'regroup'}")
    mm = g.emit("MatMul", [rav, rbv])
    if not mm:
        return None
    out, _ = _final_reshape(g, mm[0], _mm_shape(a, b_seen), tag)
    if out is None:
        return None
    outs = [out]
    if _rare(g):
        outs.append(g.pick([mm[0], rav]))
        g.features.add(f"planted:{tag}:extra_consumer")
    return outs


@register("two_reshapes_matmul_reshape_rule")
def host_two_reshapes_matmul(g):
    return _reshape_matmul(g, g.chance(17, 20))


@register("one_reshape_matmul_reshape_rule")
def host_one_reshape_matmul(g):
    # the two-reshape form is also an instance of the one-reshape pattern (input_b = Reshape output, shape via value_info)
    return _reshape_matmul(g, g.draw(st.integers(0, 19)) in (6, 13), view_one=True)


# ------------------------------------------------------------------------------------------------ gemm_to_matmul_add
def _gemm_attrs(g, alpha_opts, beta_opts, trans_opts=(None, None, 0, 1)):
    attrs = {}
    ta, tb = g.pick(trans_opts), g.pick(trans_opts)
    if ta is not None:
        attrs["transA"] = ta
    if tb is not None:
        attrs["transB"] = tb
    al, be = g.pick(alpha_opts), g.pick(beta_opts)
    if al is not None:
        attrs["alpha"] = float(al)
    if be is not None:
        attrs["beta"] = float(be)
    return attrs, bool(ta), bool(tb)


def _c_shapes(m, n):
    return [(), (1,), (n,), (1, n), (m, n), (m, 1), (1, 1)]


@register("gemm_to_matmul_add_rule")
def host_gemm_to_matmul_add(g):
    tag = "g2ma"
    g.features.add(f"planted:{tag}")
    dt = g.pick([F32, F32, F32, F64, F16, I32, I64])
    a = _free_shape(g)
    size = _prod(a)
    attrs, ta, tb = _gemm_attrs(g, [1.0] * 20 + [None, 1.0 + 1e-7, 0.5], [1.0] * 20 + [None, 0.5, 2.0],
                                trans_opts=(None, None, None, 0, 0, 1))
    nat = (_prod(a[:-1]), a[-1])
    if ta:
        nat = (nat[1], nat[0])
    ra = nat if g.chance(8) else g.pick(list(_fact(size, 2, 2)))
    m, k = (ra[1], ra[0]) if ta else ra
    n = _dim(g)
    if tb and g.chance(5):
        n = k  # square-ish b: the shape logic cannot see transB
    bshape = (n, k) if tb else (k, n)
    av, ak = _operand(g, dt, a)
    bv, bk = _operand(g, dt, bshape, kinds=("input", "input", "const", "const", "const", "const", "sym", "mid"))
    g.features.add(f"planted:{tag}:a_rank{len(a)}")
    g.features.add(f"planted:{tag}:transA{int(ta)}B{int(tb)}")
    g.features.add(f"planted:{tag}:alpha_{attrs.get('alpha', 'absent')}:beta_{attrs.get('beta', 'absent')}")
    rav, _ = _reshape(g, av, ra)
    if rav is None:
        return None
    ins = [rav, bv]
    if not _rare(g):
        cs = g.pick(_c_shapes(m, n))
        cv, _ = _operand(g, dt, cs, kinds=("input", "const", "const", "const", "sym"))
        ins.append(cv)
        g.features.add(f"planted:{tag}:c_{'x'.join(map(str, cs)) if cs else 'scalar'}" if cs in ((), (1,), (1, 1)) else
                       f"planted:{tag}:c_{'MN' if cs == (m, n) else 'N' if cs == (n,) else '1N' if cs == (1, n) else 'M1'}")
    else:
        g.features.add(f"planted:{tag}:c_absent")
    y = g.emit("Gemm", ins, **attrs)
    if not y:
        return None
    out, _ = _final_reshape(g, y[0], _mm_shape(a, bshape), tag)
    if out is None:
        return None
    outs = [out]
    if _rare(g):
        outs.append(y[0])
        g.features.add(f"planted:{tag}:extra_consumer")
    return outs


# ------------------------------------------------------------------------------------------------ matmul_add_to_gemm
def _maybe_transpose(g, v, mode, tag, side):
    """mode: none | perm10 | noperm | perm01 | rank3."""
    if mode == "none":
        return v
    if v.rank == 2:
        if mode == "perm10":
            r = g.emit("Transpose", [v], perm=[1, 0])
        elif mode == "noperm":
            r = g.emit("Transpose", [v])
        else:
            r = g.emit("Transpose", [v], perm=[0, 1])
    elif v.rank == 3:
        r = g.emit("Transpose", [v], perm=g.pick([[0, 2, 1], [1, 0, 2]])) if mode != "noperm" else g.emit("Transpose", [v])
    else:
        r = g.emit("Transpose", [v])
    g.features.add(f"planted:{tag}:T{side}_{mode}")
    return r[0] if r else None


def _matmul_add(g, want_ta, want_tb):
    tag = "mm_add"
    g.features.add(f"planted:{tag}")
    dt = g.pick([F32, F32, F32, F64, F16, I32, I64])

    def tmode(want):
        if g.chance(17, 20):
            return "perm10" if want else "none"
        return g.pick(["none", "perm10", "noperm", "perm01"])

    ma, mb = tmode(want_ta), tmode(want_tb)
    m, k, n = _dim(g), _dim(g), _dim(g)
    ranks = g.pick([(2, 2)] * 16 + [(3, 2), (2, 3), (3, 3), (1, 2), (2, 1)])
    # shapes of the MatMul operands (after the optional transposes)
    bd = _dim(g)
    pa = {1: (k,), 2: (m, k), 3: (bd, m, k)}[ranks[0]]
    pb = {1: (k,), 2: (k, n), 3: (bd, k, n)}[ranks[1]]

    def pre(shape, mode):  # shape of the value fed to the Transpose
        if mode in ("none", "perm01") or len(shape) < 2:
            return shape
        if len(shape) == 2:
            return shape[::-1]
        return None  # rank 3: decided by trial below

    sa, sb = pre(pa, ma), pre(pb, mb)
    if sa is None:
        sa, ma = pa, "none"
    if sb is None:
        sb, mb = pb, "none"
    kinds = ("input", "input", "input", "const", "mid", "sym", "unk")
    av, ak = _operand(g, dt, sa, kinds=kinds)
    bv, bk = _operand(g, dt, sb, kinds=kinds)
    g.features.add(f"planted:{tag}:ranks_{ranks[0]}x{ranks[1]}")
    g.features.add(f"planted:{tag}:dtype_{np.dtype(dt).name}")
    g.features.add(f"planted:{tag}:a_{ak.split('_')[0]}")
    ta = _maybe_transpose(g, av, ma, tag, "a")
    tb = _maybe_transpose(g, bv, mb, tag, "b")
    if ta is None or tb is None:
        return None
    mm = g.emit("MatMul", [ta, tb])
    if not mm:
        return None
    os_ = mm[0].shape
    if len(os_) == 2:
        M, N = os_
        cs = [(), (1,), (N,), (1, N), (M, N), (M, N), (M, 1), (1, 1), (1, M, N), (2, M, N), (1, 1, N), (1, 1, 1)]
        if M == 1:
            cs += [(3, N), (2, 1)]
        if N == 1:
            cs += [(M, 3), (1, 2)]
    else:
        cs = [(), (1,), tuple(os_), tuple(os_[-1:])]
    cshape = g.pick(cs)
    cv, ck = _operand(g, dt, cshape, kinds=("input", "input", "const", "const", "mid", "sym"))
    up = len(cshape) > 2 or (len(os_) == 2 and len(cshape) == 2 and ((cshape[0] > os_[0]) or (cshape[1] > os_[1])))
    g.features.add(f"planted:{tag}:c_rank{len(cshape)}")
    if up:
        g.features.add(f"planted:{tag}:c_broadcasts_up")
    order = g.chance(7)
    g.features.add(f"planted:{tag}:c_{'right' if order else 'left'}")
    y = g.emit("Add", [mm[0], cv] if order else [cv, mm[0]])
    if not y:
        return None
    outs = [y[0]]
    if _rare(g):
        outs.append(g.pick([mm[0], ta, tb]))
        g.features.add(f"planted:{tag}:extra_consumer")
    return outs


@register("matmul_add_to_gemm_rule")
def host_matmul_add(g):
    return _matmul_add(g, False, False)


@register("transpose_a_matmul_add_to_gemm_rule")
def host_ta_matmul_add(g):
    return _matmul_add(g, True, False)


@register("transpose_b_matmul_add_to_gemm_rule")
def host_tb_matmul_add(g):
    return _matmul_add(g, False, True)


@register("transpose_ab_matmul_add_to_gemm_rule")
def host_tab_matmul_add(g):
    return _matmul_add(g, True, True)


# ------------------------------------------------------------------------------------------------ fuse_batchnorm_into_gemm
def _param(g, arr, kind):
    """kind: init | node | ovinit | input."""
    if kind == "input":
        v = g.add_input(arr.dtype, arr.shape, style="positive")
        v.arr[...] = arr
        return v
    return _const(g, arr, how=kind)


@register("fuse_batchnorm_into_gemm_rule")
def host_bn_gemm(g):
    tag = "bn_gemm"
    g.features.add(f"planted:{tag}")
    old = False
    if _rare(g):
        old = g.set_opset(g.pick([9, 11, 12, 13]))
    elif g.opset < 14:
        # onnx.reference evaluates BatchNormalization-9 (opset 9..13) with batch statistics whenever momentum has its
        # default, so the two runtimes disagree on the SOURCE there; keep those opsets rare.
        g.set_opset(g.pick([14, 15, 17, 18, 19, 21, 22]))
    dt = g.pick([F32, F32, F32, F32, F64, F64, F16])
    m, k, n = _dim(g), _dim(g), _dim(g)
    attrs, ta, tb = _gemm_attrs(g, [None] * 6 + [1.0, 0.5, 2.0, -1.0], [None] * 6 + [1.0, 0.5, 2.0, 0.0, -1.0])
    xv, xk = _operand(g, dt, (k, m) if ta else (m, k), kinds=("input", "input", "input", "sym", "mid"), style=g.pick(["smallint", "unit"]))
    # which operands are NOT plain initializers (near-misses); mostly all initializers
    names = ["w", "c", "scale", "B", "mean", "var"]
    kinds = {nm: "init" for nm in names}
    if g.chance(3):
        nm = g.pick(names)
        kinds[nm] = g.pick(["node", "ovinit", "input"])
        g.features.add(f"planted:{tag}:{nm}_{kinds[nm]}")
    else:
        g.features.add(f"planted:{tag}:all_init")
    wv = _param(g, make_array(g.seed(), dt, (n, k) if tb else (k, n), "smallint"), kinds["w"])
    ins = [xv, wv]
    cmode = g.pick(["absent", "absent", "N", "N", "1N", "MN", "M1", "scalar", "1", "empty_trailing"])
    if g.opset < 11 and cmode in ("absent", "empty_trailing"):
        cmode = "N"
    cshape = {"N": (n,), "1N": (1, n), "MN": (m, n), "M1": (m, 1), "scalar": (), "1": (1,)}.get(cmode)
    cv = None
    if cshape is not None:
        cv = _param(g, make_array(g.seed(), dt, cshape, "smallint"), kinds["c"])
        ins.append(cv)
    elif cmode == "empty_trailing":
        ins.append(None)
    g.features.add(f"planted:{tag}:c_{cmode}")
    g.features.add(f"planted:{tag}:alpha_{attrs.get('alpha', 'absent')}")
    g.features.add(f"planted:{tag}:beta_{attrs.get('beta', 'absent')}")
    g.features.add(f"planted:{tag}:transA{int(ta)}B{int(tb)}")
    y = g.emit("Gemm", ins, **attrs)
    if not y:
        return None
    # BN parameters
    pdt = dt
    sdt = dt
    if g.opset >= 15 and g.chance(1):
        pdt = g.pick([F32, F64])  # T2 (mean/var) may differ from T since opset 15
        g.features.add(f"planted:{tag}:mixed_T2")
    varstyle = g.pick(["positive", "positive", "positive", "tiny", "zero"])
    var = make_array(g.seed(), pdt, (n,), "positive")
    if varstyle == "tiny":
        var = (var * 1e-6).astype(pdt)
    elif varstyle == "zero":
        var = np.zeros((n,), dtype=pdt)
    g.features.add(f"planted:{tag}:var_{varstyle}")
    share = g.pick(["none"] * 6 + ["c_is_mean", "scale_is_var", "w_shared", "c_shared", "w_shared"])
    scale = _param(g, make_array(g.seed(), sdt, (n,), g.pick(["smallint", "unit", "positive"])), kinds["scale"])
    bias = _param(g, make_array(g.seed(), sdt, (n,), "smallint"), kinds["B"])
    if share == "c_is_mean" and cv is not None and cv.shape == (n,) and pdt == dt:
        mean = cv
        g.features.add(f"planted:{tag}:c_is_mean")
    else:
        mean = _param(g, make_array(g.seed(), pdt, (n,), g.pick(["smallint", "unit"])), kinds["mean"])
    if share == "scale_is_var" and pdt == sdt and float(np.min(scale.arr)) >= 0:
        varv = scale
        g.features.add(f"planted:{tag}:scale_is_var")
    else:
        varv = _param(g, var, kinds["var"])
    bn = {}
    eps = g.pick([None, None, 1e-5, 1e-3, 0.1, 1.0])
    if varstyle == "zero" and eps is None and g.chance(5):
        eps = 0.1
    if eps is not None:
        bn["epsilon"] = eps
    g.features.add(f"planted:{tag}:eps_{eps}")
    if g.chance(2):
        bn["momentum"] = g.pick([0.5, 0.9, 0.0])
    if g.opset >= 14:
        tm = g.pick([None, None, None, 0, 1])
        if tm is not None:
            bn["training_mode"] = tm
        g.features.add(f"planted:{tag}:training_{tm}")
    out = g.emit("BatchNormalization", [y[0], scale, bias, mean, varv], n_out=3 if bn.get("training_mode") else 1, **bn)
    if not out:
        return None
    for extra in out[1:]:
        g.env.remove(extra)  # running_mean / running_var stay unused (else they become graph outputs and block any fusion)
    outs = [out[0]]
    if share == "w_shared":
        x2 = g.add_input(dt, (2, wv.shape[0]), style="smallint")
        r = g.emit("MatMul", [x2, wv])
        if r:
            outs.append(r[0])
            g.features.add(f"planted:{tag}:w_shared")
    elif share == "c_shared" and cv is not None:
        r = g.emit("Neg", [cv])
        if r:
            outs.append(r[0])
            g.features.add(f"planted:{tag}:c_shared")
    if _rare(g):
        outs.append(y[0])
        g.features.add(f"planted:{tag}:extra_consumer")
    if old:
        g.features.add(f"planted:{tag}:opset_{g.opset}")
    return outs


# ------------------------------------------------------------------------------------------------ remove_optional_bias_from_gemm
@register("remove_optional_bias_from_gemm_rule")
def host_gemm_zero_bias(g):
    tag = "gemm_bias0"
    g.features.add(f"planted:{tag}")
    if g.chance(4):
        g.set_opset(g.pick([9, 9, 10, 11, 11, 12]))
    g.features.add(f"planted:{tag}:opset_{'lt11' if g.opset < 11 else 'ge11'}")
    dt = g.pick([F32, F32, F32, F64, F16, I32, I64])
    m, k, n = _dim(g), _dim(g), _dim(g)
    attrs, ta, tb = _gemm_attrs(g, [None] * 5 + [1.0, 0.5, 2.0], [None] * 5 + [1.0, 0.5, 0.0])
    if dt.kind == "i":
        attrs = {kk: (float(int(vv)) if kk in ("alpha", "beta") and vv >= 1 else vv) for kk, vv in attrs.items() if not (kk in ("alpha", "beta") and vv < 1)}
    xv, _ = _operand(g, dt, (k, m) if ta else (m, k), kinds=("input", "input", "sym", "mid", "const"))
    wv, _ = _operand(g, dt, (n, k) if tb else (k, n), kinds=("input", "const", "const", "const"))
    bshape = g.pick(_c_shapes(m, n))
    if dt.kind == "f":
        val = g.pick(["zeros", "zeros", "zeros", "zeros", "negzero", "mixedzero", "tiny", "one_nonzero", "generic"])
    else:
        val = g.pick(["zeros", "zeros", "zeros", "one_nonzero", "generic"])
    arr = np.zeros(bshape, dtype=dt)
    if val == "negzero":
        arr = -arr
    elif val == "mixedzero":
        arr = np.where(make_array(g.seed(), np.dtype("bool"), bshape), arr, -arr).astype(dt)
    elif val == "tiny":
        t = g.pick([1e-30, 1e-9, 1e-45, -1e-9]) if dt != F16 else g.pick([6e-8, -6e-8, 1e-4])
        arr = np.full(bshape, t, dtype=dt)
        if not np.any(arr):  # underflowed to zero in this dtype
            val = "zeros"
    elif val == "one_nonzero":
        arr = arr.copy()
        flat = arr.reshape(-1)
        flat[g.draw(st.integers(0, flat.size - 1))] = g.pick([1, -2, 3])
        arr = flat.reshape(bshape)
    elif val == "generic":
        arr = make_array(g.seed(), dt, bshape, "smallint")
        if not np.any(arr):
            val = "zeros"
    how = g.pick(["node", "init", "init", "ovinit", "folded", "input"])
    if how == "input":
        bv = g.add_input(dt, bshape, style="smallint")
        bv.arr[...] = arr
    elif how == "folded":
        c0 = _const(g, arr, how="init")
        r = g.emit("Identity", [c0])
        bv = r[0] if r else c0
    else:
        bv = _const(g, arr, how=how)
    g.features.add(f"planted:{tag}:b_{val}")
    g.features.add(f"planted:{tag}:b_as_{how}")
    g.features.add(f"planted:{tag}:b_rank{len(bshape)}")
    g.features.add(f"planted:{tag}:dtype_{np.dtype(dt).name}")
    return g.emit("Gemm", [xv, wv, bv], **attrs)


# ------------------------------------------------------------------------------------------------ fuse_hardswish_rules
def _hs_const(g, x, lit, name, tag, deviate):
    """One of the four constants.  deviate=False: exact scalar true constant.  deviate=True: ONE property is off
    (value variant, non-scalar singleton shape, overridable / non-constant provenance)."""
    dt = x.dtype
    val, shape, how, variant = lit, (), g.pick(["node", "init"]), "exact"
    if deviate:
        what = g.pick(["value", "value", "value", "shape", "shape", "how"])
        if what == "value":
            if dt.kind == "f":
                if lit == 0:
                    variant = g.pick(["negzero", "abs_1e-9", "abs_-1e-6", "other"])
                    val = {"negzero": -0.0, "abs_1e-9": 1e-9, "abs_-1e-6": -1e-6, "other": g.pick([1.0, -1.0, 0.5])}[variant]
                else:
                    variant = g.pick(["rel_5e-5", "rel_5e-5", "rel_9e-5", "rel_2e-4", "other"])
                    val = {"rel_5e-5": lit * (1 + g.pick([5e-5, -5e-5])), "rel_9e-5": lit * (1 + g.pick([9e-5, -9e-5])),
                           "rel_2e-4": lit * (1 + g.pick([2e-4, -2e-4])), "other": lit + g.pick([1, -1, 0.5])}[variant]
            else:
                variant = "other"
                val = lit + g.pick([1, -1, 2])
        elif what == "shape":
            if name in ("min", "max"):
                # Clip bounds: only [1] keeps the host valid (and only when x is not a scalar)
                shape = (1,) if x.rank >= 1 else ()
            else:
                shape = g.pick([(1,), (1, 1), (1,) * (x.rank + 1)])
        else:
            how = g.pick(["ovinit", "nonconst"])
    arr = np.full(shape, val, dtype=dt)
    if how == "nonconst":
        v = g.add_input(dt, shape, style="smallint")
        v.arr[...] = arr
    else:
        v = _const(g, arr, how=how)
    if variant != "exact":
        g.features.add(f"planted:{tag}:{name}_{variant}")
    if shape != ():
        g.features.add(f"planted:{tag}:{name}_shape_rank{len(shape)}")
    if how in ("ovinit", "nonconst"):
        g.features.add(f"planted:{tag}:{name}_{how}")
    return v


@register("fuse_hardswish_rules")
def host_hardswish(g):
    tag = "hswish"
    g.features.add(f"planted:{tag}")
    r = g.draw(st.integers(0, 9))
    if r < 3:
        g.set_opset(13)
    elif r == 3:
        g.set_opset(g.pick([11, 12]))
    g.features.add(f"planted:{tag}:opset_{'lt14' if g.opset < 14 else 'ge14'}")
    form = g.pick(["swish", "swish", "sigmoid", "sigmoid_mul", "hsig_mul", "hsig_mul"])
    g.features.add(f"planted:{tag}:form_{form}")
    dts = [F32, F32, F32, F64, F16]
    if form != "hsig_mul" and g.opset >= 12:
        dts += [I32, I64]
    dt = g.pick(dts)
    g.features.add(f"planted:{tag}:dtype_{np.dtype(dt).name}")
    rank = g.pick([0, 1, 2, 2, 3])
    shape = tuple(g.pick([1, 2, 3, 4]) for _ in range(rank))
    x = g.add_input(dt, shape, style=g.pick(["smallint", "mixed", "edge"]) if dt.kind == "f" else "smallint")
    if g.chance(2):
        rr = g.emit("Identity", [x])
        if rr:
            x = rr[0]
    outs = []

    def binop(op, p, q, commutes=True):
        if commutes and g.chance(4):
            g.features.add(f"planted:{tag}:{op}_swapped")
            p, q = q, p
        rr = g.emit(op, [p, q])
        return rr[0] if rr else None

    if form == "hsig_mul":
        attrs = {}
        al = g.pick(["f32_1/6", "f32_1/6", "f32_1/6", "0.1666667", "0.1666667", "py_1/6", "py_1/6", "0.16666", "0.1667", "absent", "0.2"])
        be = g.pick(["0.5"] * 8 + ["absent", "0.50001", "0.6"])
        if al != "absent":
            attrs["alpha"] = {"f32_1/6": float(np.float32(1 / 6)), "0.1666667": 0.1666667, "py_1/6": 1 / 6, "0.16666": 0.16666, "0.1667": 0.1667, "0.2": 0.2}[al]
        if be != "absent":
            attrs["beta"] = float(be)
        g.features.add(f"planted:{tag}:alpha_{al}")
        g.features.add(f"planted:{tag}:beta_{be}")
        hs = g.emit("HardSigmoid", [x], **attrs)
        if not hs:
            return None
        other = x
        if _rare(g):
            other = g.add_input(dt, shape, style="smallint")
            g.features.add(f"planted:{tag}:mul_other_operand")
        y = binop("Mul", hs[0], other)
        if y is None:
            return None
        outs = [y]
        if _rare(g):
            outs.append(hs[0])
            g.features.add(f"planted:{tag}:extra_consumer")
        return outs

    # which of the four constants deviate from the exact scalar constant (mostly none, else one or two)
    ndev = g.pick([0, 0, 0, 0, 0, 0, 1, 1, 1, 2])
    names = ["bias", "min", "max", "div"]
    dev = set()
    for _ in range(ndev):
        dev.add(g.pick(names))
    g.features.add(f"planted:{tag}:consts_{'exact' if not dev else 'deviating'}")
    structural = g.pick(["none"] * 12 + ["no_max", "no_min", "div_reversed", "mul_other"])
    if structural == "div_reversed" and dt.kind != "f":
        structural = "none"
    bias = _hs_const(g, x, 3, "bias", tag, "bias" in dev)
    a = binop("Add", x, bias)
    if a is None:
        return None
    clipform = structural if structural in ("no_max", "no_min") else "both"
    if clipform == "both":
        cins = [a, _hs_const(g, x, 0, "min", tag, "min" in dev), _hs_const(g, x, 6, "max", tag, "max" in dev)]
    elif clipform == "no_max":
        cins = [a, _hs_const(g, x, 0, "min", tag, "min" in dev)]
    else:
        cins = [a, None, _hs_const(g, x, 6, "max", tag, "max" in dev)]
    if clipform != "both":
        g.features.add(f"planted:{tag}:clip_{clipform}")
    # Clip min/max must be scalars (rank 0) per spec; keep [1]-shaped ones only where the runtimes accept them (emit checks ref)
    c = g.emit("Clip", cins)
    if not c:
        return None
    c = c[0]
    cur = c
    if form == "swish":
        other = x
        if structural == "mul_other":
            other = g.add_input(dt, shape, style="smallint")
            g.features.add(f"planted:{tag}:mul_other_operand")
        cur = binop("Mul", cur, other)
        if cur is None:
            return None
    div = _hs_const(g, x, 6, "div", tag, "div" in dev)
    if structural == "div_reversed":
        g.features.add(f"planted:{tag}:div_reversed")
        d = g.emit("Div", [div, cur])
    else:
        d = g.emit("Div", [cur, div])
    if not d:
        return None
    cur = d[0]
    if form == "sigmoid_mul":
        cur = binop("Mul", cur, x)
        if cur is None:
            return None
    outs = [cur]
    if _rare(g):
        outs.append(g.pick([c, a]))
        g.features.add(f"planted:{tag}:extra_consumer")
    return outs
